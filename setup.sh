#!/bin/sh
# Offline setup: build the fact-extraction driver and warm the dependency-only target directory.
set -e
cd "$(dirname "$0")"
export CARGO_NET_OFFLINE=true
(cd driver && cargo +nightly build --offline)
python3 - <<'PY'
import sys
sys.path.insert(0, '.')
from rules import facts
d = facts.ensure_facts('default')
print('facts at', d)
PY
