"""KWALK — key-concrete / rest-nondeterministic path walker over extracted MIR.

The walker explores every CFG path of one MIR body.  Values of *key places* (given by the caller,
e.g. the discriminants of `(op, lhs, rhs)` or the code point of `chr`) and everything computed from
them by copies, comparisons, casts, discriminant reads and a table of pure std predicates are tracked
concretely; every other branch condition is explored both ways.  No rsjsonnet code is executed and no
solver is used: this is finite-domain abstract interpretation with the powerset-of-paths domain.

State = (basic block, environment of known places, marks).  The environment only ever holds values
drawn from the finite set {key values, MIR constants, results of comparisons on them}, so the visited
set guarantees termination; a state budget turns pathological growth into an "unknown shape" error
(fail closed) instead of an unsound answer.
"""
from .facts import pk, callee_name


class WalkLimit(Exception):
    pass


STOP = object()

# value forms
#   int                                   known scalar (bool as 0/1, char as code point)
#   ('var', adt_q, variant_name)          enum value with known variant (payload tracked separately)
#   ('notvar', adt_q, frozenset(names))   enum value known NOT to be one of these variants
#   ('not', frozenset(ints))              scalar known not to be one of these
#   ('ref', placekey)                     reference to a tracked place
#   ('discr', placekey, adt_q)            result of discriminant(place) with unknown variant
#   ('str', s)                            string literal
#   ('fn', qname)                         function item / closure value

_INT_BITS = {
    "u8": 8, "u16": 16, "u32": 32, "u64": 64, "u128": 128, "usize": 64,
    "i8": 8, "i16": 16, "i32": 32, "i64": 64, "i128": 128, "isize": 64,
    "char": 32, "bool": 1,
}


def _prefix_match(key, base):
    return key == base or (key.startswith(base) and key[len(base)] in ".@[")


class Env(dict):
    def frozen(self):
        return tuple(sorted(self.items(), key=lambda kv: kv[0]))

    def kill(self, base):
        for k in [k for k, v in self.items()
                  if _prefix_match(k, base) or (type(v) is tuple and v and v[0] == "alias" and _prefix_match(v[1], base))]:
            del self[k]

    def copy_tree(self, src, dst):
        if src == dst:
            return
        items = [(k, v) for k, v in self.items() if _prefix_match(k, src)]
        self.kill(dst)
        for k, v in items:
            self[dst + k[len(src):]] = v


def _default_pure_calls():
    def deref_arg(w, env, v):
        if isinstance(v, tuple) and v[0] == "ref":
            return env.get(v[1])
        return v

    def char_pred(fn):
        def f(w, env, args):
            v = deref_arg(w, env, args[0])
            if isinstance(v, int):
                return 1 if fn(v) else 0
            return None
        return f

    def is_ascii(v):
        return v < 128

    t = {}
    for ty in ("char", "u8"):
        t["<%s>::is_ascii_digit" % ty] = char_pred(lambda v: 0x30 <= v <= 0x39)
        t["<%s>::is_ascii_alphabetic" % ty] = char_pred(lambda v: 0x41 <= v <= 0x5A or 0x61 <= v <= 0x7A)
        t["<%s>::is_ascii_alphanumeric" % ty] = char_pred(
            lambda v: 0x30 <= v <= 0x39 or 0x41 <= v <= 0x5A or 0x61 <= v <= 0x7A)
        t["<%s>::is_ascii_hexdigit" % ty] = char_pred(
            lambda v: 0x30 <= v <= 0x39 or 0x41 <= v <= 0x46 or 0x61 <= v <= 0x66)
        t["<%s>::is_ascii_uppercase" % ty] = char_pred(lambda v: 0x41 <= v <= 0x5A)
        t["<%s>::is_ascii_lowercase" % ty] = char_pred(lambda v: 0x61 <= v <= 0x7A)
        t["<%s>::is_ascii_whitespace" % ty] = char_pred(lambda v: v in (0x20, 0x09, 0x0A, 0x0C, 0x0D))
        t["<%s>::is_ascii_control" % ty] = char_pred(lambda v: v < 0x20 or v == 0x7F)
        t["<%s>::is_ascii_graphic" % ty] = char_pred(lambda v: 0x21 <= v <= 0x7E)
        t["<%s>::is_ascii_punctuation" % ty] = char_pred(
            lambda v: 0x21 <= v <= 0x2F or 0x3A <= v <= 0x40 or 0x5B <= v <= 0x60 or 0x7B <= v <= 0x7E)
        t["<%s>::is_ascii" % ty] = char_pred(is_ascii)

    def ord_pred(names):
        def f(w, env, args):
            v = deref_arg(w, env, args[0])
            if isinstance(v, tuple) and v[0] == "var" and v[1] == "core::cmp::Ordering":
                return 1 if v[2] in names else 0
            return None
        return f

    t["<core::cmp::Ordering>::is_lt"] = ord_pred({"Less"})
    t["<core::cmp::Ordering>::is_le"] = ord_pred({"Less", "Equal"})
    t["<core::cmp::Ordering>::is_gt"] = ord_pred({"Greater"})
    t["<core::cmp::Ordering>::is_ge"] = ord_pred({"Greater", "Equal"})
    t["<core::cmp::Ordering>::is_eq"] = ord_pred({"Equal"})
    t["<core::cmp::Ordering>::is_ne"] = ord_pred({"Less", "Greater"})

    def ord_reverse(w, env, args):
        v = deref_arg(w, env, args[0])
        if isinstance(v, tuple) and v[0] == "var" and v[1] == "core::cmp::Ordering":
            return ("var", v[1], {"Less": "Greater", "Equal": "Equal", "Greater": "Less"}[v[2]])
        return None

    t["<core::cmp::Ordering>::reverse"] = ord_reverse

    def smart_deref(w, env, args):
        v = args[0]
        if isinstance(v, tuple) and v[0] == "ref":
            return ("ref", v[1] + ".^")
        return None

    def variant_pred(names):
        def f(w, env, args):
            v = args[0]
            if isinstance(v, tuple) and v[0] == "ref":
                v = env.get(v[1])
            if isinstance(v, tuple) and v[0] == "var":
                return 1 if v[2] in names else 0
            return None
        return f

    t["<core::option::Option>::is_some"] = variant_pred({"Some"})
    t["<core::option::Option>::is_none"] = variant_pred({"None"})
    t["<core::result::Result>::is_ok"] = variant_pred({"Ok"})
    t["<core::result::Result>::is_err"] = variant_pred({"Err"})

    for ptr in ("alloc::rc::Rc", "alloc::boxed::Box", "rsjsonnet_lang::gc::GcView", "alloc::sync::Arc"):
        t["<%s as core::ops::deref::Deref>::deref" % ptr] = smart_deref
    return t


PURE_CALLS = _default_pure_calls()


class FrameBB(int):
    """Block number handed to the rule's hooks while an inlined callee is walked: usable as an index into the callee's blocks,
    but never equal to a plain block number of the function the rule was written for (hooks compare `bb == head`)."""
    def __new__(cls, v, frame):
        o = int.__new__(cls, v)
        o.frame = frame
        return o

    def __eq__(self, other):
        return isinstance(other, FrameBB) and int(self) == int(other) and self.frame == other.frame

    def __ne__(self, other):
        return not self.__eq__(other)

    def __hash__(self):
        return hash((int(self), self.frame))


class Walker:
    def __init__(self, F, body, *, on_stmt=None, on_term=None, on_edge=None, pure_calls=None,
                 after_stmt=None, call_result=None,
                 max_states=400000, arith=False, ordered_marks=False, want_ret=False,
                 inline_eq_derive=True, max_marks=64, ret_prefixes=("0",), dedupe_marks=False,
                 refine=True, keep_ints=True, std_wrappers=True):
        self.F = F
        self.body = body
        self.on_stmt = on_stmt
        self.on_term = on_term
        self.on_edge = on_edge
        self.after_stmt = after_stmt
        self.call_result = call_result
        self.pure = dict(PURE_CALLS)
        if pure_calls:
            self.pure.update(pure_calls)
        self.max_states = max_states
        self.arith = arith
        self.ordered = ordered_marks
        self.want_ret = want_ret
        self.inline_eq_derive = inline_eq_derive
        self.max_marks = max_marks
        self.ret_prefixes = tuple(ret_prefixes)
        self.dedupe_marks = dedupe_marks
        self.refine = refine
        self.keep_ints = keep_ints
        self.std_wrappers = std_wrappers
        self.states_explored = 0
        self.edges_taken = set()
        self.pre = ""            # key prefix of this frame's locals (non-empty inside an inlined callee)
        self.depth = 0
        self.frames = ()         # qualified names of the functions being walked above this one
        self._ctor = dict(on_stmt=on_stmt, on_term=on_term, on_edge=on_edge, pure_calls=pure_calls, after_stmt=after_stmt,
                          call_result=call_result, max_states=max_states, arith=arith, ordered_marks=ordered_marks,
                          inline_eq_derive=inline_eq_derive, max_marks=max_marks, dedupe_marks=dedupe_marks, refine=refine,
                          keep_ints=keep_ints, std_wrappers=std_wrappers)

    # ---------------------------------------------------------------------------------------------
    # places and operands

    def norm(self, env, place):
        """Normalised key of a place, resolving derefs of tracked references."""
        key = self.pre + str(place["l"])
        for p in place["p"]:
            if p == "*":
                v = env.get(key)
                if isinstance(v, tuple) and v[0] == "ref":
                    key = v[1]
                else:
                    key = key + ".*"
            else:
                k = p["k"]
                if k == "f":
                    key += ".%d" % p["i"]
                elif k == "d":
                    key += "@%s" % p["v"]
                elif k == "i":
                    iv = env.get(self.pre + str(p["l"]))
                    key += "[%s]" % (iv if isinstance(iv, int) else "?")
                elif k == "ci":
                    key += "[%s%d]" % ("-" if p["fe"] else "", p["o"])
                else:
                    key += ".?"
        return key

    def promoted_env(self, idx):
        """Evaluate promoted constant #idx of the enclosing function: returns (value of _0, env)."""
        cache = getattr(self, "_prom_cache", None)
        if cache is None:
            cache = self._prom_cache = {}
        if idx in cache:
            return cache[idx]
        res = (None, {})
        proms = self.body.fn.promoted
        if idx < len(proms) and self.body.promoted_index is None:
            w = Walker(self.F, proms[idx], want_ret=True)
            w._full_ret = True
            outs = w.run(0, {})
            rets = [o for o in outs if o[0] == "return"]
            if len(rets) == 1 and len(outs) == 1:
                e = dict(rets[0][2])
                pre = "P%d:" % idx

                def tr(v):
                    if isinstance(v, tuple) and v[0] == "ref":
                        return ("ref", pre + v[1])
                    return v
                env2 = {pre + k: tr(v) for k, v in e.items()}
                res = (env2.get(pre + "0"), env2)
        cache[idx] = res
        return res

    def const_val(self, c, env=None):
        if "promoted" in c and env is not None:
            v, e2 = self.promoted_env(c["promoted"])
            if v is not None:
                for k, vv in e2.items():
                    env.setdefault(k, vv)
                return v
        if "v" in c:
            return c["v"]
        if "str" in c:
            return ("str", c["str"])
        t = self.body.ty(c["t"])
        if t["k"] == "fndef":
            return ("fn", t["d"])
        if c["s"] in ("()", "const ()"):
            return None
        return ("const", c["s"])

    def val(self, env, op):
        k = op["k"]
        if k == "const":
            return self.const_val(op, env)
        if k in ("copy", "move"):
            key = self.norm(env, op)
            return env.get(key)
        return None

    def place_key_of_operand(self, env, op):
        if op["k"] in ("copy", "move"):
            return self.norm(env, op)
        return None

    # ---------------------------------------------------------------------------------------------

    def variant_of_discr(self, adt_q, d):
        try:
            return self.F.variant_by_discr(adt_q).get(d)
        except Exception:
            return None

    def discr_of_variant(self, adt_q, name):
        a = self.F.adts.get(adt_q)
        if not a:
            return None
        for v in a["variants"]:
            if v["n"] == name:
                return v["discr"]
        return None

    def mask(self, tyidx, v):
        t = self.body.ty(tyidx)
        bits = _INT_BITS.get(t["s"])
        if bits is None or not isinstance(v, int):
            return v
        if t["s"].startswith("i"):
            v &= (1 << bits) - 1
            if v >> (bits - 1):
                v -= 1 << bits
            return v
        return v & ((1 << bits) - 1)

    def eval_binop(self, op, a, b):
        if not isinstance(a, int) or not isinstance(b, int):
            return None
        if op == "Eq":
            return int(a == b)
        if op == "Ne":
            return int(a != b)
        if op == "Lt":
            return int(a < b)
        if op == "Le":
            return int(a <= b)
        if op == "Gt":
            return int(a > b)
        if op == "Ge":
            return int(a >= b)
        if op == "BitAnd":
            return a & b
        if op == "BitOr":
            return a | b
        if op == "BitXor":
            return a ^ b
        if op in ("Shr", "ShrUnchecked"):
            return a >> b if 0 <= b < 256 else None
        if op in ("Shl", "ShlUnchecked"):
            return None  # width dependent; not needed
        if self.arith:
            if op in ("Add", "AddUnchecked"):
                return a + b
            if op in ("Sub", "SubUnchecked"):
                return a - b
            if op == "Mul":
                return a * b
            if op == "Div" and b != 0 and a >= 0 and b > 0:
                return a // b
            if op == "Rem" and b != 0 and a >= 0 and b > 0:
                return a % b
        return None

    def assign(self, env, dst_place, rv):
        dst = self.norm(env, dst_place)
        k = rv["k"]
        if k == "use":
            x = rv["x"]
            if x["k"] in ("copy", "move"):
                src = self.norm(env, x)
                if src != dst:
                    env.copy_tree(src, dst)
                    if x["k"] == "move" and not x["p"]:
                        env.kill(src)
                return
            env.kill(dst)
            v = self.const_val(x, env) if x["k"] == "const" else None
            if v is not None:
                env[dst] = v
            return
        if k == "ref":
            pl = rv["p"]
            if pl["p"] and pl["p"][-1] == "*":
                # re-borrow `&*s` of a string literal keeps the literal
                base = self.norm(env, {"l": pl["l"], "p": pl["p"][:-1]})
                bv = env.get(base)
                if isinstance(bv, tuple) and bv[0] in ("str", "const"):
                    env.kill(dst)
                    env[dst] = bv
                    return
            src = self.norm(env, rv["p"])
            env.kill(dst)
            env[dst] = ("ref", src)
            if rv["m"]:
                # the referent may be modified through the reference from now on: forget it,
                # unless it is itself only a re-borrow chain (`&mut *r`)
                pass
            return
        if k == "discr":
            src = self.norm(env, rv["p"])
            v = env.get(src)
            env.kill(dst)
            adt = rv.get("adt")
            if isinstance(v, tuple) and v[0] == "var":
                d = self.discr_of_variant(v[1], v[2])
                if d is not None:
                    env[dst] = d
                    return
            if self.refine or v is not None:
                env[dst] = ("discr", src, adt)
            return
        if k == "binop":
            a = self.val(env, rv["a"])
            b = self.val(env, rv["b"])
            env.kill(dst)
            op = rv["op"]
            if self.arith and op in ("AddWithOverflow", "SubWithOverflow") and isinstance(a, int) and isinstance(b, int):
                r = a + b if op.startswith("Add") else a - b
                env[dst + ".0"] = r
                env[dst + ".1"] = 1 if r < 0 else 0
                return
            r = self.eval_binop(op, a, b)
            if r is not None:
                env[dst] = r
            return
        if k == "unop":
            a = self.val(env, rv["a"])
            env.kill(dst)
            if isinstance(a, int):
                if rv["op"] == "Not":
                    t = self.body.ty(dst_place["t"])["s"]
                    if t == "bool":
                        env[dst] = 1 - a
                    else:
                        bits = _INT_BITS.get(t)
                        if bits:
                            env[dst] = (~a) & ((1 << bits) - 1)
                elif rv["op"] == "Neg" and self.arith:
                    env[dst] = -a
            return
        if k == "cast":
            a = self.val(env, rv["x"])
            ck = rv["ck"]
            if ck in ("IntToInt",) and isinstance(a, int):
                env.kill(dst)
                env[dst] = self.mask(rv["t"], a)
                return
            if ck.startswith("PointerCoercion") or ck in ("PtrToPtr", "Transmute", "Subtype"):
                x = rv["x"]
                if x["k"] in ("copy", "move"):
                    src = self.norm(env, x)
                    env.copy_tree(src, dst)
                    return
                env.kill(dst)
                if a is not None:
                    env[dst] = a
                return
            env.kill(dst)
            return
        if k == "agg":
            ak = rv["ak"]
            vals = []
            srcs = []
            for x in rv["xs"]:
                vals.append(self.val(env, x))
                srcs.append(self.norm(env, x) if x["k"] in ("copy", "move") else None)
            # collect subtree copies before killing (operand may alias dst)
            trees = []
            for i, s in enumerate(srcs):
                if s is not None:
                    trees.append((i, [(kk, vv) for kk, vv in env.items() if _prefix_match(kk, s)], s))
            env.kill(dst)
            if ak == "adt":
                a = self.F.adts.get(rv["adt"])
                is_enum = bool(a and a["kind"] == "enum")
                env[dst] = ("var", rv["adt"], rv["v"])
                base = dst + ("@%s" % rv["v"] if is_enum else "")
            elif ak == "closure":
                env[dst] = ("fn", rv["d"])
                base = dst
            else:
                base = dst
            for i, v in enumerate(vals):
                if v is not None:
                    env["%s.%d" % (base, i)] = v
            for i, items, s in trees:
                for kk, vv in items:
                    env["%s.%d%s" % (base, i, kk[len(s):])] = vv
            return
        # anything else: unknown
        env.kill(dst)

    # ---------------------------------------------------------------------------------------------

    def run(self, start_bb=0, env=None, start_stmt=0, marks=()):
        env0 = Env(env or {})
        init = (start_bb, start_stmt, env0.frozen(), tuple(marks) if self.ordered else frozenset(marks))
        seen = {init}
        stack = [init]
        outcomes = set()
        while stack:
            bb, si, fenv, marks = stack.pop()
            self.states_explored += 1
            if self.states_explored > self.max_states:
                raise WalkLimit("state budget exceeded in %s" % self.body.fn.q)
            env = Env(fenv)
            marks_l = list(marks) if self.ordered else set(marks)
            block = self.body.blocks[bb]
            hb = FrameBB(bb, self.pre) if self.pre else bb
            stopped = False
            for idx in range(si, len(block["s"])):
                s = block["s"][idx]
                if self.on_stmt:
                    m = self.on_stmt(self, hb, idx, s, env)
                    if m is STOP:
                        stopped = True
                        break
                    if m is not None:
                        self._add_mark(marks_l, m)
                if s["k"] == "assign":
                    self.assign(env, s["p"], s["rv"])
                    if not self.keep_ints and s["rv"]["k"] != "discr":
                        d = self.norm(env, s["p"])
                        for k2 in [k2 for k2, v2 in env.items() if isinstance(v2, int) and _prefix_match(k2, d)]:
                            del env[k2]
                    if self.after_stmt:
                        self.after_stmt(self, hb, idx, s, env)
                elif s["k"] == "setdiscr":
                    env.kill(self.norm(env, s["p"]))
                elif s["k"] == "dead":
                    env.kill(self.pre + str(s["l"]))
            if stopped:
                outcomes.add(("stop", self._freeze_marks(marks_l), self._snapshot(env) if self.want_ret else None))
                continue
            t = block["t"]
            if self.on_term:
                m = self.on_term(self, hb, t, env)
                if m is STOP:
                    outcomes.add(("stop", self._freeze_marks(marks_l), self._snapshot(env) if self.want_ret else None))
                    continue
                if isinstance(m, tuple) and len(m) == 2 and m[0] is STOP:
                    self._add_mark(marks_l, m[1])
                    outcomes.add(("stop", self._freeze_marks(marks_l), self._snapshot(env) if self.want_ret else None))
                    continue
                if m is not None:
                    self._add_mark(marks_l, m)
            nexts = self.step_term(bb, t, env)
            if nexts is None:
                ret = None
                kind = t["k"]
                if kind == "return" and self.want_ret:
                    if getattr(self, "_full_ret", False):
                        ret = tuple(sorted(env.items()))
                    else:
                        ret = self._snapshot(env)
                outcomes.add((kind if kind in ("return", "unreachable") else "diverge:" + kind,
                              self._freeze_marks(marks_l), ret))
                continue
            fm = self._freeze_marks(marks_l)
            for nx in nexts:
                nb, nenv = nx[0], nx[1]
                if len(nx) > 2:
                    # result of an inlined call: (next block or None, env, marks made inside the callee, kind when the path ended there)
                    ml = list(marks_l) if self.ordered else set(marks_l)
                    for m in nx[2]:
                        self._add_mark(ml, m)
                    fm2 = self._freeze_marks(ml)
                    if nb is None:
                        outcomes.add((nx[3], fm2, self._snapshot(nenv) if self.want_ret else None))
                        continue
                    self.edges_taken.add((bb, nb))
                    st = (nb, 0, nenv.frozen(), fm2)
                    if st not in seen:
                        seen.add(st)
                        stack.append(st)
                    continue
                if self.on_edge:
                    r = self.on_edge(self, hb, (FrameBB(nb, self.pre) if self.pre else nb), nenv)
                    if r is STOP:
                        continue
                self.edges_taken.add((bb, nb))
                st = (nb, 0, nenv.frozen(), fm)
                if st not in seen:
                    seen.add(st)
                    stack.append(st)
        return outcomes

    def _snapshot(self, env):
        return tuple(sorted((k, v) for k, v in env.items()
                            if any((_prefix_match(k, p) if p.isdigit() else k.startswith(p))
                                   for p in self.ret_prefixes)))

    def _add_mark(self, marks, m):
        if self.ordered:
            if self.dedupe_marks and m in marks:
                return
            if len(marks) < self.max_marks:
                marks.append(m)
        else:
            marks.add(m)

    def _freeze_marks(self, marks):
        return tuple(marks) if self.ordered else frozenset(marks)

    def step_term(self, bb, t, env):
        """Returns list of (next_bb, env) or None when the path ends here."""
        k = t["k"]
        if k == "goto":
            return [(t["t"], env)]
        if k in ("return", "unreachable", "resume", "terminate", "other", "tailcall"):
            return None
        if k == "drop":
            return [(t["t"], env)]
        if k == "assert":
            v = self.val(env, t["x"])
            if isinstance(v, int) and bool(v) != t["exp"]:
                return None  # guaranteed panic on this path
            return [(t["t"], env)]
        if k == "switch":
            return self.step_switch(t, env)
        if k == "call":
            return self.step_call(bb, t, env)
        return None

    def step_switch(self, t, env):
        x = t["x"]
        v = self.val(env, x)
        key = self.place_key_of_operand(env, x)
        arms = t["arms"]
        if isinstance(v, int):
            for av, b in arms:
                if av == v:
                    return [(b, env)]
            return [(t["else"], env)]
        out = []
        if isinstance(v, tuple) and v[0] == "discr":
            _, src, adt = v
            cur = env.get(src)
            excluded = cur[2] if isinstance(cur, tuple) and cur[0] == "notvar" else frozenset()
            arm_names = []
            for av, b in arms:
                name = self.variant_of_discr(adt, av) if adt else None
                if name is not None and name in excluded:
                    continue
                e2 = Env(env)
                ephemeral = (x["k"] == "move" and not x["p"]) or not self.refine
                if ephemeral and key is not None:
                    e2.pop(key, None)
                if name is not None:
                    arm_names.append(name)
                    if self.refine:
                        e2[src] = ("var", adt, name)
                        if not ephemeral:
                            e2[key] = av
                out.append((b, e2))
            e3 = Env(env)
            if (x["k"] == "move" and not x["p"]) or not self.refine:
                e3.pop(key, None)
            if adt and arm_names:
                allv = set(self.F.variants(adt)) if adt in self.F.adts else None
                ex = frozenset(arm_names) | excluded
                if allv is not None and allv <= ex:
                    # otherwise branch infeasible
                    return out
                if self.refine:
                    e3[src] = ("notvar", adt, ex)
            out.append((t["else"], e3))
            return out
        excluded = v[1] if isinstance(v, tuple) and v[0] == "not" else frozenset()
        arm_vals = []
        moved = x["k"] == "move" and not x["p"]
        if moved and key is not None:
            env.kill(key)
            key = None
        if not self.refine:
            key = None
        for av, b in arms:
            if av in excluded:
                continue
            e2 = Env(env)
            if key is not None:
                e2[key] = av
            arm_vals.append(av)
            out.append((b, e2))
        e3 = Env(env)
        if key is not None:
            ex = frozenset(arm_vals) | excluded
            dt = self.body.ty(t["dt"])["s"]
            if dt == "bool" and {0, 1} <= ex:
                return out
            e3[key] = ("not", ex)
        out.append((t["else"], e3))
        return out

    def step_call(self, bb, t, env):
        name = callee_name(t)
        args = [self.val(env, x) for x in t["xs"]]
        dst = self.norm(env, t["dst"])
        callee = self._inline_target(t, name)
        if callee is not None and self.call_result is not None:
            # a rule that models this very call keeps doing so (asked on a copy: hooks keep counters in the environment)
            probe = self.call_result(self, (FrameBB(bb, self.pre) if self.pre else bb), t, Env(env), list(args))
            if probe is not None:
                callee = None
        if callee is not None:
            r = self._inline_call(bb, t, env, args, dst, callee)
            if r is not None:
                return r
        # a &mut reference passed to a call may modify its referent
        for x, v in zip(t["xs"], args):
            if isinstance(v, tuple) and v[0] == "ref" and x["k"] in ("copy", "move"):
                ty = self.body.ty(x["t"])
                if ty["k"] == "ref" and ty.get("m") and not (name in self.pure):
                    env.kill(v[1])
        env.kill(dst)
        result = None
        if name is not None:
            fn = self.pure.get(name)
            if fn is not None:
                result = fn(self, env, args)
            elif self.inline_eq_derive and name.endswith(" as core::cmp::PartialEq>::eq"):
                result = self._derived_eq(env, args)
        if result is None and self.call_result is not None:
            result = self.call_result(self, (FrameBB(bb, self.pre) if self.pre else bb), t, env, args)
        if result is None and name is not None and self.std_wrappers:
            result = std_wrapper_result(self, t, env, args, name, dst)
        # moved-from argument locals are dead afterwards
        for x in t["xs"]:
            if x["k"] == "move" and not x["p"] and not _prefix_match(dst, self.pre + str(x["l"])):
                env.kill(self.pre + str(x["l"]))
        if result is not None:
            env[dst] = result
        if t["t"] is None:
            return None
        return [(t["t"], env)]

    # ---------------------------------------------------------------------------------------------
    # helper functions that did not exist on the reference tree are walked as if their body stood at the call site

    MAX_INLINE_DEPTH = 3

    def _inline_target(self, t, name):
        if name is None or self.depth >= self.MAX_INLINE_DEPTH or name in self.pure:
            return None
        f = t["f"]
        if not f.get("rlocal") or not f.get("r"):
            return None
        q = f["r"]
        if not self.F.is_new_fn(q) or q == self.body.fn.q or q in self.frames:
            return None
        g = self.F.fn_opt(q)
        if g is None or g.body is None or len(g.body.blocks) > 400:
            return None
        return g

    def _sub_walker(self, body, **kw):
        """the walker used for a callee read in place; subclasses with their own inlining policy override this"""
        return Walker(self.F, body, **kw)

    def _inline_call(self, bb, t, env, args, dst, callee):
        pre2 = "%sF%d:" % (self.pre, self.depth + 1)
        env2 = Env(env)
        for k2 in [k2 for k2 in env2 if k2.startswith(pre2)]:
            del env2[k2]
        for i, (x, v) in enumerate(zip(t["xs"], args)):
            dk = pre2 + str(i + 1)
            if x["k"] in ("copy", "move"):
                env2.copy_tree(self.norm(env, x), dk)
            if v is not None:
                env2[dk] = v
        c = dict(self._ctor)
        sub = self._sub_walker(callee.body, want_ret=True, ret_prefixes=(), **c)
        sub.pre, sub.depth, sub.frames = pre2, self.depth + 1, self.frames + (self.body.fn.q,)
        sub._full_ret = True
        sub.max_states = max(1000, self.max_states - self.states_explored)
        sub.pure = self.pure
        for a in ("full", "stop_on_limit"):
            pass
        outs = sub.run(0, env2)
        self.states_explored += sub.states_explored
        if self.states_explored > self.max_states:
            raise WalkLimit("state budget exceeded in %s (inlining %s)" % (self.body.fn.q, callee.q))
        res = []
        for kind, marks, ret in outs:
            ms = tuple(marks) if self.ordered else tuple(sorted(marks, key=repr))
            if kind == "return":
                e3 = Env(dict(ret))
                e3.kill(dst)
                e3.copy_tree(pre2 + "0", dst)
                for k2 in [k2 for k2 in e3 if k2.startswith(pre2)]:
                    del e3[k2]
                # moved-from argument locals are dead afterwards
                for x in t["xs"]:
                    if x["k"] == "move" and not x["p"] and not _prefix_match(dst, self.pre + str(x["l"])):
                        e3.kill(self.pre + str(x["l"]))
                if t["t"] is None:
                    res.append((None, e3, ms, "diverge:call"))
                else:
                    res.append((t["t"], e3, ms))
            else:
                # the path ended inside the callee (STOP from a hook, panic, unreachable)
                e3 = Env(env)
                res.append((None, e3, ms, kind))
        return res

    def _derived_eq(self, env, args):
        vs = []
        for v in args[:2]:
            if isinstance(v, tuple) and v[0] == "ref":
                v = env.get(v[1])
            vs.append(v)
        if len(vs) == 2 and all(isinstance(v, tuple) and v[0] == "var" for v in vs):
            a, b = vs
            if a[1] == b[1]:
                adt = self.F.adts.get(a[1])
                if a[2] != b[2]:
                    return 0
                if adt:
                    for v in adt["variants"]:
                        if v["n"] == a[2] and len(v["fields"]) == 0:
                            return 1
        return None


_WRAP_CONV = {
    # callee -> (source variant, destination ADT, destination variant)
    "<core::option::Option>::ok_or": ("Some", "core::result::Result", "Ok", "Err"),
    "<core::option::Option>::ok_or_else": ("Some", "core::result::Result", "Ok", "Err"),
    "<core::result::Result>::map_err": ("Ok", "core::result::Result", "Ok", "Err"),
    "<core::result::Result>::ok": ("Ok", "core::option::Option", "Some", "None"),
}


def _copy_payload(env, src_pre, dst_pre):
    for k2, v2 in list(env.items()):
        if _prefix_match(k2, src_pre):
            env[dst_pre + k2[len(src_pre):]] = v2


def std_wrapper_result(w, t, env, args, name, dst):
    """Variant/payload propagation through the std Option/Result/`?` plumbing for tracked values."""
    xs = t["xs"]
    if not xs or xs[0]["k"] not in ("copy", "move"):
        if name.endswith("core::ops::try_trait::FromResidual>::from_residual"):
            return ("var", "core::result::Result", "Err")
        return None
    a0 = args[0]
    src = w.norm(env, xs[0])
    if name in _WRAP_CONV:
        sv, dadt, dv, dother = _WRAP_CONV[name]
        if isinstance(a0, tuple) and a0[0] == "var":
            if a0[2] == sv:
                _copy_payload(env, "%s@%s.0" % (src, sv), "%s@%s.0" % (dst, dv))
                return ("var", dadt, dv)
            return ("var", dadt, dother)
        return None
    if name == "<core::option::Option>::map" and isinstance(a0, tuple) and a0[0] == "var":
        if a0[2] == "None":
            return ("var", "core::option::Option", "None")
        # evaluate a constant-returning closure (`.map(|_| SomeEnum::Variant)`)
        if len(xs) >= 2 and "t" in xs[1]:
            cty = w.body.ty(xs[1]["t"])
            if cty["k"] == "closure":
                clo = w.F.fn_opt(cty["d"])
                if clo is not None and len(clo.body.blocks) <= 6:
                    w2 = Walker(w.F, clo.body, want_ret=True)
                    outs = w2.run(0, {})
                    rets = [o for o in outs if o[0] == "return"]
                    if len(outs) == 1 and len(rets) == 1:
                        d = dict(rets[0][2] or ())
                        for k2, v2 in d.items():
                            if not (isinstance(v2, tuple) and v2 and v2[0] == "ref"):
                                env["%s@Some.0%s" % (dst, k2[1:])] = v2
                        return ("var", "core::option::Option", "Some")
        return None
    if name.endswith("core::ops::try_trait::Try>::branch"):
        if isinstance(a0, tuple) and a0[0] == "var":
            if a0[2] in ("Ok", "Some"):
                _copy_payload(env, "%s@%s.0" % (src, a0[2]), "%s@Continue.0" % dst)
                return ("var", "core::ops::control_flow::ControlFlow", "Continue")
            return ("var", "core::ops::control_flow::ControlFlow", "Break")
        return None
    if name.endswith("core::ops::try_trait::FromResidual>::from_residual"):
        return ("var", "core::result::Result", "Err")
    if name in ("<core::option::Option>::unwrap", "<core::option::Option>::expect", "<core::result::Result>::unwrap",
                "<core::result::Result>::expect"):
        if isinstance(a0, tuple) and a0[0] == "var" and a0[2] in ("Ok", "Some"):
            pre = "%s@%s.0" % (src, a0[2])
            v = env.get(pre)
            _copy_payload(env, pre, dst)
            return v
        return None
    return None


def interval_classes(consts, lo, hi, extra=()):
    """Partition [lo, hi] into maximal intervals on which membership w.r.t. every comparison against
    the given constants is uniform.  Returns list of (a, b) inclusive."""
    cuts = {lo, hi + 1}
    for c in list(consts) + list(extra):
        for d in (c, c + 1):
            if lo <= d <= hi + 1:
                cuts.add(d)
    cs = sorted(cuts)
    return [(cs[i], cs[i + 1] - 1) for i in range(len(cs) - 1)]


def body_int_consts(body, bbs=None):
    """All integer constants mentioned in comparisons/switches of a body (for interval partitioning)."""
    out = set()
    for i, b in enumerate(body.blocks):
        if bbs is not None and i not in bbs:
            continue
        for s in b["s"]:
            if s["k"] == "assign":
                rv = s["rv"]
                for key in ("a", "b", "x"):
                    x = rv.get(key)
                    if isinstance(x, dict) and x.get("k") == "const" and isinstance(x.get("v"), int):
                        out.add(x["v"])
        t = b["t"]
        if t["k"] == "switch":
            for v, _ in t["arms"]:
                out.add(v)
        if t["k"] == "call":
            for x in t["xs"]:
                if x.get("k") == "const" and isinstance(x.get("v"), int):
                    out.add(x["v"])
    return out
