"""Shared rule: no unguarded saturating float -> integer conversion of a number.

`x as u64` / `as i64` / `as usize` on an f64 saturates silently: every value beyond the integer range
becomes MAX (and NaN becomes 0).  A number that is to be rendered, indexed with or stored must
therefore never pass through such a cast unless the operand is known to be small.  The rule
classifies every `FloatToInt` cast of the language crate:
  digit      the operand is a remainder `x % c` (a single digit of a positional rendering)
  converter  the cast sits in one of the checked converters (float::try_to_*, safe_f64_to_i64), which
             compare against the target range first
  clamp      index / count conversions where saturation *is* the specified clamp; the sites are frozen
             below with the reason (a new cast in one of these functions exceeds its count and is reported)
Anything else is a violation.
"""
from . import prov
from .facts import callee_name

CONVERTERS = ("rsjsonnet_lang::float::try_to_", "rsjsonnet_lang::program::eval::safe_f64_to_i64",
              "<rsjsonnet_lang::program::eval::Evaluator>::safe_f64_to_i64")
E = "<rsjsonnet_lang::program::eval::Evaluator>::"
CLAMPS = {
    E + "get_slice_range": (5, "slice bounds and step: a bound beyond usize::MAX selects the same (empty/whole) range as the clamp"),
    E + "do_std_substr": (2, "substr from/len: checked to be non-negative integers first; beyond the string length either way"),
    E + "do_std_remove_at": (1, "removeAt index: an index beyond the array length removes nothing either way"),
    E + "do_std_base64_array": (1, "array item already checked to be an integer in 0..=255 before the conversion"),
}


def rule(F, rep, rid):
    R = rep.rule(rid, "no number passes through an unguarded saturating float->integer cast: every `as <int>` on an f64 is a "
                 "single digit (`x % c`), sits in a range-checking converter, or is one of the frozen index clamps")
    counts = {}
    n = 0
    for fn in F.fn_list:
        if fn.crate.name != "rsjsonnet_lang":
            continue
        P = None
        for bb, si, st in fn.body.assigns():
            rv = st["rv"]
            if rv["k"] != "cast" or rv["ck"] != "FloatToInt":
                continue
            n += 1
            q = fn.q
            if any(q.startswith(c) for c in CONVERTERS):
                rep.ob(R, "%s|converter" % q, True)
                continue
            if P is None:
                P = prov.Prov(F, fn.body)
            org = P.origins_op(rv["x"])
            if org and all(o[0] == "arith" and o[1] in ("Rem",) for o in org):
                rep.ob(R, "%s|digit@%s" % (q, fn.body.span(st["sp"]).rsplit(":", 2)[-2]), True)
                continue
            base = q.split("::{closure")[0]
            if F.is_new_fn(base):
                # a helper that did not exist on the reference tree: the cast belongs to the functions it was extracted from
                from . import cg
                owners = sorted(cg.known_owners(F, base))
                if owners and all(o in CLAMPS or any(o.startswith(c) for c in CONVERTERS) for o in owners):
                    rep.ob(R, "%s|clamp-in-helper" % q, True, {"fn": q, "extracted_from": owners})
                    continue
            if base in CLAMPS:
                counts[base] = counts.get(base, 0) + 1
                ok = counts[base] <= CLAMPS[base][0]
                rep.ob(R, "%s|clamp#%d" % (base, counts[base]), ok, {"fn": base, "reason": CLAMPS[base][1]})
                if ok:
                    continue
            rep.ob(R, "%s|cast@%s" % (q, fn.body.span(st["sp"]).rsplit(":", 2)[-2]), False)
            rep.violation(R, "%s|unguarded-float-to-int" % q,
                          "%s converts an f64 to %s with a saturating `as` cast whose operand is neither a single digit nor "
                          "range-checked (origins %s): values beyond the integer range silently become MAX"
                          % (q, fn.body.ty(st["p"]["t"])["s"], sorted(map(str, org))[:3]), fn.body.span(st["sp"]))
    rep.floor(R, n, 10, "float->int casts")
