"""Graph utilities over extracted MIR bodies: reachability, dominators, loops, SCCs."""


def reachable(succ, starts, blocked_nodes=(), blocked_edges=()):
    """Nodes reachable from `starts` in graph `succ` (list/dict of lists), not entering blocked nodes
    or traversing blocked edges (set of (a, b))."""
    blocked_nodes = set(blocked_nodes)
    blocked_edges = set(blocked_edges)
    seen = set()
    stack = [s for s in starts if s not in blocked_nodes]
    seen.update(stack)
    while stack:
        n = stack.pop()
        for m in succ[n]:
            if m in seen or m in blocked_nodes or (n, m) in blocked_edges:
                continue
            seen.add(m)
            stack.append(m)
    return seen


def dominators(succ, entry=0):
    """Immediate-dominator-free simple dominator sets (iterative). Returns dict node -> set(doms).
    Only nodes reachable from entry are included."""
    nodes = sorted(reachable(succ, [entry]))
    pred = {n: [] for n in nodes}
    for n in nodes:
        for m in succ[n]:
            if m in pred:
                pred[m].append(n)
    allset = set(nodes)
    dom = {n: set(allset) for n in nodes}
    dom[entry] = {entry}
    changed = True
    # reverse postorder speeds things up
    order = _rpo(succ, entry)
    while changed:
        changed = False
        for n in order:
            if n == entry:
                continue
            ps = [dom[p] for p in pred[n]]
            new = set.intersection(*ps) if ps else set()
            new = new | {n}
            if new != dom[n]:
                dom[n] = new
                changed = True
    return dom


def _rpo(succ, entry):
    seen = set()
    order = []
    stack = [(entry, iter(succ[entry]))]
    seen.add(entry)
    while stack:
        n, it = stack[-1]
        adv = False
        for m in it:
            if m not in seen:
                seen.add(m)
                stack.append((m, iter(succ[m])))
                adv = True
                break
        if not adv:
            order.append(n)
            stack.pop()
    order.reverse()
    return order


def back_edges(succ, entry=0):
    dom = dominators(succ, entry)
    out = []
    for n in dom:
        for m in succ[n]:
            if m in dom and m in dom[n]:
                out.append((n, m))
    return out


def natural_loop(succ, pred, tail, head):
    """Nodes of the natural loop of back edge tail->head."""
    loop = {head, tail}
    stack = [tail]
    while stack:
        n = stack.pop()
        if n == head:
            continue
        for p in pred[n]:
            if p not in loop:
                loop.add(p)
                stack.append(p)
    return loop


def sccs(nodes, succ):
    """Tarjan SCC (iterative). nodes: iterable; succ: callable or dict node -> iterable."""
    get = succ if callable(succ) else (lambda n: succ.get(n, ()))
    index = {}
    low = {}
    onstack = set()
    stack = []
    result = []
    counter = [0]
    for root in nodes:
        if root in index:
            continue
        work = [(root, iter(get(root)))]
        index[root] = low[root] = counter[0]
        counter[0] += 1
        stack.append(root)
        onstack.add(root)
        while work:
            n, it = work[-1]
            adv = False
            for m in it:
                if m not in index:
                    index[m] = low[m] = counter[0]
                    counter[0] += 1
                    stack.append(m)
                    onstack.add(m)
                    work.append((m, iter(get(m))))
                    adv = True
                    break
                elif m in onstack:
                    low[n] = min(low[n], index[m])
            if adv:
                continue
            work.pop()
            if work:
                p = work[-1][0]
                low[p] = min(low[p], low[n])
            if low[n] == index[n]:
                comp = []
                while True:
                    w = stack.pop()
                    onstack.discard(w)
                    comp.append(w)
                    if w == n:
                        break
                result.append(comp)
    return result
