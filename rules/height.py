"""HEIGHT — weighted-CFG verification of the logical frame counter (trace items).

Every call of `push_trace_item` is +1, `delay_trace_item` is -1, any other Evaluator method carries
its computed summary [min, max] over its non-error return paths.  Per function:
  (a) no path prefix from the entry goes below 0 (a delay always has its push earlier in the same
      invocation);
  (b) no CFG cycle has positive net effect (a loop that pushes a trace item per element must delay it
      in the same iteration — otherwise a flat operation over n elements counts n frames).
The outermost state-machine loop of `Evaluator::run` is not a per-element loop: its back edges are cut.
"""
from . import cfg
from .facts import callee_name

EVAL = "rsjsonnet_lang::program::eval::Evaluator"
PUSH = "<%s>::push_trace_item" % EVAL
DELAY = "<%s>::delay_trace_item" % EVAL
INF = 10 ** 6


def error_blocks(body):
    """Blocks that only occur on error paths: construct Result::Err, call from_residual / report_error."""
    out = set()
    for i, b in enumerate(body.blocks):
        if b["cleanup"]:
            continue
        for s in b["s"]:
            if s["k"] == "assign":
                rv = s["rv"]
                if rv["k"] == "agg" and rv["ak"] == "adt" and rv["adt"] == "core::result::Result" and rv["v"] == "Err" \
                        and not s["p"]["p"] and s["p"]["l"] == 0:
                    out.add(i)
        t = b["t"]
        if t["k"] == "call":
            n = callee_name(t) or ""
            if n.endswith("core::ops::try_trait::FromResidual>::from_residual") or n == "<%s>::report_error" % EVAL:
                out.add(i)
            if t["t"] is None:
                out.add(i)    # diverging call (panic)
    return out


class Height:
    def __init__(self, F):
        self.F = F
        self.summ = {}        # fn q -> (min, max) net effect on non-error returns
        self.problems = {}    # fn q -> list of problem dicts
        self.detail = {}      # fn q -> per call-site effects
        self._stack = []

    def effect_of_call(self, t):
        n = callee_name(t) or ""
        if n == PUSH:
            return (1, 1)
        if n == DELAY:
            return (-1, -1)
        if n.startswith("<%s>::" % EVAL):
            g = self.F.fn_opt(n)
            if g is not None:
                return self.summary(g)
        return (0, 0)

    def summary(self, fn):
        if fn.q in self.summ:
            return self.summ[fn.q]
        if fn.q in self._stack:
            return (0, 0)      # recursion among evaluator methods does not exist (C01.R1); be neutral
        self._stack.append(fn.q)
        res = self.analyse(fn)
        self._stack.pop()
        self.summ[fn.q] = res
        return res

    def analyse(self, fn, cut_heads=()):
        body = fn.body
        nb = len(body.blocks)
        err = error_blocks(body)
        succ = [[] for _ in range(nb)]
        wmin = [0] * nb
        wmax = [0] * nb
        sites = []
        for i, b in enumerate(body.blocks):
            if b["cleanup"]:
                continue
            t = b["t"]
            if t["k"] == "call":
                lo, hi = self.effect_of_call(t)
                wmin[i], wmax[i] = lo, hi
                if (lo, hi) != (0, 0):
                    sites.append((i, callee_name(t), lo, hi, body.span(t["sp"])))
            for s in body.succs(i):
                if s in cut_heads:
                    continue
                succ[i].append(s)
        self.detail[fn.q] = sites
        probs = []
        reach = cfg.reachable(succ, [0])
        live = [i for i in reach if i not in err]
        liveset = set(live)
        # distances: effect accumulated *after* executing block i's terminator
        # (b) positive cycles within SCCs of the live graph
        comps = cfg.sccs(sorted(liveset), lambda n: [m for m in succ[n] if m in liveset])
        for comp in comps:
            cs = set(comp)
            if len(comp) == 1 and comp[0] not in succ[comp[0]]:
                continue
            if all(wmax[i] == 0 for i in comp):
                continue
            # longest simple-cycle weight > 0 ?  Bellman-Ford on the SCC with weights wmax
            pos = self._positive_cycle(comp, cs, succ, wmax)
            if pos:
                pushes = [(i, callee_name(body.blocks[i]["t"]), body.span(body.blocks[i]["t"]["sp"]))
                          for i in comp if wmax[i] > 0]
                probs.append({"kind": "positive-cycle", "blocks": sorted(comp)[:12], "pushes": pushes})
            neg = self._positive_cycle(comp, cs, succ, [-x for x in wmin])
            if neg:
                probs.append({"kind": "negative-cycle", "blocks": sorted(comp)[:12]})
        # (a) min prefix from entry >= 0 and summary over non-error returns
        # longest / shortest path distances with bounded relaxation (cycles are net-zero or flagged)
        dmin = {0: 0}
        dmax = {0: 0}
        for _ in range(len(live) + 2):
            changed = False
            for i in live:
                if i not in dmin:
                    continue
                a = dmin[i] + wmin[i]
                b = dmax[i] + wmax[i]
                for s in succ[i]:
                    if s not in liveset:
                        continue
                    if s not in dmin or a < dmin[s]:
                        if s not in dmin or dmin[s] > -INF:
                            dmin[s] = max(a, -INF)
                            changed = True
                    if s not in dmax or b > dmax[s]:
                        if s not in dmax or dmax[s] < INF:
                            dmax[s] = min(b, INF)
                            changed = True
            if not changed:
                break
        under = [(i, dmin[i] + wmin[i]) for i in live if i in dmin and dmin[i] + wmin[i] < 0 and wmin[i] < 0]
        if under and not any(p["kind"] == "negative-cycle" for p in probs):
            i, v = min(under, key=lambda x: x[1])
            probs.append({"kind": "underflow", "block": i, "callee": callee_name(body.blocks[i]["t"]),
                          "site": body.span(body.blocks[i]["t"]["sp"]), "height": v})
        rets = [i for i in live if body.blocks[i]["t"]["k"] == "return" and i in dmin]
        if rets:
            lo = min(dmin[i] for i in rets)
            hi = max(dmax[i] for i in rets)
        else:
            lo, hi = 0, 0
        if any(p["kind"] == "positive-cycle" for p in probs):
            hi = max(hi, 1)
        self.problems[fn.q] = probs
        return (max(lo, -3), min(hi, 3))

    @staticmethod
    def _positive_cycle(comp, cs, succ, w):
        """Is there a cycle inside `comp` whose total weight (sum of w over its blocks) is > 0?"""
        # longest-path Bellman-Ford from every node would be O(n^2 m); components are small.
        nodes = list(comp)
        for src in nodes:
            if w[src] <= 0:
                continue
            dist = {src: w[src]}
            for _ in range(len(nodes)):
                upd = False
                for a in list(dist):
                    for b in succ[a]:
                        if b not in cs:
                            continue
                        if b == src:
                            if dist[a] > 0:
                                return True
                            continue
                        nd = dist[a] + w[b]
                        if b not in dist or nd > dist[b]:
                            dist[b] = nd
                            upd = True
                if not upd:
                    break
        return False
