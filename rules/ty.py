"""TY — ownership graph over ADT field types (who owns whom by value / through owning containers).

Types are resolved into hashable terms with generic parameters substituted:
    ('adt', def_q, (arg terms...)) | ('tuple', (terms...)) | ('slice', term) | ('ref', term) |
    ('ptr', term) | ('prim', name) | ('param', name) | ('closure', def_q, (upvar terms)) | ('other', s)
"""
from . import cfg

NON_OWNING = {"alloc::rc::Weak", "alloc::sync::Weak", "core::marker::PhantomData", "core::ptr::non_null::NonNull"}


def resolve(crate, t, env=None):
    env = env or {}
    if isinstance(t, int):
        t = crate.types[t]
    k = t["k"]
    if k == "param":
        return env.get(t["n"], ("param", t["n"]))
    if k == "prim":
        return ("prim", t["s"])
    if k == "adt":
        return ("adt", t["d"], tuple(resolve(crate, i, env) for i in t["a"] if isinstance(i, int)))
    if k == "ref":
        return ("ref", resolve(crate, t["t"], env))
    if k == "ptr":
        return ("ptr", resolve(crate, t["t"], env))
    if k in ("slice", "array"):
        return ("slice", resolve(crate, t["t"], env))
    if k == "tuple":
        return ("tuple", tuple(resolve(crate, i, env) for i in t["ts"]))
    if k == "closure":
        return ("closure", t["d"], tuple(resolve(crate, i, env) for i in t.get("up", [])))
    return ("other", t["s"])


def show(term):
    k = term[0]
    if k == "adt":
        return term[1].rsplit("::", 1)[1] + ("<%s>" % ", ".join(show(a) for a in term[2]) if term[2] else "")
    if k == "tuple":
        return "(%s)" % ", ".join(show(a) for a in term[1])
    if k == "slice":
        return "[%s]" % show(term[1])
    if k in ("ref", "ptr"):
        return "&" + show(term[1])
    if k == "closure":
        return "closure"
    return str(term[1])


def owned(F, term):
    """Terms owned by a value of `term`: list of (label, term)."""
    k = term[0]
    if k in ("prim", "ref", "ptr", "param", "other"):
        return []
    if k == "slice":
        return [("[]", term[1])]
    if k == "tuple":
        return [(".%d" % i, a) for i, a in enumerate(term[1])]
    if k == "closure":
        return [("upvar%d" % i, a) for i, a in enumerate(term[2])]
    if k == "adt":
        d = term[1]
        if d in NON_OWNING:
            return []
        a = F.adts.get(d)
        if a is None or not a.get("local"):
            return [("<%d>" % i, x) for i, x in enumerate(term[2])]
        c = a["_crate"]
        penv = dict(zip(a["tparams"], term[2]))
        out = []
        for v in a["variants"]:
            for f in v["fields"]:
                out.append(("%s.%s" % (v["n"], f["n"]), resolve(c, f["t"], penv)))
        return out
    return []


def find_owned(F, root, want, max_nodes=50000):
    """Path (list of labels/terms) from root to an owned term satisfying want(term), or None."""
    seen = {root}
    stack = [(root, (show(root),))]
    while stack:
        t, path = stack.pop()
        for label, ch in owned(F, t):
            if ch in seen:
                continue
            seen.add(ch)
            if len(seen) > max_nodes:
                return ("limit",)
            p2 = path + (label, show(ch))
            if want(ch):
                return p2
            stack.append((ch, p2))
    return None


def owns_edges(F):
    """A -> B between local ADT definitions: a value of A (identity generics) owns a value of B."""
    edges = {}
    for q, a in F.adts.items():
        if not a.get("local"):
            continue
        root = ("adt", q, tuple(("param", n) for n in a["tparams"]))
        targets = set()
        seen = {root}
        stack = [root]
        while stack:
            t = stack.pop()
            for label, ch in owned(F, t):
                if ch in seen:
                    continue
                seen.add(ch)
                if ch[0] == "adt" and F.adts.get(ch[1], {}).get("local"):
                    targets.add(ch[1])
                    if not ch[2]:
                        continue   # non-generic local ADT: continue from its own node
                stack.append(ch)
        edges[q] = sorted(targets)
    return edges


def recursive_drop_sccs(F):
    e = owns_edges(F)
    comps = cfg.sccs(sorted(e), e)
    return [sorted(c) for c in comps if len(c) > 1 or c[0] in e.get(c[0], ())]


def contains(F, root, pred):
    return find_owned(F, root, pred)


def adt_term(F, q):
    a = F.adt(q)
    return ("adt", q, tuple(("param", n) for n in a["tparams"]))
