"""C05 — every emitted document is well-formed and decodes to the value it came from.

Decided clauses (structural necessary conditions; round-trip equality itself is NOT decided):
  R1  the JSON/Python/TOML string escaper's per-code-point decision table is RFC 8259 §7 conformant
  R2  string data of the manifested value reaches the output only through an escaper
  R3  field order = in-order iteration of a map sorted by the field names' string order
  R4  no hash-order / pointer-order dependent iteration feeds an order-sensitive sink
  R5  bare-key alphabets of TOML / YAML plain keys
"""
from . import chartab, kwalk, cfg
from .facts import callee_name, AnchorMissing, pk

EXPLANATION = (
    "Static analysis of type-checked MIR (no execution). R1: finite-domain abstract interpretation of "
    "the string escaper over all interval classes of `char` induced by the constants it compares "
    "against, per class the set of emitted forms on every path, compared with the RFC 8259 §7 table. "
    "R2: taint from string payloads / field names to output sinks must pass an escaper. R3/R4: "
    "provenance of ObjectData.fields_order and commutativity of every HashMap iteration. R5: "
    "bare-key alphabets as decision tables over u8/char."
)

M = "rsjsonnet_lang::program::eval::manifest::"
ESC_JSON = M + "escape_string_json"
ESC_PY = M + "escape_string_python"
ESC_TOML = M + "escape_string_toml"

SHORT = {8: "\\b", 9: "\\t", 10: "\\n", 12: "\\f", 13: "\\r", 34: '\\"', 92: "\\\\"}


def escaper_table(F, rep, fn, seen=None):
    """Returns list of ((lo,hi), set(emission-tuples)) for an escaper `fn(s: &str, result: &mut String)`.
    An emission tuple is the ordered sequence of emissions on one path for one character."""
    seen = seen or set()
    if fn.q in seen:
        raise kwalk.WalkLimit("escaper delegation cycle at %s" % fn.q)
    seen.add(fn.q)
    body = fn.body
    rep.fn(fn)
    keys = chartab.find_iter_key(body, ("char",))
    if not keys:
        # delegation: exactly one call to another local escaper with (arg1, arg2) passed through, and
        # no other call that writes to the output
        delegates = []
        others = []
        for bb, t in body.calls():
            n = callee_name(t) or ""
            g = F.fn_opt(n)
            if g is not None and len(t["xs"]) == 2:
                delegates.append((bb, t, g))
            else:
                others.append(n)
        if len(delegates) == 1 and not [o for o in others if "String" in o or "fmt" in o]:
            return escaper_table(F, rep, delegates[0][2], seen), ("delegates-to", delegates[0][2].q)
        raise kwalk.WalkLimit("escaper %s has no recognisable per-char loop or delegation" % fn.q)
    if len(keys) != 1:
        raise kwalk.WalkLimit("escaper %s has %d char loops" % (fn.q, len(keys)))
    head, sbb, sst, key, ty_s = keys[0]

    def on_term(w, bb, t, env):
        if t["k"] != "call":
            return None
        n = callee_name(t) or ""
        kv = env.get(str(key))
        if n == "<alloc::string::String>::push":
            x = t["xs"][1]
            v = w.val(env, x)
            if x["k"] != "const" and v == kv:
                return ("raw",)
            if isinstance(v, int):
                return ("pushc", v)
            return ("push?",)
        if n == "<alloc::string::String>::push_str":
            v = w.val(env, t["xs"][1])
            if isinstance(v, tuple) and v[0] == "str":
                return ("push_str", v[1])
            return ("push_str?",)
        if n.startswith("<core::fmt::rt::Argument>::new_"):
            v = w.val(env, t["xs"][0])
            inner = env.get(v[1]) if isinstance(v, tuple) and v[0] == "ref" else None
            return ("fmtarg", n.rsplit("::", 1)[1], inner == kv)
        if n == "<core::fmt::Arguments>::new":
            x = t["xs"][0]
            v = w.val(env, x)
            tmpl = None
            # template: reference to a byte-string constant
            if isinstance(v, tuple) and v[0] == "ref":
                v = env.get(v[1])
            if isinstance(v, tuple) and v[0] == "const":
                tmpl = chartab.parse_bytes_literal(v[1])
            dec = chartab.decode_fmt_template(tmpl) if tmpl is not None else None
            return ("fmt", repr(dec))
        if n in ("core::fmt::Write::write_fmt", "<core::result::Result>::unwrap",
                 "<core::result::Result>::expect"):
            return None
        if "String" in n or "fmt" in n:
            return ("other-write", n)
        return None

    rows, states = chartab.table_over_scalar(F, body, key, ty_s, sbb, sst, stop_bbs=[head],
                                             on_term=on_term, ordered=True)
    rep.states += states
    return rows, ("loop", fn.q)


HEX4 = repr([("lit", "\\u"), ("arg", {"flags": None, "width": 4, "precision": None, "arg": None,
                                     "width_indirect": False, "precision_indirect": False})])


def classify_emission(marks):
    """Reduce an ordered mark tuple to one of: ('raw',), ('lit', s), ('hex4',), ('bad', why)."""
    ms = list(marks)
    if len(ms) == 1 and ms[0] == ("raw",):
        return ("raw",)
    if len(ms) == 1 and ms[0][0] == "push_str":
        return ("lit", ms[0][1])
    if len(ms) == 1 and ms[0][0] == "pushc":
        return ("lit", chr(ms[0][1]))
    if len(ms) == 2 and ms[0][0] == "fmtarg" and ms[1][0] == "fmt":
        _, kind, is_key = ms[0]
        if kind != "new_lower_hex" and kind != "new_upper_hex":
            return ("bad", "format trait %s is not hexadecimal" % kind)
        if not is_key:
            return ("bad", "formatted value is not the character's code point")
        # decode template: literal "\u" followed by zero-padded width-4 placeholder
        try:
            dec = eval(ms[1][1], {"__builtins__": {}})  # repr of our own decoded structure
        except Exception:
            dec = None
        if not dec or len(dec) != 2 or dec[0] != ("lit", "\\u") or dec[1][0] != "arg":
            return ("bad", "format template is not `\\u` + one placeholder: %s" % ms[1][1])
        d = dec[1][1]
        if d["width"] != 4 or d["width_indirect"] or d["precision"] is not None or \
                not d["flags"] or not (d["flags"] & chartab.FLAG_ZERO_PAD) or \
                (d["flags"] & chartab.FLAG_ALTERNATE):
            return ("bad", "placeholder is not zero-padded width 4: %s" % d)
        return ("hex4",)
    if not ms:
        return ("bad", "character dropped (no emission)")
    return ("bad", "unrecognised emission sequence %s" % (ms,))


def allowed_json(cp, em, toml=False):
    kind = em[0]
    if kind == "bad":
        return em[1]
    if kind == "hex4":
        if cp > 0xFFFF:
            return "\\uXXXX escape used for a code point above U+FFFF"
        return None
    if kind == "lit":
        s = em[1]
        if cp in SHORT and s == SHORT[cp]:
            return None
        if cp == 0x2F and s == "\\/":
            return None
        return "emits literal %r for U+%04X" % (s, cp)
    if kind == "raw":
        if cp < 0x20:
            return "control character U+%04X is emitted raw (RFC 8259 §7 requires escaping U+0000..U+001F)" % cp
        if cp in (0x22, 0x5C):
            return "U+%04X (%s) is emitted raw" % (cp, chr(cp))
        if toml and cp == 0x7F:
            return "U+007F is emitted raw (TOML basic strings must escape it)"
        return None
    return "unknown emission"


def rule_r1(F, rep):
    R = rep.rule("C05.R1", "the string escaper emits, for every code point, a form RFC 8259 §7 allows "
                 "(no raw U+0000..U+001F, quote or backslash; short escapes map to their own character; "
                 "\\uXXXX only for BMP code points); Python and TOML escapers inherit it")
    n_rows = 0
    for q, toml in ((ESC_JSON, False), (ESC_PY, False), (ESC_TOML, True)):
        fn = F.fn(q)
        res = escaper_table(F, rep, fn)
        rows, how = res
        # unwrap delegation chains
        while isinstance(rows, tuple):
            rows, _ = rows
        bad_ranges = {}
        for (a, b), outs in rows:
            n_rows += 1
            problems = set()
            for kind, marks, _ in outs:
                if kind != "stop":
                    problems.add("path leaves the loop body without returning to the loop head (%s)" % kind)
                    continue
                em = classify_emission(marks)
                # check both ends of the class (uniform by construction, cheap double check)
                for cp in (a, b):
                    why = allowed_json(cp, em, toml)
                    if why:
                        problems.add(why if "U+" not in why or a == b else why)
            ok = not problems
            rep.ob(R, "%s|U+%04X..U+%04X" % (fn.q, a, b), ok,
                   {"escaper": fn.q, "class": "U+%04X..U+%04X" % (a, b),
                    "emissions": sorted(str(classify_emission(m)) for k, m, _ in outs)} if a in (0, 0x22, 0x7F, 0x80) else None)
            if not ok:
                bad_ranges[(a, b)] = sorted(problems)
        # merge adjacent bad classes into one keyed violation per escaper
        if bad_ranges:
            # key by the escaper that owns the loop (delegating wrappers share the finding)
            owner = how[1] if how[0] == "loop" else how[1]
            ranges = sorted(bad_ranges)
            merged = []
            for a, b in ranges:
                if merged and merged[-1][1] + 1 == a:
                    merged[-1][1] = b
                else:
                    merged.append([a, b])
            desc = ", ".join("U+%04X..U+%04X" % (a, b) for a, b in merged)
            first = bad_ranges[ranges[0]][0]
            rep.violation(R, "%s|raw-set|%s" % (ESC_JSON if owner != fn.q else fn.q, desc),
                          "escaper %s: %s; offending classes: %s" % (fn.q, first, desc), fn.loc,
                          {"classes": {("U+%04X..U+%04X" % k): v for k, v in bad_ranges.items()}})
    rep.floor(R, n_rows, 20, "code-point classes")
    rep.trust("RFC 8259 §7 string grammar; TOML 1.0 basic-string grammar (U+007F must be escaped)")
    rep.trust("core::fmt::Arguments template encoding as documented in library/core/src/fmt/mod.rs of the pinned nightly")


# --------------------------------------------------------------------------------------------------
# R5: bare-key alphabets

TOML_BARE = set(range(0x30, 0x3A)) | set(range(0x41, 0x5B)) | set(range(0x61, 0x7B)) | {0x5F, 0x2D}
YAML_SAFE = set(range(0x30, 0x3A)) | set(range(0x41, 0x5B)) | set(range(0x61, 0x7B)) | {0x2F, 0x5F, 0x2D, 0x2E}


def closure_bool_table(F, rep, clo, ty_s):
    """Decision table of a closure `|x: ty| -> bool` (argument may be by value or by reference)."""
    body = clo.body
    rep.fn(clo)
    # closure args: _1 = closure env, _2 = the argument
    arg = 2
    aty = body.local_ty(arg)
    env_extra = {}
    if aty["k"] == "ref":
        keyname = "arg"
        env_extra[str(arg)] = ("ref", "arg")
    else:
        keyname = str(arg)
    rows = []
    for a, b in chartab.representatives(body, ty_s):
        w = kwalk.Walker(F, body, want_ret=True)
        e = {keyname: a}
        e.update(env_extra)
        outs = w.run(0, e)
        rep.states += w.states_explored
        vals = set()
        for o in outs:
            if o[0] == "return":
                vals.add(chartab.ret_bool(o))
            else:
                vals.add("diverge")
        rows.append(((a, b), vals))
    return rows


def accepted_set(rows, want):
    """code points for which the closure may return `want` (1/0)"""
    acc = set()
    unknown = []
    for (a, b), vals in rows:
        if None in vals or "diverge" in vals:
            unknown.append((a, b))
        if want in vals or None in vals:
            acc.add((a, b))
    return acc, unknown


def expand(ranges, limit=0x110000):
    s = set()
    for a, b in ranges:
        if b - a > 4096:
            return None
        s.update(range(a, b + 1))
    return s


def rule_r1b(F, rep):
    """bulk copies: an escaper that copies its whole input in one go must have established that no character needs escaping"""
    from . import prov, strpred
    from .dfa import DFA
    R = rep.rule("C05.R1b", "an escaper never copies its input wholesale unless the test that guards the copy rules out every "
                 "character the per-character table escapes: the language of inputs reaching a `push_str(input)` (built from the "
                 "guard's byte/char class tests) contains only characters the loop would have emitted raw")
    n = 0
    for q in (ESC_JSON, ESC_PY, ESC_TOML):
        fn = F.fn(q)
        body = fn.body
        P = prov.Prov(F, body)
        sinks = {}
        for bb, t in body.calls():
            nm = callee_name(t) or ""
            if nm in ("<alloc::string::String>::push_str", "<alloc::string::String>::insert_str",
                      "<alloc::string::String as core::iter::traits::collect::Extend>::extend") or nm.endswith("Extend>::extend"):
                o = P.origins_op(t["xs"][-1])
                if any(x and x[0] == "arg" and x[1] == 1 for x in o):
                    sinks[bb] = nm
        n += 1
        if not sinks:
            rep.ob(R, "%s|no-bulk-copy" % fn.q, True)
            continue
        rep.fn(fn)
        res = escaper_table(F, rep, fn)
        rows, how = res
        while isinstance(rows, tuple):
            rows, _ = rows
        raw_ok = []
        cuts = set()
        for (a, b), outs in rows:
            cuts.add(a)
            cuts.add(b + 1)
            ems = {classify_emission(m) for k, m, _ in outs if k == "stop"}
            if ems == {("raw",)}:
                raw_ok.append((a, b))
        ex = strpred.Extract(F, rep, fn, lambda clo: closure_bool_table(F, rep, clo, "char"), extra_cuts=cuts,
                             byte_table=lambda clo: closure_bool_table(F, rep, clo, "u8"))
        reached = ex.run(sinks=set(sinks))
        al = ex.al
        okset = al.syms_of(lambda cp: any(a <= cp <= b for a, b in raw_ok))
        for bb, nm in sorted(sinks.items()):
            if bb not in reached:
                rep.ob(R, "%s|bulk@bb%d" % (fn.q, bb), False)
                rep.violation(R, "%s|bulk-copy|undecided" % fn.q, "%s copies its input with %s at a point whose guard could not be "
                              "turned into a character condition (after a loop, or behind an unmodelled test)" % (fn.q, nm), fn.loc)
                continue
            bad = reached[bb] & DFA.every_char_in(al, okset).complement()
            w = bad.shortest()
            rep.ob(R, "%s|bulk@bb%d" % (fn.q, bb), w is None, {"escaper": fn.q, "guard_atoms": ex.atoms})
            if w is not None:
                rep.violation(R, "%s|bulk-copy|unescaped" % fn.q,
                              "%s copies its whole input with %s for inputs such as %r, which contain a character the "
                              "per-character table escapes: the fast path and the loop disagree (guard: %s)"
                              % (fn.q, nm, bad.show(w), ex.atoms), fn.loc, {"witness": bad.show(w)})
    rep.floor(R, n, 3, "escapers")


def rule_r5(F, rep):
    R = rep.rule("C05.R5", "bare (unquoted) keys are only emitted for names inside the target grammar's "
                 "bare-key alphabet: TOML [A-Za-z0-9_-] and non-empty; YAML plain keys within [0-9A-Za-z/_.-]")
    # TOML
    fn = F.fn(M + "is_safe_toml_plain")
    rep.fn(fn)
    clos = F.closures_of(fn)
    if len(clos) != 1:
        raise kwalk.WalkLimit("is_safe_toml_plain: expected one closure, found %d" % len(clos))
    rows = closure_bool_table(F, rep, clos[0], "u8")
    acc, unknown = accepted_set(rows, 1)
    accs = expand(acc)
    for (a, b), vals in rows:
        ok = all((cp in TOML_BARE) == (vals == {1}) for cp in (a, b)) and vals in ({0}, {1})
        rep.ob(R, "toml|%02X..%02X" % (a, b), ok, {"class": "%02X..%02X" % (a, b), "accepts": sorted(map(str, vals))} if a in (0x2D, 0x30) else None)
    if accs is None or accs != TOML_BARE or unknown:
        extra = sorted((accs or set()) - TOML_BARE)
        missing = sorted(TOML_BARE - (accs or set()))
        rep.violation(R, "%s|alphabet" % fn.q,
                      "TOML bare-key predicate accepts %s and rejects %s relative to A-Za-z0-9_- (unknown classes: %s)"
                      % ([hex(x) for x in extra[:8]], [hex(x) for x in missing[:8]], unknown[:4]), fn.loc)
    # the predicate is applied with `all` and combined with a non-empty test
    names = [callee_name(t) or "" for _, t in fn.body.calls()]
    has_all = any(n.endswith("::all") and "Iterator" in n for n in names)
    has_empty = any(n == "<str>::is_empty" for n in names)
    rep.ob(R, "toml|all+nonempty", has_all and has_empty)
    if not (has_all and has_empty):
        rep.violation(R, "%s|combinator" % fn.q, "is_safe_toml_plain no longer tests every byte with `all` "
                      "and rejects the empty key", fn.loc)
    else:
        # empty key must return false: walk with is_empty() == true
        w = kwalk.Walker(F, fn.body, want_ret=True, pure_calls={"<str>::is_empty": lambda w, e, a: 1})
        outs = w.run(0, {})
        rep.states += w.states_explored
        vals = {chartab.ret_bool(o) for o in outs}
        ok = vals == {0}
        rep.ob(R, "toml|empty-rejected", ok)
        if not ok:
            rep.violation(R, "%s|empty" % fn.q, "the empty string is accepted as a TOML bare key", fn.loc)
    # escape_key_toml: raw copy only on the true edge of is_safe_toml_plain
    ek = F.fn(M + "escape_key_toml")
    rep.fn(ek)
    w = kwalk.Walker(F, ek.body, pure_calls={M + "is_safe_toml_plain": lambda w, e, a: 0},
                     on_term=lambda w, bb, t, env: ("call", callee_name(t)) if t["k"] == "call" else None)
    outs = w.run(0, {})
    rep.states += w.states_explored
    for kind, marks, _ in outs:
        called = {m[1] for m in marks}
        ok = (ESC_TOML in called) and not any(c and ("Into" in c or "From" in c or "to_owned" in c or "ToString" in c) for c in called)
        rep.ob(R, "toml|unsafe-key-escaped", ok)
        if not ok:
            rep.violation(R, "%s|unsafe-raw" % ek.q, "a key rejected by is_safe_toml_plain is not passed through "
                          "escape_string_toml (calls on that path: %s)" % sorted(c for c in called if c), ek.loc)
    # YAML
    fy = F.fn(M + "is_safe_yaml_plain")
    rep.fn(fy)
    body = fy.body
    found = False
    detail = []
    for bb, t in body.calls():
        n = callee_name(t) or ""
        if not (n.endswith("::any") and "Iterator" in n):
            continue
        # closure argument
        clo_q = None
        for x in t["xs"]:
            ty = body.ty(x["t"]) if "t" in x else None
            if ty and ty["k"] == "closure":
                clo_q = ty["d"]
        if not clo_q:
            continue
        clo = F.fn_opt(clo_q)
        if clo is None or clo.body.local_ty(2)["s"] not in ("char",):
            continue
        rows = closure_bool_table(F, rep, clo, "char")
        # closure returns true for "unsafe": must return {1} for everything outside YAML_SAFE
        bad = [(a, b) for (a, b), vals in rows
               if vals != {1} and not (expand([(a, b)]) or set([None])) <= YAML_SAFE]
        detail.append((clo_q, bad[:4]))
        if bad:
            continue
        # its true edge must reach only `return false`; and `return true` must be unreachable
        # without passing the false edge of this call's result
        w = kwalk.Walker(F, body, want_ret=True, pure_calls={n: lambda w, e, a: 1})
        outs = w.run(bb, {})
        rep.states += w.states_explored
        vals = {chartab.ret_bool(o) for o in outs}
        # must-pass: remove this block and see whether a `return true` is still reachable from entry
        w2 = kwalk.Walker(F, body, want_ret=True,
                          on_term=lambda w, b2, t2, env, _bb=bb: kwalk.STOP if b2 == _bb else None)
        outs2 = w2.run(0, {})
        rep.states += w2.states_explored
        bypass = {chartab.ret_bool(o) for o in outs2 if o[0] == "return"}
        if vals == {0} and 1 not in bypass and None not in bypass:
            found = True
            for (a, b), v in rows:
                rep.ob(R, "yaml|%04X..%04X" % (a, b), True)
            break
    rep.ob(R, "yaml|unsafe-char-gate", found)
    if not found:
        rep.violation(R, "%s|alphabet" % fy.q,
                      "no `chars().any(..)` gate in is_safe_yaml_plain rejects every character outside "
                      "[0-9A-Za-z/_.-] before `true` can be returned (candidates: %s)" % detail, fy.loc)
    rep.trust("TOML 1.0 bare-key grammar; YAML 1.2 plain-scalar indicator characters (subset check only)")


# --------------------------------------------------------------------------------------------------
# R7: a plain (unquoted) YAML key is read back as a string

# YAML 1.2.2 section 10.3.2 (core schema) tag resolution: plain scalars matching these are NOT strings
YAML_CORE_NONSTR = [
    ("null", "null|Null|NULL|~|"),
    ("bool", "true|True|TRUE|false|False|FALSE"),
    ("int-decimal", "[-+]?[0-9]+"),
    ("int-octal", "0o[0-7]+"),
    ("int-hex", "0x[0-9a-fA-F]+"),
    ("float-with-dot", "[-+]?(\\.[0-9]+|[0-9]+\\.[0-9]*)([eE][-+]?[0-9]+)?"),
    ("float-exponent-without-dot", "[-+]?[0-9]+[eE][-+]?[0-9]+"),
    ("float-inf", "[-+]?\\.(inf|Inf|INF)"),
    ("float-nan", "\\.(nan|NaN|NAN)"),
]


def rule_r7(F, rep):
    from . import strpred
    from .dfa import regex, DFA
    R = rep.rule("C05.R7", "no string that is_safe_yaml_plain accepts is resolved by the YAML 1.2 core schema to anything but a "
                 "string: the language of the predicate (built from its MIR: every `chars().all/any/filter().count()`, "
                 "`starts_with`, `==` and literal-list test is a regular condition) has an empty intersection with each "
                 "non-string pattern of YAML 1.2.2 section 10.3.2, contains no empty key and no character outside [0-9A-Za-z/_.-]")
    fn = F.fn(M + "is_safe_yaml_plain")
    rep.fn(fn)
    ex = strpred.Extract(F, rep, fn, lambda clo: closure_bool_table(F, rep, clo, "char"),
                         byte_table=lambda clo: closure_bool_table(F, rep, clo, "u8"))
    acc = ex.run()
    al = ex.al
    rep.states += acc.n
    for name, rx in YAML_CORE_NONSTR:
        inter = acc & regex(al, rx)
        w = inter.shortest()
        ok = w is None
        rep.ob(R, "yaml-plain|%s" % name, ok, {"pattern": rx, "atoms": ex.atoms} if name == "float-with-dot" else None)
        if not ok:
            rep.violation(R, "%s|plain-resolves-as|%s" % (fn.q, name),
                          "is_safe_yaml_plain accepts %r, which a YAML 1.2 loader resolves as %s, not as a string: an object "
                          "with that field name is written with a bare key and does not decode to the value it came from"
                          % (inter.show(w), name), fn.loc, {"witness": inter.show(w), "pattern": rx})
    safe = al.syms_of(lambda cp: cp in YAML_SAFE)
    outside = acc & DFA.every_char_in(al, safe).complement()
    w = outside.shortest()
    rep.ob(R, "yaml-plain|alphabet", w is None)
    if w is not None:
        rep.violation(R, "%s|plain-alphabet" % fn.q, "is_safe_yaml_plain accepts %r, which contains a character outside "
                      "[0-9A-Za-z/_.-]" % outside.show(w), fn.loc)
    emp = acc & DFA.literal(al, "")
    rep.ob(R, "yaml-plain|non-empty", emp.is_empty())
    if not emp.is_empty():
        rep.violation(R, "%s|plain-empty" % fn.q, "is_safe_yaml_plain accepts the empty key", fn.loc)
    # document markers / block-sequence indicator at the start of a line
    for lit in ("-", "---"):
        x = acc & DFA.literal(al, lit)
        rep.ob(R, "yaml-plain|indicator|%s" % lit, x.is_empty())
        if not x.is_empty():
            rep.violation(R, "%s|plain-indicator|%s" % (fn.q, lit), "is_safe_yaml_plain accepts %r (a YAML indicator at the "
                          "start of a line)" % lit, fn.loc)
    rep.floor(R, len(ex.atoms), 15, "string atoms of is_safe_yaml_plain")
    rep.trust("YAML 1.2.2 section 10.3.2 core-schema tag resolution patterns (transcribed)")


# --------------------------------------------------------------------------------------------------
# R8: names reach the document only through an escaper

NAME_SOURCES = ("InternedStr>::value", "<rsjsonnet_lang::interner::InternedStr>::value", "SortedInternedStr>::value")
TEXT_SINKS = ("<alloc::string::String>::push_str", "core::convert::Into>::into", "core::convert::From>::from",
              "alloc::borrow::ToOwned>::to_owned", "alloc::string::ToString>::to_string", "<str>::to_owned", "<str>::to_string",
              "alloc::string::String>::from", "<alloc::string::String>::insert_str")
SAFE_PREDICATES = (M + "is_safe_yaml_plain", M + "is_safe_toml_plain")


def rule_r8(F, rep):
    from . import prov, cfg
    R = rep.rule("C05.R8", "in the manifesters a field name (InternedStr::value) is copied into the document only as the result of "
                 "an escaper (escape_string_json / escape_key_toml / ...) or on the true edge of the format's bare-key predicate; "
                 "every other piece of text appended is a constant, a caller-supplied separator or an escaper result")
    n_sinks = 0
    n_names = 0
    for fn in F.fn_list:
        if fn.body is None or not fn.loc or not fn.loc.startswith("rsjsonnet-lang/src/program/eval/manifest.rs"):
            continue
        body = fn.body
        P = None
        safe_true = []      # true-edge targets of is_safe_* tests
        for bb, t in body.calls():
            if (callee_name(t) or "") in SAFE_PREDICATES and t.get("t") is not None:
                d = t["dst"]["l"]
                sw = body.term(t["t"])
                if sw["k"] == "switch" and sw["x"].get("l") == d:
                    arms = dict(sw["arms"])
                    tt = sw["else"] if 0 in arms else None
                    if tt is not None:
                        safe_true.append(tt)
        for bb, t in body.calls():
            n = callee_name(t) or ""
            if not any(n.endswith(x) or n == x for x in TEXT_SINKS):
                continue
            if not t["xs"]:
                continue
            if P is None:
                P = prov.Prov(F, body)
                rep.fn(fn)
            n_sinks += 1
            o = P.origins_op(t["xs"][-1])
            names = [x for x in o if x and x[0] == "call" and any(str(x[1]).endswith(sfx) or str(x[1]) == sfx for sfx in NAME_SOURCES)]
            if not names:
                continue
            n_names += 1
            guarded = False
            for tt in safe_true:
                seen = cfg.reachable(body.succ_map(), [0], blocked_nodes=[tt])
                if bb not in seen:
                    guarded = True
            rep.ob(R, "%s|bb%d|%s" % (fn.q, bb, n.rsplit("::", 1)[-1]), guarded, {"fn": fn.q, "sink": n, "guarded_by_safe_predicate": guarded})
            if not guarded:
                rep.violation(R, "%s|raw-name|%s" % (fn.q, n.rsplit("::", 1)[-1]),
                              "%s copies a field name into the document with %s without an escaper and outside the true edge of "
                              "a bare-key predicate: a name containing quotes, dots, brackets or control characters breaks the "
                              "document (or changes its meaning)" % (fn.q, n), fn.loc)
    rep.floor(R, n_sinks, 60, "text sinks in the manifesters")
    rep.floor(R, n_names, 1, "guarded bare-name copies")


MANIFESTERS = ["do_manifest_json", "do_manifest_python", "do_manifest_yaml_doc", "do_manifest_toml_value"]
SIB_EXCEPT = {("do_manifest_toml_value", "Null"): "TOML has no null: manifesting null is an error by specification"}


def rule_r6(F, rep):
    from . import evalmarks as em
    R = rep.rule("C05.R6", "the manifesters agree with each other on what they do with each kind of value (sibling "
                 "cross-check of the JSON, Python, YAML and TOML manifesters): strings go through an escaper, arrays and objects "
                 "descend under ManifestArrayItem / ManifestObjectField trace items, object fields come from "
                 "get_visible_fields_order, object assertions are checked on every successful path, and a function is the "
                 "ManifestFunction error — a manifester that deviates emits something the others would not")
    OBJD = "rsjsonnet_lang::program::data::ObjectData"
    VALS = ["Null", "Bool", "Number", "String", "Array", "Object", "Function"]
    table = {}
    for sname in MANIFESTERS:
        fn = F.fn("<%s>::%s" % (em.EVAL, sname))
        rep.fn(fn)
        body = fn.body
        for v in VALS:
            def extra_term(w, bb, t, env):
                if t["k"] == "call":
                    n = callee_name(t) or ""
                    if n.startswith("<%s>::" % OBJD):
                        return ("obj", n.rsplit("::", 1)[1])
                    if "::escape_" in n:
                        return ("esc",)
                return None
            m = em.Marker(F, body, 1, True, extra_term=extra_term)

            def on_stmt(w, bb, idx, st, env, m=m):
                if st["k"] == "assign" and st["rv"]["k"] == "agg" and st["rv"]["ak"] == "adt" and st["rv"]["adt"].endswith("eval::TraceItem"):
                    return ("trace", st["rv"]["v"])
                return m.on_stmt(w, bb, idx, st, env)
            w = kwalk.Walker(F, body, on_term=m.on_term, on_stmt=on_stmt, call_result=em.injector(F, body, values=[v]),
                             want_ret=True, max_states=400000)
            outs = w.run(0, {})
            rep.states += w.states_explored
            okp = [o for o in outs if o[0] == "return" and not em.is_err_return(o)]
            errp = [o for o in outs if o[0] == "return" and em.is_err_return(o)]
            feats = set()
            for o in okp:
                for mk in o[1]:
                    if mk[0] in ("obj", "esc", "trace"):
                        feats.add(mk)
            if okp and all(("call", "check_object_asserts") in o[1] for o in okp):
                feats.add(("asserts-on-every-path",))
            elif any(("call", "check_object_asserts") in o[1] for o in okp):
                feats.add(("asserts-on-some-paths",))
            errs = {mk[1] for o in errp for mk in o[1] if mk[0] == "err"}
            table[(sname, v)] = (frozenset(feats), frozenset(errs), bool(okp))
    n = 0
    for v in VALS:
        votes = {}
        for sname in MANIFESTERS:
            if (sname, v) in SIB_EXCEPT:
                continue
            votes.setdefault(table[(sname, v)], []).append(sname)
        ref = max(votes.items(), key=lambda kv: len(kv[1]))[0]
        for sname in MANIFESTERS:
            n += 1
            if (sname, v) in SIB_EXCEPT:
                rep.ob(R, "%s|%s" % (sname, v), True, {"manifester": sname, "value": v, "exception": SIB_EXCEPT[(sname, v)]})
                continue
            got = table[(sname, v)]
            ok = got == ref
            rep.ob(R, "%s|%s" % (sname, v), ok, {"manifester": sname, "value": v, "does": sorted(map(str, got[0])), "errors": sorted(got[1])}
                   if v in ("Object", "String") else None)
            if not ok:
                rep.violation(R, "%s|%s|deviates" % (sname, v),
                              "%s handles a %s value differently from its siblings: it does %s (errors %s, succeeds: %s); the others "
                              "do %s (errors %s, succeed: %s)" % (sname, v, sorted(map(str, got[0])), sorted(got[1]), got[2],
                                                                  sorted(map(str, ref[0])), sorted(ref[1]), ref[2]),
                              F.fn("<%s>::%s" % (em.EVAL, sname)).loc)
    rep.floor(R, n, 28, "manifester x value-kind rows")


def run(F, rep, tier):
    rep.attempt(rule_r1, F, rep)
    rep.attempt(rule_r1b, F, rep)
    rep.attempt(rule_r5, F, rep)
    from . import c05_flow
    rep.attempt(c05_flow.run, F, rep)
    rep.attempt(rule_r6, F, rep)
    rep.attempt(rule_r7, F, rep)
    rep.attempt(rule_r8, F, rep)
    from . import c06
    rep.attempt(c06.rule_r3, F, rep)      # numbers reach the document only through Display of the f64 itself
    # the field list that every manifester prints comes from get_fields_order: its removal-marker arithmetic (C07.R8)
    from . import c07
    rep.attempt(c07.rule_r8, F, rep)
    rep.assume("round-trip equality of emitted documents is value-level and not decided; number text is "
               "delegated to <f64 as Display> (std, trusted)")
    return EXPLANATION
