"""Std look-alikes: library predicates and parsers whose language differs from every character class / token grammar the
properties' specifications define.  The hand-written scanners of rsjsonnet test characters against explicit ASCII sets; replacing
such a test by the convenient std function of a similar name changes the accepted language for some input (a Unicode digit, a
form feed, a leading `+`), compiles, and passes every test that only uses ASCII.  This is a who-may-call rule over resolved callees
(the type-checked program, not text): today's tree has no call of any listed function in the scope given, so the expected count is
zero and the rule carries positive anchors (calls of the exact ASCII counterparts must be seen) to prove the matcher is alive.
"""
from . import cg
from .facts import callee_name

LANG = "rsjsonnet_lang"
INT_TYS = ("usize", "u8", "u16", "u32", "u64", "u128", "isize", "i8", "i16", "i32", "i64", "i128")

# callee -> the difference that matters (every entry accepts or transforms something no grammar of the properties does)
DENY = {
    "<char>::is_numeric": "accepts every Unicode Nd/Nl/No character (e.g. U+0663, U+00B2); the grammars only know 0-9",
    "<char>::is_alphabetic": "accepts every Unicode letter; identifiers, bare keys and format letters are ASCII",
    "<char>::is_alphanumeric": "accepts every Unicode letter and number; identifiers and bare keys are [A-Za-z0-9_]",
    "<char>::is_whitespace": "accepts all Unicode White_Space (U+000B, U+000C, U+0085, U+00A0, U+2028 ...); Jsonnet, JSON and "
                             "std.trim know only space, tab, LF, CR",
    "<char>::is_ascii_whitespace": "also accepts form feed U+000C; Jsonnet and JSON (RFC 8259 §2) whitespace is space, tab, LF, CR",
    "<u8>::is_ascii_whitespace": "also accepts form feed 0x0C; Jsonnet and JSON (RFC 8259 §2) whitespace is space, tab, LF, CR",
    "<char>::is_lowercase": "Unicode Lowercase property, not a-z",
    "<char>::is_uppercase": "Unicode Uppercase property, not A-Z",
    "<char>::is_control": "also true for U+007F..U+009F; RFC 8259 §7 control characters are U+0000..U+001F",
    "<char>::to_lowercase": "Unicode case mapping (can yield several characters); std.asciiLower maps A-Z only",
    "<char>::to_uppercase": "Unicode case mapping (can yield several characters); std.asciiUpper maps a-z only",
    "<str>::to_lowercase": "Unicode case mapping; std.asciiLower maps A-Z only",
    "<str>::to_uppercase": "Unicode case mapping; std.asciiUpper maps a-z only",
    "<str>::trim": "strips all Unicode White_Space; std.trim / the grammars strip space, tab, LF, CR only",
    "<str>::trim_start": "strips all Unicode White_Space",
    "<str>::trim_end": "strips all Unicode White_Space",
    "<str>::trim_ascii": "also strips form feed",
    "<str>::trim_ascii_start": "also strips form feed",
    "<str>::trim_ascii_end": "also strips form feed",
    "<str>::split_whitespace": "splits at all Unicode White_Space",
    "<str>::split_ascii_whitespace": "also splits at form feed",
    "<str>::lines": "treats CR LF as one terminator and drops a trailing empty line; text blocks and YAML output keep lines verbatim",
    "<str>::from_utf8_unchecked": "unchecked",
}

# entry points of the text decoders (C14, C20): no sign-accepting integer parser may be reachable from them
DECODER_ROOTS = (
    "rsjsonnet_lang::program::eval::parse_json::parse_json",
    "rsjsonnet_lang::program::eval::parse_yaml::parse_yaml",
    "<rsjsonnet_lang::lexer::Lexer>::next_token",
    "<rsjsonnet_lang::program::eval::Evaluator>::do_std_parse_int",
    "<rsjsonnet_lang::program::eval::Evaluator>::do_std_parse_octal",
    "<rsjsonnet_lang::program::eval::Evaluator>::do_std_parse_hex",
    "rsjsonnet_lang::program::eval::parse_num_radix",
)
ANCHORS = ("<u8>::is_ascii_digit", "<char>::is_ascii_digit", "<str>::parse", "<str>::strip_prefix", "<str>::chars")


def _is_int_parse(fn, t):
    n = callee_name(t) or ""
    if n.endswith("::from_str_radix"):
        return "from_str_radix"
    if n == "<str>::parse" or n.endswith("core::str::traits::FromStr>::from_str"):
        f = t["f"]
        for gi in (f.get("rga") or f.get("ga") or []):
            try:
                s = fn.body.ty(gi)["s"]
            except Exception:
                continue
            if s in INT_TYS:
                return "parse::<%s>" % s
        dty = fn.body.ty(t["dst"]["t"])["s"]
        for it in INT_TYS:
            if dty.startswith("std::result::Result<%s," % it) or dty.startswith("core::result::Result<%s," % it):
                return "parse::<%s>" % it
    return None


def rule_lookalikes(F, rep, rid):
    R = rep.rule(rid, "no std look-alike stands in for a character class or token grammar of the specifications: the lexer, the "
                 "JSON/YAML/number parsers and the string builtins never call the Unicode-aware or lenient std functions "
                 "(char::is_numeric / is_alphanumeric / is_whitespace / is_ascii_whitespace, str::trim*, split_whitespace, lines, "
                 "to_lowercase ...), and no sign-accepting integer parser (from_str_radix, parse::<integer>) is reachable from a "
                 "text decoder — each accepts inputs the grammar rejects (or the reverse) while agreeing on all ASCII test inputs")
    scanned = 0
    seen_anchor = set()
    for fn in F.fn_list:
        if fn.crate.name != LANG or fn.mac:
            continue
        for bb, t in fn.body.calls():
            scanned += 1
            n = callee_name(t) or ""
            if n in ANCHORS:
                seen_anchor.add(n)
            why = DENY.get(n)
            if why is None:
                continue
            owner = fn.q
            rep.ob(R, "%s|%s" % (owner, n), False, {"function": owner, "callee": n, "difference": why})
            rep.violation(R, "%s|%s" % (owner, n), "%s calls %s: %s — the accepted language / result differs from the specification "
                          "for some non-ASCII or unusual input" % (owner.rsplit("::", 1)[-1], n, why), fn.body.span(t["sp"]))
    G = cg.get(F)
    roots = []
    missing = []
    for r in DECODER_ROOTS:
        insts = G.instances_of(r)
        if not insts:
            missing.append(r)
        roots.extend(insts)
    reach = G.reachable_from(roots)
    defs = {G.nodes[n]["def"] for n in reach if n in G.nodes}
    nreach = 0
    for fn in F.fn_list:
        if fn.crate.name != LANG or fn.q not in defs:
            continue
        nreach += 1
        rep.fn(fn)
        for bb, t in fn.body.calls():
            k = _is_int_parse(fn, t)
            if k is None:
                continue
            rep.ob(R, "%s|%s" % (fn.q, k), False, {"function": fn.q, "parser": k})
            rep.violation(R, "%s|int-parser|%s" % (fn.q, k), "%s (reachable from a text decoder) converts input text with %s, which "
                          "accepts a leading `+`%s: the token grammars (JSON \\\\uXXXX, Jsonnet/JSON/YAML digits, parseInt/Hex/Octal) "
                          "do not" % (fn.q.rsplit("::", 1)[-1], k, " or `-`" if k.endswith(("i8>", "i16>", "i32>", "i64>", "i128>", "isize>")) or k == "from_str_radix" else ""),
                          fn.body.span(t["sp"]))
    rep.ob(R, "scan|%d-call-sites" % (scanned // 1000 * 1000), True, {"call_sites_scanned": scanned, "functions_reachable_from_decoders": nreach,
                                                                   "deny_list": sorted(DENY), "positive_anchors_seen": sorted(seen_anchor)})
    rep.floor(R, scanned, 5000, "call sites scanned in rsjsonnet_lang")
    rep.floor(R, len(seen_anchor), 3, "exact ASCII counterparts seen (positive anchors of the matcher)")
    rep.floor(R, nreach, 20, "functions reachable from the text decoders")
    if len(missing) > 3:
        rep.violation(R, "anchor|decoder-roots", "text decoder entry points not found: %s" % missing)
