"""C08 — `==` is a structural equivalence and `<` a total order, mutually consistent.

Decided clauses (value-level reflexivity/symmetry/transitivity are NOT decided):
  R1  type-pair dispatch tables of EqualsValue / CompareValue (7x7) and std.primitiveEquals
  R2  operator lowering: per comparison operator the sequence of evaluator states pushed, and per
      CmpOrdTo* state the set of orderings mapped to true (<, <=, >, >=, three-way, ==, !=)
  R3  primitive comparisons delegate to f64 ==/partial_cmp and to str equality/Ord (code-point order)
  R4  array comparison/equality state machines: continuation and early-exit table
"""
from . import kwalk, evalmarks as em
from .facts import callee_name

EXPLANATION = (
    "Static analysis of MIR: the evaluator arms for EqualsValue, CompareValue, EqualsArray, CompareArray, "
    "CmpOrdTo*, BoolToValue, InvertBool and the Binary arm of do_expr are walked once per combination of "
    "operand variants / orderings / operator; on every CFG path the pushed states, pushed results and "
    "constructed error kinds are collected and compared with the specification tables in rules/c08.py."
)

VAL = ["Null", "Bool", "Number", "String", "Array", "Object", "Function"]
ORD = ["Less", "Equal", "Greater"]
BINOP = "rsjsonnet_lang::ast::BinaryOp"
IREXPR = "rsjsonnet_lang::program::ir::Expr"


def errs(o):
    return sorted({m[1] for m in o[1] if m[0] == "err"})


def pushes(o, stack):
    return [m[2] for m in o[1] if m[0] == "push" and m[1] == stack]


def rule_r1(F, rep):
    R = rep.rule("C08.R1", "equality of values of different types is `false` without error, equality of two "
                 "functions is an error; ordering is defined exactly for number/number, string/string and "
                 "array/array and every other pair is the specific comparison error")
    # EqualsValue
    for l in VAL:
        for r in VAL:
            outs = em.walk_run_arm(F, rep, "EqualsValue", values=[r, l], want_calls=False)
            es = set()
            bools = set()
            for o in outs:
                es |= set(errs(o))
                bools |= {tuple(pushes(o, "bool_stack"))}
            if l != r:
                ok = not es and bools == {(0,)}
                exp = "push false, no error"
            elif l == "Function":
                ok = es == {"CompareFunctions"} and all(em.is_err_return(o) for o in outs)
                exp = "error CompareFunctions"
            elif l == "Null":
                ok = not es and bools == {(1,)}
                exp = "push true"
            else:
                ok = not es
                exp = "no error"
            rep.ob(R, "EqualsValue|%s|%s" % (l, r), ok,
                   {"lhs": l, "rhs": r, "errors": sorted(es), "bool_pushes": sorted(map(str, bools)), "expected": exp}
                   if (l, r) in (("Null", "Bool"), ("Function", "Function")) else None)
            if not ok:
                rep.violation(R, "EqualsValue|%s|%s" % (l, r),
                              "== on (%s, %s): errors %s, bool results %s; specification: %s"
                              % (l, r, sorted(es), sorted(map(str, bools)), exp))
    SPEC_CMP = {"Null": "CompareNullInequality", "Bool": "CompareBooleanInequality",
                "Object": "CompareObjectInequality", "Function": "CompareFunctions"}
    for l in VAL:
        for r in VAL:
            outs = em.walk_run_arm(F, rep, "CompareValue", values=[r, l], want_calls=False)
            es = set()
            allerr = all(em.is_err_return(o) for o in outs)
            for o in outs:
                es |= set(errs(o))
            if l != r:
                ok = es == {"CompareDifferentTypesInequality"} and allerr
                exp = "error CompareDifferentTypesInequality"
            elif l in SPEC_CMP:
                ok = es == {SPEC_CMP[l]} and allerr
                exp = "error " + SPEC_CMP[l]
            else:
                ok = not es and not any(em.is_err_return(o) for o in outs)
                exp = "ordered, no error"
            rep.ob(R, "CompareValue|%s|%s" % (l, r), ok,
                   {"lhs": l, "rhs": r, "errors": sorted(es), "expected": exp} if (l, r) in (("Bool", "Bool"), ("Number", "String")) else None)
            if not ok:
                rep.violation(R, "CompareValue|%s|%s" % (l, r),
                              "ordering on (%s, %s): errors %s (all paths fail: %s); specification: %s"
                              % (l, r, sorted(es), allerr, exp))
    rep.floor(R, len(VAL) ** 2 * 2, 98, "type pairs")


CMP_STATES = {"Lt": "CmpOrdToBoolValueIsLt", "Le": "CmpOrdToBoolValueIsLe",
              "Gt": "CmpOrdToBoolValueIsGt", "Ge": "CmpOrdToBoolValueIsGe"}
TRUE_SET = {"Lt": {"Less"}, "Le": {"Less", "Equal"}, "Gt": {"Greater"}, "Ge": {"Greater", "Equal"}}


def rule_r2(F, rep):
    R = rep.rule("C08.R2", "`<`,`<=`,`>`,`>=` lower to one three-way comparison followed by the matching "
                 "ordering test; `==` lowers to structural equality and `!=` to its negation; "
                 "left operand is evaluated first; std.equals / __compare lower the same way")
    do_expr = F.fn("<%s>::do_expr" % em.EVAL)
    rep.fn(do_expr)
    ex = F.adt(IREXPR)
    bvar = [v for v in ex["variants"] if v["n"] == "Binary"][0]
    fi = {f["n"]: i for i, f in enumerate(bvar["fields"])}
    ops = F.variants(BINOP)
    # expr argument = first argument whose type is &ir::Expr
    expr_l = None
    for l in range(1, do_expr.body.argc + 1):
        t = do_expr.body.local_ty(l)
        if t["k"] == "ref" and do_expr.body.ty(t["t"]).get("d") == IREXPR:
            expr_l = l
    if expr_l is None:
        raise kwalk.WalkLimit("do_expr: expr argument not found")
    for op in ops:
        base = "%d.*" % expr_l
        env = {base: ("var", IREXPR, "Binary"),
               "%s@Binary.%d" % (base, fi["op"]): ("var", BINOP, op),
               "%s@Binary.%d" % (base, fi["lhs"]): ("str", "LHS"),
               "%s@Binary.%d" % (base, fi["rhs"]): ("str", "RHS")}
        outs = em.walk_handler(F, rep, do_expr, env=env, want_calls=True)
        seqs = set()
        for o in outs:
            seq = []
            for m in o[1]:
                if m[0] == "push" and m[1] == "state_stack":
                    seq.append(m[2])
                elif m[0] == "call" and m[1] in ("push_trace_item", "delay_trace_item"):
                    seq.append(m[1])
            seqs.add(tuple(seq))
        E = lambda who: ("Expr", who)
        if op in CMP_STATES:
            exp = {("push_trace_item", CMP_STATES[op], "CompareValue", E("RHS"), E("LHS"))}
        elif op == "Eq":
            exp = {("push_trace_item", "BoolToValue", "EqualsValue", E("RHS"), E("LHS"))}
        elif op == "Ne":
            exp = {("push_trace_item", "BoolToValue", "InvertBool", "EqualsValue", E("RHS"), E("LHS"))}
        elif op in ("LogicAnd", "LogicOr"):
            exp = {(op, E("LHS"))}
        else:
            exp = {("BinaryOp", E("RHS"), E("LHS"))}
        # payload of LogicAnd/LogicOr/BinaryOp states is not compared (first tracked field only)
        norm = {tuple((x[0] if isinstance(x, tuple) and x[0] in ("LogicAnd", "LogicOr", "BinaryOp") else x)
                      for x in s) for s in seqs}
        ok = norm == exp
        rep.ob(R, "lower|%s" % op, ok, {"op": op, "pushed": sorted(map(str, norm))} if op in ("Le", "Ne", "Add") else None)
        if not ok:
            rep.violation(R, "do_expr|Binary|%s" % op,
                          "operator %s lowers to state sequence %s, specification requires %s"
                          % (op, sorted(map(str, norm)), sorted(map(str, exp))), do_expr.loc)
    # ordering tests
    for op, st in CMP_STATES.items():
        for o_ in ORD:
            outs = em.walk_run_arm(F, rep, st, ords=[o_], want_calls=False)
            res = {tuple(pushes(o, "value_stack")) for o in outs}
            exp = {(("Bool", 1 if o_ in TRUE_SET[op] else 0),)}
            ok = res == exp
            rep.ob(R, "%s|%s" % (st, o_), ok, {"state": st, "ordering": o_, "pushed": sorted(map(str, res))} if o_ == "Equal" else None)
            if not ok:
                rep.violation(R, "%s|%s" % (st, o_), "state %s maps ordering %s to %s, expected %s"
                              % (st, o_, sorted(map(str, res)), sorted(map(str, exp))))
    for o_, want in (("Less", -1), ("Equal", 0), ("Greater", 1)):
        outs = em.walk_run_arm(F, rep, "CmpOrdToIntValueThreeWay", ords=[o_], want_calls=False,
                               extra_hook=_f64_from)
        res = {tuple(pushes(o, "value_stack")) for o in outs}
        exp = {(("Number", want),)}
        ok = res == exp
        rep.ob(R, "ThreeWay|%s" % o_, ok)
        if not ok:
            rep.violation(R, "CmpOrdToIntValueThreeWay|%s" % o_, "three-way result for %s is %s, expected %s"
                          % (o_, sorted(map(str, res)), want))
    # BoolToValue / InvertBool
    for b in (0, 1):
        outs = em.walk_run_arm(F, rep, "BoolToValue", bools=[b], want_calls=False)
        res = {tuple(pushes(o, "value_stack")) for o in outs}
        ok = res == {(("Bool", b),)}
        rep.ob(R, "BoolToValue|%d" % b, ok)
        if not ok:
            rep.violation(R, "BoolToValue|%d" % b, "BoolToValue turns %d into %s" % (b, sorted(map(str, res))))
        outs = em.walk_run_arm(F, rep, "InvertBool", want_calls=False, extra_hook=_bool_top(b))
        vals = set()
        for o in outs:
            d = dict(o[2] or ())
            vals.add(d.get("BS0"))
        ok = vals == {1 - b}
        rep.ob(R, "InvertBool|%d" % b, ok)
        if not ok:
            rep.violation(R, "InvertBool|%d" % b, "InvertBool leaves %s on the bool stack for input %d" % (vals, b))
    # builtins std.equals / std.__compare / __compare_array lower like the operators
    ex_call = F.fn("<%s>::execute_built_in_call" % em.EVAL)
    # handled in C08.R2b below via per-builtin walk
    _builtin_lowering(F, rep, R, ex_call)


def _f64_from(w, bb, t, env, args):
    n = callee_name(t) or ""
    if n == "<f64 as core::convert::From>::from" and args and isinstance(args[0], int):
        return args[0]
    return None


def _bool_top(b):
    def hook(w, bb, t, env, args):
        n = callee_name(t) or ""
        dty = w.body.ty(t["dst"]["t"])
        if n in ("<core::option::Option>::unwrap", "<core::option::Option>::expect") and dty["k"] == "ref" \
                and w.body.ty(dty["t"])["s"] == "bool":
            env["BS0"] = b
            return ("ref", "BS0")
        return None
    return hook


BUILTIN = "rsjsonnet_lang::program::data::BuiltInFunc"


def _builtin_lowering(F, rep, R, fn):
    """std.equals / std.__compare / std.__compare_array / primitiveEquals: pushed state sequence."""
    body = fn.body
    rep.fn(fn)
    # key: the BuiltInFunc argument
    kl = None
    for l in range(1, body.argc + 1):
        t = body.local_ty(l)
        if t["k"] == "adt" and t["d"] == BUILTIN:
            kl = l
    if kl is None:
        raise kwalk.WalkLimit("execute_built_in_call: BuiltInFunc argument not found")
    exp = {
        "Equals": ("BoolToValue", "EqualsValue"),
        "Compare": ("CmpOrdToIntValueThreeWay", "CompareValue"),
        "CompareArray": (("FnFallible", "do_std_compare_array"),),
    }
    for b, want in exp.items():
        outs = em.walk_handler(F, rep, fn, env={str(kl): ("var", BUILTIN, b)}, want_calls=False)
        seqs = set()
        for o in outs:
            if em.is_err_return(o):
                continue
            seq = tuple(x if not isinstance(x, tuple) or x[0] == "FnFallible" else x[0] for x in pushes(o, "state_stack"))
            seqs.add(tuple(x for x in seq if x not in ("DoThunk",)))
        ok = seqs == {want}
        rep.ob(R, "builtin|%s" % b, ok, {"builtin": b, "pushed": sorted(map(str, seqs))})
        if not ok:
            rep.violation(R, "execute_built_in_call|%s" % b,
                          "std builtin %s lowers to %s, expected %s (same machinery as the operators)"
                          % (b, sorted(map(str, seqs)), want), fn.loc)


    ca = F.fn("<%s>::do_std_compare_array" % em.EVAL)
    outs = em.walk_handler(F, rep, ca, want_calls=False)
    seqs = {tuple(pushes(o, "state_stack")) for o in outs if not em.is_err_return(o)}
    ok = seqs == {("CmpOrdToIntValueThreeWay", "CompareValue")}
    rep.ob(R, "builtin|CompareArray|handler", ok, {"pushed": sorted(map(str, seqs))})
    if not ok:
        rep.violation(R, "do_std_compare_array|lowering", "std.__compare_array lowers to %s" % sorted(map(str, seqs)), ca.loc)
    # std.primitiveEquals type-pair table
    pe = F.fn("<%s>::do_std_primitive_equals" % em.EVAL)
    for l in VAL:
        for r in VAL:
            outs = em.walk_handler(F, rep, pe, values=[r, l], want_calls=False)
            es = set()
            vals = set()
            for o in outs:
                es |= set(errs(o))
                vals |= {tuple(pushes(o, "value_stack"))}
            if l != r:
                ok = not es and vals == {(("Bool", 0),)}
            elif l in ("Array", "Object"):
                ok = es == {"PrimitiveEqualsNonPrimitive"}
            elif l == "Function":
                ok = es == {"CompareFunctions"}
            elif l == "Null":
                ok = not es and vals == {(("Bool", 1),)}
            else:
                ok = not es
            rep.ob(R, "primitiveEquals|%s|%s" % (l, r), ok)
            if not ok:
                rep.violation(R, "do_std_primitive_equals|%s|%s" % (l, r),
                              "std.primitiveEquals on (%s, %s): errors %s results %s" % (l, r, sorted(es), sorted(map(str, vals))), pe.loc)


def rule_r3(F, rep):
    R = rep.rule("C08.R3", "number equality/ordering use IEEE ==/partial_cmp on the two payloads (so -0 == 0), "
                 "string equality/ordering use str equality / Ord (UTF-8 byte order = code-point order); "
                 "no other comparison function is involved")
    run = F.fn("<%s>::run" % em.EVAL)

    def collect(variant, l):
        calls = set()
        binops = set()

        def extra(w, bb, t, env, args):
            n = callee_name(t) or ""
            if "core::cmp::" in n:
                f = t["f"]
                st = w.body.ty(f["self"])["s"] if "self" in f else ""
                calls.add((f["d"].rsplit("::", 1)[1], st))
            return None
        outs = em.walk_run_arm(F, rep, variant, values=[l, l], want_calls=False, extra_hook=extra)
        return calls, outs
    # ordering
    c, _ = collect("CompareValue", "Number")
    ok = c == {("partial_cmp", "f64")}
    rep.ob(R, "CompareValue|Number", ok, {"calls": sorted(c)})
    if not ok:
        rep.violation(R, "CompareValue|Number", "number ordering uses %s instead of f64::partial_cmp" % sorted(c))
    c, _ = collect("CompareValue", "String")
    ok = c in ({("cmp", "std::rc::Rc<str>")}, {("cmp", "str")}, {("cmp", "&str")})
    rep.ob(R, "CompareValue|String", ok, {"calls": sorted(c)})
    if not ok:
        rep.violation(R, "CompareValue|String", "string ordering uses %s instead of <str as Ord>::cmp" % sorted(c))
    c, _ = collect("EqualsValue", "String")
    ok = bool(c) and all(n in ("eq", "ne") and ("str" in s) for n, s in c)
    rep.ob(R, "EqualsValue|String", ok, {"calls": sorted(c)})
    if not ok:
        rep.violation(R, "EqualsValue|String", "string equality uses %s instead of str equality" % sorted(c))
    c, _ = collect("EqualsValue", "Number")
    # ... and the only floating-point operation on the path is the primitive `==` of the two payloads
    fops = set()
    body = run.body

    def after(w, bb, idx, st, env):
        rv = st["rv"]
        if rv["k"] == "binop":
            ta = w.body.ty(rv["a"]["t"])["s"] if "t" in rv["a"] else ""
            if ta == "f64":
                fops.add(rv["op"])
        elif rv["k"] == "unop" and "t" in rv["a"] and w.body.ty(rv["a"]["t"])["s"] == "f64":
            fops.add(rv["op"])

    def stop(w, bb, t, env):
        if t["k"] == "call":
            n = callee_name(t) or ""
            if n == "<%s>::maybe_gc" % em.PROGRAM:
                return kwalk.STOP
            if "f64" in n and ("::abs" in n or "::max" in n or "::min" in n or "total_cmp" in n or "to_bits" in n):
                fops.add("call:" + n.rsplit("::", 1)[1])
        return None
    m = em.Marker(F, body, 1, False, extra_term=stop)
    m.stop_on_limit = True
    w = kwalk.Walker(F, body, on_term=m.on_term, on_stmt=m.on_stmt, after_stmt=after,
                     call_result=em.injector(F, body, values=["Number", "Number"], state="EqualsValue"), want_ret=True)
    w.run(0, {})
    rep.states += w.states_explored
    ok = not c and fops == {"Eq"}
    rep.ob(R, "EqualsValue|Number", ok, {"calls": sorted(c), "f64_operations": sorted(fops)})
    if not ok:
        rep.violation(R, "EqualsValue|Number", "number equality is computed with %s / %s instead of the primitive f64 `==` alone "
                      "(a tolerance or a different comparison breaks transitivity and agreement with the ordering)"
                      % (sorted(c), sorted(fops)))
    rep.trust("std: <f64 as PartialOrd>::partial_cmp, <str as Ord>::cmp (byte-wise = code-point order for UTF-8)")


def rule_r4(F, rep):
    R = rep.rule("C08.R4", "array equality stops at the first unequal element and otherwise continues with the "
                 "next index; array ordering is lexicographic: the first non-equal element decides, equal "
                 "prefixes continue, and an exhausted side decides Less/Greater/Equal")
    # EqualsArray: item_eq false => result false, no continuation
    outs = em.walk_run_arm(F, rep, "EqualsArray", bools=[0], want_calls=False)
    res = {(tuple(pushes(o, "bool_stack")), tuple(x if not isinstance(x, tuple) else x[0] for x in pushes(o, "state_stack")))
           for o in outs}
    # either it was the last element (nothing popped, nothing pushed) or false is pushed back
    exp = {((), ()), ((0,), ())}
    ok = res == exp
    rep.ob(R, "EqualsArray|false", ok, {"outcomes": sorted(map(str, res))})
    if not ok:
        rep.violation(R, "EqualsArray|item-false", "EqualsArray with an unequal element: %s, expected %s"
                      % (sorted(map(str, res)), sorted(map(str, exp))))
    outs = em.walk_run_arm(F, rep, "EqualsArray", bools=[1], want_calls=False)
    res = {(tuple(pushes(o, "bool_stack")), tuple(x if not isinstance(x, tuple) else x[0] for x in pushes(o, "state_stack")))
           for o in outs}
    exp = {((), ()), ((), ("EqualsArray", "TraceItem", "EqualsValue", "DoThunk", "DoThunk"))}
    exp2 = {((), ()), ((), ("EqualsArray", "EqualsValue", "DoThunk", "DoThunk"))}
    ok = res in (exp, exp2)
    rep.ob(R, "EqualsArray|true", ok, {"outcomes": sorted(map(str, res))})
    if not ok:
        rep.violation(R, "EqualsArray|item-true", "EqualsArray with an equal element: %s" % sorted(map(str, res)))
    # CompareArray
    for o_ in ("Less", "Greater"):
        outs = em.walk_run_arm(F, rep, "CompareArray", ords=[o_], want_calls=False)
        res = {(tuple(pushes(o, "cmp_ord_stack")), tuple(pushes(o, "state_stack"))) for o in outs}
        ok = res == {((o_,), ())}
        rep.ob(R, "CompareArray|%s" % o_, ok, {"outcomes": sorted(map(str, res))})
        if not ok:
            rep.violation(R, "CompareArray|%s" % o_, "CompareArray with item ordering %s yields %s (must pass it on)"
                          % (o_, sorted(map(str, res))))
    # Equal: table over (lhs exhausted, rhs exhausted)
    run = F.fn("<%s>::run" % em.EVAL)
    from . import prov as _prov
    P_run = _prov.Prov(F, run.body)
    li_ = em.state_field_index(F, "CompareArray", "lhs")
    ri_ = em.state_field_index(F, "CompareArray", "rhs")
    side_cache = {}

    ii_ = em.state_field_index(F, "CompareArray", "index")

    def side_of(l):
        if l not in side_cache:
            sd = _cmp_side(F, run.body, P_run, {"k": "copy", "l": l, "p": []}, li_, ri_)
            if sd is not None:
                # only the comparison of the *position* with a length: one operand is the `index` payload itself
                hit = False
                for d in P_run.defs.get(l, []):
                    if d[0] == "assign" and d[3]["rv"]["k"] == "binop":
                        for y in (d[3]["rv"]["a"], d[3]["rv"]["b"]):
                            if "'@CompareArray', '.%d'" % ii_ in str(P_run.origins_op(y)) if y.get("k") in ("copy", "move") else False:
                                hit = True
                if not hit:
                    sd = None
            side_cache[l] = sd
        return side_cache[l]
    for le in (0, 1):
        for re_ in (0, 1):
            def after(w, bb, idx, s, env, le=le, re_=re_):
                rv = s["rv"]
                # `index == X.len() - 1`, wherever its result goes (a tuple that is matched on, a named flag, a condition)
                if rv["k"] == "binop" and rv["op"] == "Eq" and not s["p"]["p"] and not w.pre and w.body is run.body:
                    sd = side_of(s["p"]["l"])
                    if sd == "lhs":
                        env[w.norm(env, s["p"])] = le
                    elif sd == "rhs":
                        env[w.norm(env, s["p"])] = re_
                if rv["k"] == "agg" and rv["ak"] == "tuple" and len(rv["xs"]) == 2:
                    t = w.body.ty(s["p"]["t"])
                    if t["s"] == "(bool, bool)":
                        d = w.norm(env, s["p"])
                        env[d + ".0"] = le
                        env[d + ".1"] = re_
            # shape-independent form: the position is the concrete number 2 and each `len()` answers by which payload its receiver
            # is (3 = this was the last element, 7 = more to come); the code's own comparisons then decide
            seen_len = set()

            def len_hook(w, bb, t, env, args, le=le, re_=re_, seen_len=seen_len):
                n = callee_name(t) or ""
                if n in ("<[T]>::len", "<alloc::vec::Vec>::len") and t["xs"] and not w.pre and w.body is run.body:
                    fi = _payload_field(P_run, t["xs"][0], "CompareArray")
                    if fi == li_:
                        seen_len.add("lhs")
                        return 3 if le else 7
                    if fi == ri_:
                        seen_len.add("rhs")
                        return 3 if re_ else 7
                return None
            outs = _walk_arm_after(F, rep, "CompareArray", ["Equal"], None, extra=len_hook, payload={ii_: 2}, arith=True)
            if seen_len != {"lhs", "rhs"}:
                # the lengths are not asked through `len()` on the payloads: fall back to the (bool, bool) tuple form
                outs = _walk_arm_after(F, rep, "CompareArray", ["Equal"], after)
            res = {(tuple(pushes(o, "cmp_ord_stack")),
                    tuple(x if not isinstance(x, tuple) else x[0] for x in pushes(o, "state_stack"))) for o in outs}
            if le and re_:
                exp = {(("Equal",), ())}
            elif le:
                exp = {(("Less",), ())}
            elif re_:
                exp = {(("Greater",), ())}
            else:
                exp = {((), ("CompareArray", "TraceItem", "CompareValue", "DoThunk", "DoThunk")),
                       }
            res_n = {(a, tuple(x for x in b if x != "TraceItem")) for a, b in res}
            exp_n = {(a, tuple(x for x in b if x != "TraceItem")) for a, b in exp}
            ok = res_n == exp_n
            rep.ob(R, "CompareArray|Equal|%d%d" % (le, re_), ok, {"lhs_exhausted": le, "rhs_exhausted": re_, "outcomes": sorted(map(str, res))})
            if not ok:
                rep.violation(R, "CompareArray|Equal|%d%d" % (le, re_),
                              "CompareArray after an equal element with (lhs exhausted=%d, rhs exhausted=%d): %s, expected %s"
                              % (le, re_, sorted(map(str, res)), sorted(map(str, exp))))
    # which tuple component is which side: component 0 must derive from the `lhs` payload, 1 from `rhs`
    # (checked by origin of the length operand)
    from . import prov
    P = prov.Prov(F, run.body)
    li = em.state_field_index(F, "CompareArray", "lhs")
    ri = em.state_field_index(F, "CompareArray", "rhs")
    found = 0
    for bb, si, s in run.body.assigns():
        rv = s["rv"]
        if rv["k"] == "agg" and rv["ak"] == "tuple" and run.body.ty(s["p"]["t"])["s"] == "(bool, bool)":
            o0 = P.origins_op(rv["xs"][0])
            o1 = P.origins_op(rv["xs"][1])
            # components are Eq(index, len-1) binops: look one level deeper
            side = []
            for x in rv["xs"]:
                side.append(_cmp_side(F, run.body, P, x, li, ri))
            if side[0] is None and side[1] is None:
                continue
            found += 1
            ok = side == ["lhs", "rhs"]
            rep.ob(R, "CompareArray|sides", ok, {"components": side})
            if not ok:
                rep.violation(R, "CompareArray|sides", "exhaustion flags are taken from %s instead of (lhs, rhs)" % side,
                              run.body.span(s["sp"]))
    if found == 0:
        rep.note("C08.R4: (bool,bool) exhaustion tuple with CompareArray payload origins not found; side check skipped")


def _cmp_side(F, body, P, x, li, ri):
    """Which CompareArray payload (lhs/rhs) does the bool operand `index == X.len() - 1` depend on."""
    if x["k"] not in ("copy", "move") or x["p"]:
        return None
    for d in P.defs.get(x["l"], []):
        if d[0] != "assign":
            continue
        rv = d[3]["rv"]
        if rv["k"] != "binop" or rv["op"] != "Eq":
            continue
        org = set()
        for y in (rv["a"], rv["b"]):
            org |= _deep_origins(P, y)
        sides = set()
        for o in org:
            if o[0] == "arg+proj" or True:
                pass
        s = str(org)
        has_l = ("@CompareArray", ".%d" % li) 
        txt = s
        l_hit = "'@CompareArray', '.%d'" % li in txt
        r_hit = "'@CompareArray', '.%d'" % ri in txt
        if l_hit and not r_hit:
            return "lhs"
        if r_hit and not l_hit:
            return "rhs"
    return None


def _deep_origins(P, op):
    """origins through arithmetic and through `len()`-like calls on views (one level)."""
    out = set()
    org = P.origins_op(op, through_arith=True)
    for o in org:
        out.add(o)
    # follow call arguments of len/deref calls
    if op["k"] in ("copy", "move") and not op["p"]:
        stack = [op["l"]]
        seen = set()
        while stack:
            l = stack.pop()
            if l in seen:
                continue
            seen.add(l)
            for d in P.defs.get(l, []):
                if d[0] == "call":
                    for a in d[3]["xs"]:
                        if a["k"] in ("copy", "move"):
                            out |= P.origins_op(a, through_arith=True)
                            if not a["p"]:
                                stack.append(a["l"])
                elif d[0] == "assign":
                    rv = d[3]["rv"]
                    for key in ("a", "b", "x"):
                        y = rv.get(key)
                        if isinstance(y, dict) and y.get("k") in ("copy", "move"):
                            stack.append(y["l"])        # also the base of `tmp.0` (overflow-checked arithmetic)
                            if y["p"]:
                                out |= P.origins_op(y, through_arith=True)
                    if rv["k"] in ("ref",):
                        pl = rv["p"]
                        if not pl["p"]:
                            stack.append(pl["l"])
                        else:
                            out |= P.origins_place(pl, through_arith=True)
    return out



def _payload_field(P, op, variant, depth=0):
    """index of the State::<variant> payload field an operand is a view of (through borrows, derefs and copies), else None"""
    if depth > 12 or op.get("k") not in ("copy", "move"):
        return None
    pr = op["p"]
    for i, p in enumerate(pr):
        if p != "*" and p["k"] == "d" and p.get("v") == variant and i + 1 < len(pr) and pr[i + 1] != "*" and pr[i + 1]["k"] == "f":
            return pr[i + 1]["i"]
    for d in P.defs.get(op["l"], []):
        if d[0] == "call":
            t = d[3]
            n = callee_name(t) or ""
            if t["xs"] and (n.endswith("Deref>::deref") or n.endswith("::view") or n.endswith("Borrow>::borrow") or n.endswith("AsRef>::as_ref")
                            or n.endswith("Clone>::clone")):
                r = _payload_field(P, t["xs"][0], variant, depth + 1)
                if r is not None:
                    return r
        elif d[0] == "assign":
            rv = d[3]["rv"]
            if rv["k"] in ("use", "cast") and rv["x"].get("k") in ("copy", "move"):
                r = _payload_field(P, rv["x"], variant, depth + 1)
                if r is not None:
                    return r
            if rv["k"] in ("ref", "rawptr"):
                y = dict(rv["p"])
                y["k"] = "copy"
                r = _payload_field(P, y, variant, depth + 1)
                if r is not None:
                    return r
    return None


def _walk_arm_after(F, rep, variant, ords, after, extra=None, payload=None, arith=False):
    run = F.fn("<%s>::run" % em.EVAL)
    body = run.body

    def stop(w, bb, t, env):
        if t["k"] == "call" and (callee_name(t) or "") == "<%s>::maybe_gc" % em.PROGRAM:
            return kwalk.STOP
        return None
    m = em.Marker(F, body, 1, False, extra_term=stop)
    m.stop_on_limit = True
    w = kwalk.Walker(F, body, on_term=m.on_term, on_stmt=m.on_stmt, ordered_marks=True, after_stmt=after,
                     call_result=em.injector(F, body, ords=ords, state=variant, payload=payload, extra=extra), want_ret=True,
                     arith=arith)
    outs = w.run(0, {})
    rep.states += w.states_explored
    return outs


def rule_r4b(F, rep):
    R = rep.rule("C08.R4b", "array ordering starts lexicographically: with both arrays empty the result is Equal, an empty "
                 "array is Less than a non-empty one and a non-empty one Greater than an empty one; only two non-empty arrays "
                 "go on to compare their first elements")
    run = F.fn("<%s>::run" % em.EVAL)
    body = run.body
    P = prov.Prov(F, body) if False else None
    for le in (0, 1):
        for re_ in (0, 1):
            def hook(w, bb, t, env, args, le=le, re_=re_):
                n = callee_name(t) or ""
                if n in ("<[T]>::is_empty", "<alloc::vec::Vec>::is_empty"):
                    i = env.get("#ie", 0)
                    env["#ie"] = i + 1
                    return (le, re_)[i] if i < 2 else None
                if n.endswith("core::cmp::Ord>::cmp") or n == "core::cmp::Ord::cmp":
                    vals = []
                    for a in args[:2]:
                        if isinstance(a, tuple) and a[0] == "ref":
                            a = env.get(a[1])
                        vals.append(a)
                    if all(isinstance(v, int) for v in vals):
                        o = "Less" if vals[0] < vals[1] else ("Greater" if vals[0] > vals[1] else "Equal")
                        return ("var", em.ORDERING, o)
                return None
            outs = em.walk_run_arm(F, rep, "CompareValue", values=["Array", "Array"], want_calls=False, extra_hook=hook)
            res = set()
            for o in outs:
                if o[0].startswith("diverge"):
                    continue
                res.add((tuple(pushes(o, "cmp_ord_stack")),
                         tuple(x if not isinstance(x, tuple) else x[0] for x in pushes(o, "state_stack") if (x if not isinstance(x, tuple) else x[0]) != "TraceItem")))
            if le and re_:
                exp = {(("Equal",), ())}
            elif le:
                exp = {(("Less",), ())}
            elif re_:
                exp = {(("Greater",), ())}
            else:
                exp = {((), ("CompareArray", "CompareValue", "DoThunk", "DoThunk"))}
            ok = res == exp
            rep.ob(R, "CompareValue|arrays|lhs_empty=%d|rhs_empty=%d" % (le, re_), ok,
                   {"lhs_empty": le, "rhs_empty": re_, "outcomes": sorted(map(str, res))})
            if not ok:
                rep.violation(R, "CompareValue|arrays|%d%d" % (le, re_),
                              "comparing arrays with (lhs empty=%d, rhs empty=%d) yields %s, lexicographic order requires %s"
                              % (le, re_, sorted(map(str, res)), sorted(map(str, exp))), run.loc)
    # the first is_empty asked is the left operand's: the two values are popped rhs first, lhs second


def rule_r5(F, rep):
    from . import pushgraph, cfg
    R = rep.rule("C08.R5", "object equality looks only at visible fields: in the equality states the field names of both "
                 "operands come from get_visible_fields_order, and no visibility-blind membership query (has_field, "
                 "find_field, get_fields_order) takes part in deciding whether the two objects have the same fields — a "
                 "hidden field on one side must not stand in for a visible one on the other")
    OBJD = "rsjsonnet_lang::program::data::ObjectData"
    blind = {"<%s>::has_field" % OBJD, "<%s>::find_field" % OBJD, "<%s>::get_fields_order" % OBJD}
    vis = "<%s>::get_visible_fields_order" % OBJD
    G = pushgraph.PushGraph(F)
    run = G.run
    body = run.body
    sw, ent = G.arm_entries()
    tail = {bb for bb, t in body.calls() if (callee_name(t) or "") == "<%s>::maybe_gc" % em.PROGRAM}
    for v in ("EqualsValue", "EqualsObject"):
        if v not in ent:
            rep.violation(R, "anchor|State::%s" % v, "State::%s has no arm in Evaluator::run" % v)
            continue
        seen = cfg.reachable(body.succ_map(), [ent[v]], blocked_nodes=list(tail | {sw}))
        bodies = [(run, [b for b in sorted(seen) if not body.blocks[b]["cleanup"]])]
        # closures created in the arm, and evaluator methods it calls directly
        for b in list(bodies[0][1]):
            for st in body.blocks[b]["s"]:
                if st["k"] == "assign" and st["rv"]["k"] == "agg" and st["rv"]["ak"] == "closure":
                    c = F.fn_opt(st["rv"]["d"])
                    if c is not None:
                        bodies.append((c, list(range(len(c.body.blocks)))))
            t = body.blocks[b]["t"]
            if t["k"] == "call":
                n = callee_name(t) or ""
                if n.startswith("<%s>::do_" % em.EVAL):
                    g = F.fn_opt(n)
                    if g is not None:
                        bodies.append((g, list(range(len(g.body.blocks)))))
                        for c in F.closures_of(g):
                            bodies.append((c, list(range(len(c.body.blocks)))))
        nvis = 0
        bad = []
        for fn, blocks in bodies:
            for b in blocks:
                t = fn.body.blocks[b]["t"]
                if t["k"] != "call":
                    continue
                n = callee_name(t) or ""
                if n == vis:
                    nvis += 1
                if n in blind:
                    bad.append((fn, n, fn.body.span(t["sp"])))
        if v == "EqualsValue":
            ok = nvis >= 2
            rep.ob(R, "EqualsValue|visible-lists", ok, {"get_visible_fields_order_calls": nvis})
            if not ok:
                rep.violation(R, "EqualsValue|visible-lists", "the object arm of equality takes the visible field list of %d "
                              "operand(s); both sides' visible names must be compared" % nvis, run.loc)
        rep.ob(R, "%s|no-visibility-blind-query" % v, not bad, {"functions_scanned": sorted({fn.q for fn, _ in bodies})})
        for fn, n, site in bad:
            rep.violation(R, "%s|%s|visibility-blind" % (v, n.rsplit("::", 1)[1]),
                          "equality (state %s) asks %s, which also finds hidden fields: a visible field of one operand is "
                          "matched with a hidden field of the other, so objects that manifest differently compare equal"
                          % (v, n.rsplit("::", 1)[1]), site)


def run(F, rep, tier):
    rep.attempt(rule_r1, F, rep)
    rep.attempt(rule_r2, F, rep)
    rep.attempt(rule_r3, F, rep)
    rep.attempt(rule_r4, F, rep)
    rep.attempt(rule_r4b, F, rep)
    rep.attempt(rule_r5, F, rep)
    rep.assume("reflexivity, symmetry and transitivity over values are consequences of R1-R4 plus C06 (no NaN) "
               "and are not themselves decided; object equality uses get_visible_fields_order on both sides (C07)")
    return EXPLANATION
