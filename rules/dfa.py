"""Small deterministic-automaton library over a finite symbol set (used to decide string predicates for *all* strings).

A DFA is (n_states, start, trans[state][sym] -> state, accept: set).  All automata handed to one operation share the same
symbol list (`Alphabet`).  Operations: complement, product (and/or), minimise, emptiness, shortest member.
A tiny regex front end (literals, [classes], ( | ), ? * +, \\-escapes) builds automata for grammars taken from a specification.
"""
from collections import deque


class Alphabet:
    """Symbols are disjoint code-point ranges (a, b); every code point of interest lies in exactly one of them."""

    def __init__(self, ranges):
        self.ranges = sorted(ranges)
        self.n = len(self.ranges)

    def syms_of(self, pred):
        """symbols whose *every* code point satisfies pred(cp) — pred is evaluated on both ends (ranges are uniform by construction)"""
        return {i for i, (a, b) in enumerate(self.ranges) if pred(a) and pred(b)}

    def sym_of_cp(self, cp):
        for i, (a, b) in enumerate(self.ranges):
            if a <= cp <= b:
                return i
        raise KeyError(cp)

    def show(self, i):
        a, b = self.ranges[i]
        if a == b and 0x20 < a < 0x7F:
            return chr(a)
        return "\\u{%X}" % a if a == b else "[\\u{%X}-\\u{%X}]" % (a, b)


class DFA:
    __slots__ = ("al", "n", "start", "trans", "acc")

    def __init__(self, al, n, start, trans, acc):
        self.al, self.n, self.start, self.trans, self.acc = al, n, start, trans, frozenset(acc)

    # ---- constructors -------------------------------------------------------------------------------------------
    @staticmethod
    def all_strings(al):
        return DFA(al, 1, 0, [[0] * al.n], {0})

    @staticmethod
    def nothing(al):
        return DFA(al, 1, 0, [[0] * al.n], set())

    @staticmethod
    def every_char_in(al, syms):
        """strings all of whose characters are in `syms` (the empty string included)"""
        return DFA(al, 2, 0, [[0 if s in syms else 1 for s in range(al.n)], [1] * al.n], {0})

    @staticmethod
    def count_in(al, syms, pred, cap):
        """strings whose number of characters in `syms` satisfies pred(count); counts above `cap` are treated as cap+1"""
        n = cap + 2
        trans = []
        for c in range(n):
            nxt = min(c + 1, cap + 1)
            trans.append([nxt if s in syms else c for s in range(al.n)])
        return DFA(al, n, 0, trans, {c for c in range(n) if pred(c)})

    @staticmethod
    def weighted_count(al, weight, pred, cap):
        """strings whose total weight (sum of weight[sym]) satisfies pred; totals above `cap` are treated as cap+1"""
        n = cap + 2
        trans = [[min(c + weight[s], cap + 1) for s in range(al.n)] for c in range(n)]
        return DFA(al, n, 0, trans, {c for c in range(n) if pred(c)})

    @staticmethod
    def literal(al, text, fold_ascii_case=False, prefix=False):
        """exactly `text` (or, with prefix=True, every string that starts with it)"""
        n = len(text) + 2
        dead = n - 1
        trans = [[dead] * al.n for _ in range(n)]
        for i, ch in enumerate(text):
            cps = {ord(ch)}
            if fold_ascii_case and ch.isascii() and ch.isalpha():
                cps = {ord(ch.lower()), ord(ch.upper())}
            for cp in cps:
                trans[i][al.sym_of_cp(cp)] = i + 1
        last = len(text)
        if prefix:
            trans[last] = [last] * al.n
        return DFA(al, n, 0, trans, {last})

    # ---- operations ---------------------------------------------------------------------------------------------
    def complement(self):
        return DFA(self.al, self.n, self.start, self.trans, set(range(self.n)) - self.acc)

    def _product(self, other, f):
        al = self.al
        idx = {(self.start, other.start): 0}
        todo = deque([(self.start, other.start)])
        trans = []
        acc = set()
        while todo:
            p, q = todo.popleft()
            i = idx[(p, q)]
            while len(trans) <= i:
                trans.append(None)
            row = []
            for s in range(al.n):
                t = (self.trans[p][s], other.trans[q][s])
                j = idx.get(t)
                if j is None:
                    j = idx[t] = len(idx)
                    todo.append(t)
                row.append(j)
            trans[i] = row
            if f(p in self.acc, q in other.acc):
                acc.add(i)
        return DFA(al, len(idx), 0, trans, acc).minimise()

    def __and__(self, other):
        return self._product(other, lambda a, b: a and b)

    def __or__(self, other):
        return self._product(other, lambda a, b: a or b)

    def minimise(self):
        # reachable part
        seen = {self.start}
        todo = [self.start]
        while todo:
            p = todo.pop()
            for t in self.trans[p]:
                if t not in seen:
                    seen.add(t)
                    todo.append(t)
        states = sorted(seen)
        # Moore partition refinement
        block = {p: (1 if p in self.acc else 0) for p in states}
        while True:
            sig = {}
            newblock = {}
            for p in states:
                key = (block[p], tuple(block[t] for t in self.trans[p]))
                newblock[p] = sig.setdefault(key, len(sig))
            if len(sig) == len(set(block.values())):
                block = newblock
                break
            block = newblock
        n = len(set(block.values()))
        trans = [None] * n
        acc = set()
        for p in states:
            b = block[p]
            if trans[b] is None:
                trans[b] = [block[t] for t in self.trans[p]]
            if p in self.acc:
                acc.add(b)
        return DFA(self.al, n, block[self.start], trans, acc)

    def shortest(self):
        """a shortest accepted string as a list of symbol indices, or None when the language is empty"""
        prev = {self.start: None}
        todo = deque([self.start])
        while todo:
            p = todo.popleft()
            if p in self.acc:
                out = []
                while prev[p] is not None:
                    q, s = prev[p]
                    out.append(s)
                    p = q
                return out[::-1]
            for s, t in enumerate(self.trans[p]):
                if t not in prev:
                    prev[t] = (p, s)
                    todo.append(t)
        return None

    def is_empty(self):
        return self.shortest() is None

    def show(self, syms):
        return "".join(self.al.show(s) for s in syms)


# ---- regex front end ------------------------------------------------------------------------------------------------

class _NFA:
    def __init__(self):
        self.eps = []
        self.edges = []

    def new(self):
        self.eps.append(set())
        self.edges.append([])
        return len(self.eps) - 1


def regex(al, pattern):
    """DFA for a regular expression (full match).  Syntax: literals, \\x escapes, [a-z0-9_] classes, ( | ), ? * +."""
    nfa = _NFA()
    pos = [0]

    def peek():
        return pattern[pos[0]] if pos[0] < len(pattern) else None

    def take():
        c = pattern[pos[0]]
        pos[0] += 1
        return c

    def atom():
        c = take()
        if c == "(":
            f = alt()
            assert take() == ")"
            return f
        if c == "[":
            cps = set()
            while peek() != "]":
                a = take()
                if a == "\\":
                    a = take()
                if peek() == "-" and pattern[pos[0] + 1] != "]":
                    take()
                    b = take()
                    cps.update(range(ord(a), ord(b) + 1))
                else:
                    cps.add(ord(a))
            take()
        else:
            if c == "\\":
                c = take()
            cps = {ord(c)}
        s, e = nfa.new(), nfa.new()
        for cp in cps:
            nfa.edges[s].append((al.sym_of_cp(cp), e))
        return s, e

    def rep():
        s, e = atom()
        while peek() in ("?", "*", "+"):
            op = take()
            s2, e2 = nfa.new(), nfa.new()
            nfa.eps[s2].add(s)
            nfa.eps[e].add(e2)
            if op in ("?", "*"):
                nfa.eps[s2].add(e2)
            if op in ("*", "+"):
                nfa.eps[e].add(s)
            s, e = s2, e2
        return s, e

    def cat():
        s = e = nfa.new()
        while peek() not in (None, "|", ")"):
            s2, e2 = rep()
            nfa.eps[e].add(s2)
            e = e2
        return s, e

    def alt():
        parts = [cat()]
        while peek() == "|":
            take()
            parts.append(cat())
        if len(parts) == 1:
            return parts[0]
        s, e = nfa.new(), nfa.new()
        for a, b in parts:
            nfa.eps[s].add(a)
            nfa.eps[b].add(e)
        return s, e

    s, e = alt()
    assert pos[0] == len(pattern), "regex not fully consumed: %r" % pattern

    def closure(states):
        out = set(states)
        todo = list(states)
        while todo:
            p = todo.pop()
            for q in nfa.eps[p]:
                if q not in out:
                    out.add(q)
                    todo.append(q)
        return frozenset(out)

    start = closure({s})
    idx = {start: 0}
    todo = deque([start])
    trans = []
    acc = set()
    while todo:
        S = todo.popleft()
        i = idx[S]
        while len(trans) <= i:
            trans.append(None)
        row = []
        for sym in range(al.n):
            T = closure({t for p in S for (sy, t) in nfa.edges[p] if sy == sym})
            j = idx.get(T)
            if j is None:
                j = idx[T] = len(idx)
                todo.append(T)
            row.append(j)
        trans[i] = row
        if e in S:
            acc.add(i)
    return DFA(al, len(idx), 0, trans, acc).minimise()
