"""C07 — object inheritance is associative, late-bound and visibility-preserving.

Algebraic laws over values are out of reach.  Decided structural necessary conditions:
  R1  extension is list concatenation of cloned layers: new self layer = clone of rhs.self_layer;
      new super layers = clones of rhs.super_layers, then lhs.self_layer, then lhs.super_layers, in that
      order and nothing else (associativity of + on layers is then associativity of ++);
      object_with_field_removed puts its marker layer on top of the unchanged clone sequence
  R2  late binding needs fresh per-object caches: cloned layers get a fresh `env`, cloned fields with an
      expression get a fresh `thunk`, the new object gets a fresh `fields_order` and unchecked asserts
  R3  visibility resolution tables: per-layer decision of has_visible_field, the field-state mapping
      and merge of get_fields_order, the visible filter
"""
from . import kwalk, prov, cg
from .facts import callee_name

EXPLANATION = (
    "Static analysis of MIR: origin analysis (with base-argument identity) of the ordered layer "
    "contributions in extend_object / object_with_field_removed; origin sets of the cache fields in the "
    "clone helpers (a fresh cell has no origin in the source object), keyed on the Option variant of the "
    "field expression; per-layer decision tables of has_visible_field and get_fields_order over the "
    "field-state domain."
)

D = "rsjsonnet_lang::program::data::"
OBJ = D + "ObjectData"
LAYER = D + "ObjectLayer"
FIELD = D + "ObjectField"
FDATA = D + "ObjectFieldData"
PROGRAM = "rsjsonnet_lang::program::Program"
VIS = "rsjsonnet_lang::ast::Visibility"
OPTION = "core::option::Option"
CLONE_LAYER = D + "extend_object_clone_layer"
CLONE_FIELD = D + "extend_object_clone_field"


def cfg_paths(fn, limit=256):
    """all entry-to-return block paths over normal edges; a loop in a layer builder is an unknown shape"""
    body = fn.body
    out = []
    stack = [(0, (0,))]
    while stack:
        bb, path = stack.pop()
        t = body.blocks[bb]["t"]
        if t["k"] == "return":
            out.append(list(path))
            if len(out) > limit:
                raise kwalk.WalkLimit("%s has too many paths" % fn.q)
            continue
        for s2 in body.succs(bb):
            if body.blocks[s2]["cleanup"]:
                continue
            if s2 in path:
                raise kwalk.WalkLimit("%s builds layers in a loop" % fn.q)
            stack.append((s2, path + (s2,)))
    if not out:
        raise kwalk.WalkLimit("%s has no return path" % fn.q)
    return out


def layer_sequence(F, fn, obj_args, order=None, P=None):
    """ordered contributions to the new object's layers along one path: list of (op, source field, source argument)"""
    body = fn.body
    if P is None:
        P = prov.Prov(F, body)
        P.with_base = True
    seq = []
    clone_dst = {}
    if order is None:
        paths = cfg_paths(fn)
        if len(paths) != 1:
            raise kwalk.WalkLimit("%s is not straight-line" % fn.q)
        order = paths[0]

    def src_of(op):
        org = P.origins_op(op)
        flds = {(o[2], o[3]) for o in org if o[0] == "field" and o[1] == OBJ}
        other = {o for o in org if not (o[0] == "field" and o[1] == OBJ) and o[0] not in ("fn",)}
        return flds, other
    for bb in order:
        t = body.blocks[bb]["t"]
        if t["k"] != "call":
            continue
        n = callee_name(t) or ""
        if n == CLONE_LAYER:
            flds, other = src_of(t["xs"][0])
            clone_dst[t["dst"]["l"]] = (flds, other)
        elif n == "<alloc::vec::Vec>::push":
            if "ObjectLayer" not in body.ty(t["xs"][1]["t"])["s"]:
                continue
            x = t["xs"][1]
            if x["k"] in ("copy", "move") and not x["p"] and x["l"] in clone_dst:
                seq.append(("push-clone", clone_dst[x["l"]]))
            else:
                seq.append(("push-other", src_of(x)))
        elif n.endswith("core::iter::traits::collect::Extend>::extend"):
            flds, other = src_of(t["xs"][1])
            # the mapping function must be the layer cloner
            mapped = False
            it = t["xs"][1]
            for bb2 in order:
                t2 = body.blocks[bb2]["t"]
                if t2["k"] == "call" and t2["dst"]["l"] == it.get("l") and (callee_name(t2) or "").endswith("Iterator::map"):
                    fx = t2["xs"][1]
                    ty = body.ty(fx["t"]) if "t" in fx else None
                    mapped = bool(ty and ty["k"] == "fndef" and ty["d"] == CLONE_LAYER)
            seq.append(("extend-clones" if mapped else "extend-raw", (flds, other)))
    return seq, clone_dst, P


def linear_len(F, body, P, op, depth=0):
    """usize operand as const + sum(coef * len(<ObjectData field>)); None when not of that form"""
    if op["k"] == "const":
        v = op.get("v")
        return (v, {}) if isinstance(v, int) else None
    if depth > 12:
        return None
    l = op["l"]
    proj = op["p"]
    defs = [d for d in P.defs.get(l, [])]
    if len(defs) != 1:
        return None
    d = defs[0]
    if d[0] == "assign":
        rv = d[3]["rv"]
        if rv["k"] == "use":
            return linear_len(F, body, P, rv["x"], depth + 1)
        if rv["k"] == "binop" and rv["op"] in ("Add", "AddWithOverflow", "Sub", "SubWithOverflow"):
            if rv["op"].endswith("WithOverflow") and not (len(proj) == 1 and proj[0] != "*" and proj[0]["k"] == "f" and proj[0]["i"] == 0):
                return None
            a = linear_len(F, body, P, rv["a"], depth + 1)
            b = linear_len(F, body, P, rv["b"], depth + 1)
            if a is None or b is None:
                return None
            sgn = -1 if rv["op"].startswith("Sub") else 1
            terms = dict(a[1])
            for k, c in b[1].items():
                terms[k] = terms.get(k, 0) + sgn * c
            return (a[0] + sgn * b[0], {k: c for k, c in terms.items() if c})
        return None
    if d[0] == "call":
        t = d[3]
        n = callee_name(t) or ""
        if n == "<alloc::vec::Vec>::len" or n.endswith("<[T]>::len"):
            org = P.origins_op(t["xs"][0])
            flds = {(o[2], o[3]) for o in org if o[0] == "field" and o[1] == OBJ}
            if len(flds) == 1 and len(org) == 1:
                return (0, {next(iter(flds)): 1})
        return None
    return None


def rule_r1_r2_objects(F, rep):
    R1 = rep.rule("C07.R1", "object extension concatenates cloned layers in the order rhs.self, rhs.supers, lhs.self, "
                  "lhs.supers and contributes nothing else; field removal stacks its marker layer on the unchanged sequence")
    R2 = rep.rule("C07.R2", "every derived object and every cloned layer/field gets fresh per-object caches (env, thunk "
                  "of expression fields, fields_order) and unchecked asserts, so self/super bind to the final object")
    obj = F.adt(OBJ)
    ofields = [f["n"] for f in obj["variants"][0]["fields"]]
    ext = F.fn("<%s>::extend_object" % PROGRAM)
    rep.fn(ext)
    body = ext.body
    oargs = [l for l in range(2, body.argc + 1) if OBJ.rsplit("::", 1)[1] in body.local_ty(l)["s"]]
    if len(oargs) != 2:
        raise kwalk.WalkLimit("extend_object: expected (lhs, rhs)")
    lhs, rhs = oargs
    P = prov.Prov(F, body)
    P.with_base = True
    exp = [("extend-clones", [("super_layers", rhs)], []), ("push-clone", [("self_layer", lhs)], []),
           ("extend-clones", [("super_layers", lhs)], [])]
    clone_dst = {}
    seen_seq = set()
    for order in cfg_paths(ext):
        seq, cd, _ = layer_sequence(F, ext, oargs, order, P)
        clone_dst.update(cd)
        got = [(op, sorted(flds), sorted(map(str, other))) for op, (flds, other) in seq]
        if str(got) in seen_seq:
            continue
        seen_seq.add(str(got))
        ok = got == exp
        rep.ob(R1, "extend_object|super-layer-order|%d" % len(seen_seq), ok,
               {"contributions": [str(g) for g in got], "lhs_arg": lhs, "rhs_arg": rhs})
        if not ok:
            rep.violation(R1, "%s|layer-order" % ext.q, "super layers of lhs+rhs are built as %s; concatenation requires %s "
                          "(arguments: lhs=_%d rhs=_%d)" % (got, exp, lhs, rhs), ext.loc)
    # the aggregate
    agg = [(bb, s) for bb, si, s in body.assigns() if s["rv"]["k"] == "agg" and s["rv"].get("adt") == OBJ]
    ok_self = False
    fresh = {}
    if len(agg) == 1:
        rv = agg[0][1]["rv"]
        names = rv["fn"]
        for nm, x in zip(names, rv["xs"]):
            org = P.origins_op(x)
            if nm == "self_layer":
                # must be the clone of rhs.self_layer
                l = x.get("l")
                while l is not None and l not in clone_dst:
                    ds = [d for d in P.defs.get(l, []) if d[0] == "assign" and d[3]["rv"]["k"] == "use"]
                    l = ds[0][3]["rv"]["x"].get("l") if len(ds) == 1 else None
                if l in clone_dst:
                    flds, other = clone_dst[l]
                    ok_self = sorted(flds) == [("self_layer", rhs)] and not other
            elif nm in ("fields_order", "asserts_checked"):
                fresh[nm] = org
    rep.ob(R1, "extend_object|self-layer", ok_self)
    if not ok_self:
        rep.violation(R1, "%s|self-layer" % ext.q, "the new self layer is not the clone of rhs.self_layer", ext.loc)
    _check_fresh_object(F, rep, R2, ext, fresh, body)
    # object_with_field_removed
    rem = F.fn("<%s>::object_with_field_removed" % PROGRAM)
    rep.fn(rem)
    rbody = rem.body
    oa = [l for l in range(2, rbody.argc + 1) if OBJ.rsplit("::", 1)[1] in rbody.local_ty(l)["s"]]
    P2 = prov.Prov(F, rbody)
    P2.with_base = True
    paths = cfg_paths(rem)
    for pi, order in enumerate(paths):
        seq, clone_dst, _ = layer_sequence(F, rem, oa, order, P2)
        got = [(op, sorted(flds), sorted(map(str, other))) for op, (flds, other) in seq]
        stacked = [("push-clone", [("self_layer", oa[0])], []), ("extend-clones", [("super_layers", oa[0])], [])]
        merged = [("extend-clones", [("super_layers", oa[0])], [])]
        # the object literal built on this path
        inpath = set(order)
        self_from_clone = False
        for bb, si, st in rbody.assigns():
            rv = st["rv"]
            if bb in inpath and rv["k"] == "agg" and rv.get("adt") == OBJ:
                for nm, x in zip(rv["fn"], rv["xs"]):
                    if nm == "self_layer":
                        org = P2.origins_op(x)
                        self_from_clone = any(o[0] == "call" and o[1] == CLONE_LAYER for o in org)
        ok = got == stacked or (got == merged and self_from_clone)
        rep.ob(R1, "object_with_field_removed|layer-order|path%d" % pi, ok, {"contributions": [str(g) for g in got]})
        if not ok:
            rep.violation(R1, "%s|layer-order" % rem.q, "layers below the removal marker are built as %s, expected %s (marker "
                          "stacked on the unchanged clone sequence)" % (got, stacked), rem.loc)
            continue
        # Removed(depth): the marker hides exactly the layers below it at creation time
        npush = sum(1 for g in got if g[0] == "push-clone")
        want = (npush, {("super_layers", oa[0]): sum(1 for g in got if g[0] == "extend-clones")})
        nrem = 0
        for bb in order:
            for st in rbody.blocks[bb]["s"]:
                if st["k"] == "assign" and st["rv"]["k"] == "agg" and st["rv"].get("adt") == FIELD and st["rv"]["v"] == "Removed":
                    nrem += 1
                    lin = linear_len(F, rbody, P2, st["rv"]["xs"][0])
                    okd = lin is not None and lin[0] == want[0] and lin[1] == {k: c for k, c in want[1].items() if c}
                    rep.ob(R1, "object_with_field_removed|marker-depth|path%d" % pi, okd, {"depth": str(lin), "layers_below": str(want)})
                    if not okd:
                        rep.violation(R1, "%s|marker-depth" % rem.q, "the removal marker is built with depth %s but %s layers "
                                      "lie below it on this path (const + len(field) terms): the marker hides a layer that is "
                                      "added later on the left, or fails to hide one of the object's own"
                                      % (lin, want), rbody.span(st["sp"]))
        if nrem == 0:
            rep.violation(R1, "%s|no-marker" % rem.q, "a path of object_with_field_removed builds no ObjectField::Removed marker", rem.loc)
    fresh = {}
    for bb, si, s in rbody.assigns():
        rv = s["rv"]
        if rv["k"] == "agg" and rv.get("adt") == OBJ:
            for nm, x in zip(rv["fn"], rv["xs"]):
                if nm in ("fields_order", "asserts_checked"):
                    fresh[nm] = P2.origins_op(x)
    _check_fresh_object(F, rep, R2, rem, fresh, rbody)
    # the removal marker depth = number of layers below it: Removed(object.super_layers.len() + 1)
    # (arithmetic on layer indexes is not decided)
    return R1, R2


def _check_fresh_object(F, rep, R2, fn, fresh, body):
    fo = fresh.get("fields_order")
    ok = fo is not None and all(o[0] == "call" and o[1] == "<core::cell::once::OnceCell>::new" for o in fo) and bool(fo)
    rep.ob(R2, "%s|fresh-fields_order" % fn.q, ok, {"origins": sorted(map(str, fo or []))})
    if not ok:
        rep.violation(R2, "%s|fields_order-shared" % fn.q, "the derived object's fields_order cache is not a fresh cell "
                      "(origins %s): the field list of the source object would be reused" % sorted(map(str, fo or [])), fn.loc)
    # asserts_checked = Cell::new(false)
    okc = False
    for bb, t in body.calls():
        if (callee_name(t) or "") == "<core::cell::Cell>::new":
            x = t["xs"][0]
            ty = body.ty(x["t"])["s"] if "t" in x else ""
            if ty == "bool":
                okc = x["k"] == "const" and x.get("v") == 0
    rep.ob(R2, "%s|asserts-unchecked" % fn.q, okc)
    if not okc:
        rep.violation(R2, "%s|asserts_checked" % fn.q, "the derived object does not start with asserts unchecked: "
                      "inherited assertions would be skipped", fn.loc)


def rule_r2_clones(F, rep, R2):
    cl = F.fn(CLONE_LAYER)
    rep.fn(cl)
    P = prov.Prov(F, cl.body)
    P.with_base = True
    lay = F.adt(LAYER)
    n = 0
    for bb, si, s in cl.body.assigns():
        rv = s["rv"]
        if rv["k"] == "agg" and rv.get("adt") == LAYER:
            n += 1
            for nm, x in zip(rv["fn"], rv["xs"]):
                org = P.origins_op(x)
                from_src = {o for o in org if o[0] in ("field", "arg")}
                if nm == "env":
                    ok = not from_src and any(o[0] == "call" and o[1] == "<core::cell::once::OnceCell>::new" for o in org)
                    rep.ob(R2, "clone_layer|fresh-env", ok, {"origins": sorted(map(str, org))})
                    if not ok:
                        rep.violation(R2, "%s|env-shared" % cl.q, "a cloned layer keeps the source layer's environment "
                                      "cell (origins %s): self/super would stay bound to the old object" % sorted(map(str, org)), cl.loc)
                elif nm in ("is_top", "locals", "base_env", "asserts"):
                    ok = any(o[0] == "field" and o[1] == LAYER and o[2] == nm for o in org)
                    rep.ob(R2, "clone_layer|copies-%s" % nm, ok)
                    if not ok:
                        rep.violation(R2, "%s|%s-not-copied" % (cl.q, nm), "cloned layer field %s does not come from the "
                                      "source layer (origins %s)" % (nm, sorted(map(str, org))), cl.loc)
                elif nm == "fields":
                    # built by mapping the field cloner over the source fields
                    names = {callee_name(t) or "" for _, t in cl.body.calls()}
                    clos = F.closures_of(cl)
                    uses = any(any((callee_name(t) or "") == CLONE_FIELD for _, t in c.body.calls()) for c in clos) or CLONE_FIELD in names
                    rep.ob(R2, "clone_layer|fields-via-clone_field", uses)
                    if not uses:
                        rep.violation(R2, "%s|fields" % cl.q, "cloned layer fields are not produced by extend_object_clone_field", cl.loc)
    if n != 1:
        rep.violation(R2, "%s|shape" % cl.q, "expected exactly one ObjectLayer construction in extend_object_clone_layer", cl.loc)
    # clone_field: thunk fresh iff the field has an expression
    cf = F.fn(CLONE_FIELD)
    rep.fn(cf)
    fd = F.adt(FDATA)
    fnames = [f["n"] for f in fd["variants"][0]["fields"]]
    expr_i = fnames.index("expr")
    Pf = prov.Prov(F, cf.body)
    for has_expr in ("Some", "None"):
        def after(w, bb, idx, s, env, has_expr=has_expr):
            rv = s["rv"]
            if rv["k"] == "discr" and rv.get("adt") == OPTION:
                pl = rv["p"]
                if prov.field_of(F, w.body, pl, FDATA) == "expr":
                    env[w.norm(env, pl)] = ("var", OPTION, has_expr)
                    env[w.norm(env, s["p"])] = w.discr_of_variant(OPTION, has_expr)
            if rv["k"] == "discr" and rv.get("adt") == FIELD:
                env[w.norm(env, rv["p"])] = ("var", FIELD, "Normal")
                env[w.norm(env, s["p"])] = w.discr_of_variant(FIELD, "Normal")

        def on_stmt(w, bb, idx, s, env):
            rv = s.get("rv")
            if s["k"] == "assign" and rv["k"] == "agg" and rv.get("adt") == FDATA:
                x = rv["xs"][rv["fn"].index("thunk")]
                # how was the thunk cell obtained on this path?
                v = None
                if x["k"] in ("copy", "move"):
                    v = env.get(w.norm(env, x))
                return ("thunk", v if v is not None else "?")
            return None

        def hook(w, bb, t, env, args):
            n = callee_name(t) or ""
            if n == "<core::cell::once::OnceCell>::new":
                return ("str", "fresh")
            if n.endswith("core::clone::Clone>::clone"):
                a = args[0]
                if isinstance(a, tuple) and a[0] == "ref":
                    return ("str", "clone-of:" + a[1].split(".")[-1])
            return None
        w = kwalk.Walker(F, cf.body, after_stmt=after, on_stmt=on_stmt, call_result=hook)
        outs = w.run(0, {})
        rep.states += w.states_explored
        res = set()
        for kind, marks, _ in outs:
            for m in marks:
                if m[0] == "thunk":
                    res.add(m[1][1] if isinstance(m[1], tuple) else m[1])
        thunk_i = fnames.index("thunk")
        exp = {"fresh"} if has_expr == "Some" else {"clone-of:%d" % thunk_i}
        ok = res == exp
        rep.ob(R2, "clone_field|expr=%s" % has_expr, ok, {"field_has_expr": has_expr, "thunk_cell": sorted(map(str, res))})
        if not ok:
            rep.violation(R2, "%s|thunk|expr=%s" % (cf.q, has_expr),
                          "cloning a field %s an expression yields thunk cell %s, expected %s (a shared thunk of an "
                          "expression field keeps the value computed for the old object)"
                          % ("with" if has_expr == "Some" else "without", sorted(map(str, res)), sorted(exp)), cf.loc)


FIELD_STATES = ["absent", "Default", "Hidden", "ForceVisible", "Removed"]


def rule_r3(F, rep):
    R = rep.rule("C07.R3", "visibility resolution: scanning layers from the top, a hidden field makes the name invisible, "
                 "a forced-visible one visible, a default one is remembered while deeper layers are consulted, a "
                 "removal marker skips the layers it covers; manifestation's field list uses the same rule and the "
                 "visible filter drops exactly hidden fields")
    hv = F.fn("<%s>::has_visible_field" % OBJ)
    rep.fn(hv)
    body = hv.body
    get_sites = [bb for bb, t in body.calls() if (callee_name(t) or "").endswith("HashMap>::get")]
    if len(get_sites) < 2:
        raise kwalk.WalkLimit("has_visible_field: expected self-layer and super-layer lookups")
    for site_i, site in enumerate(get_sites):
        for fs in FIELD_STATES:
            def hook(w, bb, t, env, args, fs=fs, site=site):
                n = callee_name(t) or ""
                dst = w.norm(env, t["dst"])
                if bb == site:
                    if fs == "absent":
                        return ("var", OPTION, "None")
                    env["%s@Some.0" % dst] = ("ref", "FLD")
                    if fs == "Removed":
                        env["FLD"] = ("var", FIELD, "Removed")
                    else:
                        env["FLD"] = ("var", FIELD, "Normal")
                        vi = [i for i, f in enumerate(F.adt(FDATA)["variants"][0]["fields"]) if f["n"] == "visibility"][0]
                        env["FLD@Normal.0.%d" % vi] = ("var", VIS, fs)
                    return ("var", OPTION, "Some")
                return None

            def on_term(w, bb, t, env, site=site):
                if t["k"] == "call":
                    n = callee_name(t) or ""
                    if n.endswith("AddAssign>::add_assign") or n.endswith("Add>::add"):
                        return ("skip-depth",)
                    if bb != site and (n.endswith("HashMap>::get") or n == "<[T]>::get") and env.get("#past"):
                        return kwalk.STOP
                if bb == site:
                    env["#past"] = 1
                return None

            def on_stmt(w, bb, idx, s, env):
                if s["k"] == "assign" and not s["p"]["p"] and w.body.local_ty(s["p"]["l"])["s"] == "bool" and \
                        s["rv"]["k"] == "use" and s["rv"]["x"].get("k") == "const" and env.get("#past") and s["p"]["l"] != 0:
                    nm = w.body.local_names().get(s["p"]["l"])
                    if nm is not None:
                        return ("set-flag", s["rv"]["x"].get("v"))
                return None
            w = kwalk.Walker(F, body, call_result=hook, on_term=on_term, on_stmt=on_stmt, want_ret=True)
            outs = w.run(site, {})
            rep.states += w.states_explored
            acts = set()
            for kind, marks, ret in outs:
                if kind.startswith("diverge"):
                    continue
                if kind == "return":
                    d = dict(ret or ())
                    acts.add(("return", d.get("0")))
                else:
                    a = []
                    if ("set-flag", 1) in marks:
                        a.append("found")
                    if ("skip-depth",) in marks:
                        a.append("skip")
                    acts.add(("continue", tuple(a)))
            # a return reached *after* continuing the scan (end of layers) shows up as return(None): fold into continue
            norm = set()
            for a in acts:
                if a[0] == "return" and not isinstance(a[1], int):
                    continue
                norm.add(a)
            exp = {"absent": {("continue", ())}, "Default": {("continue", ("found",))}, "Hidden": {("return", 0)},
                   "ForceVisible": {("return", 1)}, "Removed": {("continue", ("skip",))}}[fs]
            ok = norm == exp
            rep.ob(R, "has_visible_field|lookup%d|%s" % (site_i, fs), ok, {"lookup": site_i, "field_state": fs, "action": sorted(map(str, norm))})
            if not ok:
                rep.violation(R, "%s|lookup%d|%s" % (hv.q, site_i, fs), "has_visible_field, layer lookup #%d, field state %s: "
                              "action %s, visibility rule says %s" % (site_i, fs, sorted(map(str, norm)), sorted(map(str, exp))), hv.loc)
    # visible filter: visibility != Hidden
    gv = F.fn("<%s>::get_visible_fields_order" % OBJ)
    clos = F.closures_of(gv)
    ok_all = False
    for c in clos:
        res = {}
        for v in F.variants(VIS):
            def after(w, bb, idx, s, env, v=v):
                rv = s["rv"]
                if rv["k"] == "discr" and rv.get("adt") == VIS:
                    env[w.norm(env, rv["p"])] = ("var", VIS, v)
                    env[w.norm(env, s["p"])] = w.discr_of_variant(VIS, v)
                dt = w.body.ty(s["p"]["t"])
                if dt["k"] == "adt" and dt["d"] == VIS and rv["k"] == "use" and rv["x"]["k"] in ("copy", "move") \
                        and w.norm(env, s["p"]) not in env:
                    env[w.norm(env, s["p"])] = ("var", VIS, v)

            def hook(w, bb, t, env, args, v=v):
                n = callee_name(t) or ""
                if n.endswith("core::cmp::PartialEq>::ne") or n.endswith("core::cmp::PartialEq>::eq") or \
                        n in ("core::cmp::PartialEq::ne", "core::cmp::PartialEq::eq"):
                    # comparing the field's visibility with a constant visibility
                    vals = []
                    for a in args[:2]:
                        if isinstance(a, tuple) and a[0] == "ref":
                            a = env.get(a[1])
                        vals.append(a)
                    other = [x for x in vals if isinstance(x, tuple) and x[0] == "var" and x[1] == VIS]
                    if len(other) == 2:
                        eq = other[0][2] == other[1][2]
                        return int(eq) if n.endswith("::eq") else int(not eq)
                if n == "<bool>::then_some":
                    if isinstance(args[0], int):
                        return ("var", OPTION, "Some" if args[0] else "None")
                return None
            w = kwalk.Walker(F, c.body, after_stmt=after, call_result=hook, want_ret=True)
            outs = w.run(0, {})
            rep.states += w.states_explored
            r = set()
            for kind, marks, ret in outs:
                d = dict(ret or ())
                top = d.get("0")
                # `filter_map(.. then_some ..)` answers Some/None, `filter(..)` answers a bool
                if isinstance(top, tuple) and top[0] == "var":
                    r.add({"Some": "keep", "None": "drop"}.get(top[2], top[2]))
                elif top in (0, 1) and w.body.local_ty(0)["s"] == "bool":
                    r.add("keep" if top else "drop")
                else:
                    r.add("?")
            res[v] = r
        if res.get("Hidden") == {"drop"} and res.get("Default") == {"keep"} and res.get("ForceVisible") == {"keep"}:
            ok_all = True
            detail = {k: sorted(v) for k, v in res.items()}
        elif not ok_all:
            detail = {k: sorted(v) for k, v in res.items()}
    rep.ob(R, "visible-filter", ok_all, {"filter": detail if clos else None})
    if not ok_all:
        rep.violation(R, "%s|filter" % gv.q, "the visible-field filter keeps/drops %s; it must drop exactly Hidden" % (detail if clos else "?"), gv.loc)
    # field_to_state
    fts = F.fn_opt("<%s>::get_fields_order::field_to_state" % OBJ)
    if fts is not None:
        rep.fn(fts)
        for fs in ("Normal", "Removed"):
            w = kwalk.Walker(F, fts.body, want_ret=True)
            outs = w.run(0, {"1.*": ("var", FIELD, fs)})
            rep.states += w.states_explored
            r = set()
            for kind, marks, ret in outs:
                d = dict(ret or ())
                top = d.get("0")
                r.add(top[2] if isinstance(top, tuple) else "?")
            ok = r == {fs}
            rep.ob(R, "field_to_state|%s" % fs, ok)
            if not ok:
                rep.violation(R, "%s|%s" % (fts.q, fs), "field_to_state maps %s to %s" % (fs, sorted(r)), fts.loc)


def rule_r3_merge(F, rep):
    R = rep.rule("C07.R3b", "the field list used by manifestation, std.length and std.objectFields(All) scans the layers with "
                 "the same rule as the single-name lookups (has_visible_field, find_field): while deeper layers can still "
                 "change what is known about a name, a removal marker met for that name must be recorded (it hides the "
                 "layers it covers); a marker that is ignored lets a hidden layer's field leak into the list, so the "
                 "queries disagree on which fields exist")
    gfo = F.fn("<%s>::get_fields_order" % OBJ)
    cands = [gfo] + list(F.closures_of(gfo))
    site = None
    for c in cands:
        for bb, t in c.body.calls():
            n = callee_name(t) or ""
            if n.endswith("OccupiedEntry>::get_mut") or n.endswith("OccupiedEntry>::into_mut"):
                site = (c, bb, t)
    if site is None:
        raise kwalk.WalkLimit("get_fields_order: no merge of an occupied entry found")
    c, sbb, st = site
    rep.fn(c)
    body = c.body
    E = st["dst"]["l"]
    ety = body.ty(body.local_ty(E)["t"]) if body.local_ty(E)["k"] == "ref" else None
    if not ety or ety["k"] != "adt":
        raise kwalk.WalkLimit("get_fields_order: merge state is not an enum")
    T = ety["d"]
    tadt = F.adt(T)
    # incoming field locals: every `&ObjectField` local
    flocals = [l for l in range(len(body.locals)) if body.local_ty(l)["k"] == "ref"
               and body.ty(body.local_ty(l)["t"])["k"] == "adt" and body.ty(body.local_ty(l)["t"])["d"] == FIELD]
    if not flocals:
        raise kwalk.WalkLimit("get_fields_order: incoming field not found")
    vis_i = [i for i, f in enumerate(F.adt(FDATA)["variants"][0]["fields"]) if f["n"] == "visibility"][0]
    # enumerate merge states: variant x visibility payloads
    states = []
    for v in tadt["variants"]:
        cr = tadt["_crate"]
        vfs = [i for i, f in enumerate(v["fields"]) if cr.types[f["t"]]["k"] == "adt" and cr.types[f["t"]]["d"] == VIS]
        if vfs:
            for vv in F.variants(VIS):
                states.append((v["n"], {vfs[0]: vv}))
        else:
            states.append((v["n"], {}))
    incoming = [("Normal", vv) for vv in F.variants(VIS)] + [("Removed", None)]
    table = {}
    for sv, pay in states:
        for iv, ivis in incoming:
            env0 = {"%d.*" % E: ("var", T, sv)}
            for i, vv in pay.items():
                env0["%d.*@%s.%d" % (E, sv, i)] = ("var", VIS, vv)
            for fl in flocals:
                env0["%d.*" % fl] = ("var", FIELD, iv)
                if ivis is not None:
                    env0["%d.*@Normal.0.%d" % (fl, vis_i)] = ("var", VIS, ivis)

            def on_stmt(w, bb, idx, s, env):
                if s["k"] != "assign":
                    return None
                pl = s["p"]
                if pl["p"] and pl["p"][0] == "*" and (pl["l"] == E or env.get("#alias%d" % pl["l"])):
                    return ("write",)
                rv = s["rv"]
                if rv["k"] == "ref" and rv.get("m") and rv["p"]["p"] and rv["p"]["p"][0] == "*" and \
                        (rv["p"]["l"] == E or env.get("#alias%d" % rv["p"]["l"])) and not pl["p"]:
                    env["#alias%d" % pl["l"]] = 1
                return None

            def on_term(w, bb, t, env):
                if t["k"] == "call" and (callee_name(t) or "").endswith("Iterator>::next"):
                    return kwalk.STOP
                return None

            def hook(w, bb, t, env, args):
                return None
            w = kwalk.Walker(F, body, on_stmt=on_stmt, on_term=on_term, call_result=hook, want_ret=False)
            start = st["t"]
            outs = w.run(start, dict(env0))
            rep.states += w.states_explored
            res = set()
            for kind, marks, _ in outs:
                if kind.startswith("diverge"):
                    continue
                res.add("write" if ("write",) in marks else "keep")
            table[(sv, tuple(sorted(pay.items())), iv, ivis)] = res
    nrows = 0
    for sv, pay in states:
        key = (sv, tuple(sorted(pay.items())))
        opens = any("write" in table[key + (iv, ivis)] for iv, ivis in incoming if iv == "Normal")
        rem = table[key + ("Removed", None)]
        ok = (not opens) or ("write" in rem)
        nrows += 1
        rep.ob(R, "merge|%s%s" % (sv, dict(pay) or ""), ok,
               {"state": sv, "payload": {str(k): v for k, v in pay.items()}, "a deeper field can still change it": opens,
                "on a removal marker": sorted(rem)})
        if not ok:
            rep.violation(R, "%s|merge|%s%s|ignores-removal-marker" % (gfo.q, sv, "".join("|%s" % v for v in pay.values())),
                          "get_fields_order: while a name is in state %s%s a deeper layer's field can still change it, but a "
                          "removal marker met in that state is ignored — the layers the marker hides are then merged into the "
                          "field list although has_visible_field / find_field skip them (e.g. objectRemoveKey({a::2}, 'a') + "
                          "{a: 3}: objectHas says the field exists, objectFields and manifestation omit it)"
                          % (sv, dict(pay) or ""), c.loc)
    rep.floor(R, nrows, 3, "merge states")


def _copy_src(body, op):
    """resolve an operand through single-assignment copies to a (local, projection) place, or None"""
    for _ in range(5):
        if op["k"] not in ("copy", "move"):
            return None
        if op["p"]:
            return op
        ds = [st["rv"] for bb, si, st in body.assigns() if st["p"]["l"] == op["l"] and not st["p"]["p"]]
        if len(ds) != 1 or ds[0]["k"] != "use":
            return op
        nx = ds[0]["x"]
        if nx["k"] in ("copy", "move") and nx["p"] and not any(p != "*" and p["k"] == "d" for p in nx["p"]) and nx["p"] != ["*"]:
            return op           # e.g. the `.0` of a checked-arithmetic pair: this local is the variable
        op = nx
    return op


def _add_assign(w, env, args):
    tgt = args[0][1] if isinstance(args[0], tuple) and args[0][0] == "ref" else None
    v = args[1]
    if isinstance(v, tuple) and v[0] == "ref":
        v = env.get(v[1])
    if tgt is not None:
        cur = env.get(tgt)
        if isinstance(cur, int) and isinstance(v, int):
            env[tgt] = cur + v
        else:
            env.kill(tgt)
    return None


_ADD_ASSIGN = {"<usize as core::ops::arith::AddAssign>::add_assign": _add_assign}


def rule_r8(F, rep):
    from . import scanfsm
    R = rep.rule("C07.R8", "a removal marker `Removed(depth)` found at layer i hides exactly the layers i+1 ..= i+depth, for every "
                 "reader: the single-name walks (find_field, has_visible_field) continue at layer i+depth+1, and in the field-list "
                 "merge of get_fields_order a layer is taken into account for a name whose marker was recorded at (i, depth) exactly "
                 "from layer i+depth+1 on — checked by evaluating the index arithmetic of each writer/reader pair on concrete "
                 "layer numbers (the operations are additions and comparisons only). An off-by-one in one of the sites makes "
                 "manifestation, objectHas and field access disagree after std.objectRemoveKey")
    I, D = 10, 3
    n = 0
    # ---- part 1: the two single-name walks -------------------------------------------------------------------------
    for fname in ("find_field", "has_visible_field"):
        fn = F.fn("<%s>::%s" % (OBJ, fname))
        rep.fn(fn)
        body = fn.body
        get_sites = [bb for bb, t in body.calls() if (callee_name(t) or "").endswith("HashMap>::get")]
        # the layer variable: the integer that the marker's depth is added to (`l += depth` or `l = l + depth`)
        L = None

        def from_marker(op):
            sb = _copy_src(body, op)
            if sb is None:
                return False
            if any(p != "*" and p["k"] == "d" and p["v"] == "Removed" for p in sb["p"]):
                return True
            if not sb["p"]:
                for bb2, si2, st2 in body.assigns():
                    if st2["p"]["l"] == sb["l"] and not st2["p"]["p"] and st2["rv"]["k"] == "ref":
                        if any(p != "*" and p["k"] == "d" and p["v"] == "Removed" for p in st2["rv"]["p"]["p"]):
                            return True
            return False
        for bb, si, st in body.assigns():
            rv = st["rv"]
            if rv["k"] == "binop" and rv["op"].startswith("Add"):
                for a, b in ((rv["a"], rv["b"]), (rv["b"], rv["a"])):
                    if from_marker(b):
                        sa = _copy_src(body, a)
                        if sa is not None and not sa["p"]:
                            L = sa["l"]
        for bb, t in body.calls():
            if (callee_name(t) or "").endswith("AddAssign>::add_assign") and len(t["xs"]) == 2 and from_marker(t["xs"][1]):
                for bb2, si2, st2 in body.assigns():
                    if st2["p"]["l"] == t["xs"][0].get("l") and not st2["p"]["p"] and st2["rv"]["k"] == "ref" and not st2["rv"]["p"]["p"]:
                        L = st2["rv"]["p"]["l"]
        if L is None or not get_sites:
            raise kwalk.WalkLimit("%s: layer variable / lookups not found" % fname)
        for site_i, site in enumerate(get_sites):
            res = {}
            for fs in ("absent", "Removed"):
                def hook(w, bb, t, env, args, fs=fs, site=site):
                    dst = w.norm(env, t["dst"])
                    if bb == site and not w.pre:
                        if fs == "absent":
                            return ("var", OPTION, "None")
                        env["%s@Some.0" % dst] = ("ref", "FLD")
                        env["FLD"] = ("var", FIELD, "Removed")
                        env["FLD@Removed.0"] = D
                        return ("var", OPTION, "Some")
                    return None

                def on_term(w, bb, t, env, site=site):
                    if w.pre:
                        return None
                    if t["k"] == "call" and env.get("#past"):
                        nm = callee_name(t) or ""
                        if nm in ("<[T]>::get", "<alloc::vec::Vec>::get") or nm.endswith("core::ops::index::Index>::index"):
                            v = w.val(env, t["xs"][1]) if len(t["xs"]) > 1 else None
                            return (kwalk.STOP, ("next-index", v if isinstance(v, int) else None))
                    if bb == site:
                        env["#past"] = 1
                    return None
                w = kwalk.Walker(F, body, call_result=hook, on_term=on_term, arith=True, pure_calls=_ADD_ASSIGN)
                outs = w.run(site, {str(L): I})
                rep.states += w.states_explored
                idx = {m[1] for kind, marks, _ in outs for m in marks if m[0] == "next-index"}
                res[fs] = idx
            n += 1
            a, r = res["absent"], res["Removed"]
            ok = len(a) == 1 and len(r) == 1 and None not in a and None not in r and (next(iter(r)) - next(iter(a))) == D
            if not a and not r:
                continue        # the lookup is not followed by another layer access on any path
            rep.ob(R, "%s|lookup%d|skip" % (fname, site_i), ok, {"function": fname, "layer": I, "depth": D,
                                                                 "next index without marker": sorted(map(str, a)), "next index after marker": sorted(map(str, r))})
            if not ok:
                rep.violation(R, "%s|lookup%d|marker-skip" % (fn.q, site_i), "%s: after a removal marker of depth %d at layer %d the "
                              "walk continues at slice index %s, without a marker at %s; the marker must move the walk on by exactly "
                              "its depth" % (fname, D, I, sorted(map(str, r)), sorted(map(str, a))), fn.loc)
    # ---- part 2: the merge of get_fields_order --------------------------------------------------------------------------
    gfo = F.fn("<%s>::get_fields_order" % OBJ)
    cands = [gfo] + list(F.closures_of(gfo))
    site = None
    for c in cands:
        for bb, t in c.body.calls():
            nm = callee_name(t) or ""
            if nm.endswith("OccupiedEntry>::get_mut") or nm.endswith("OccupiedEntry>::into_mut"):
                site = (c, bb, t)
    if site is None:
        raise kwalk.WalkLimit("get_fields_order: no merge of an occupied entry found")
    c, sbb, st0 = site
    body = c.body
    E = st0["dst"]["l"]
    ety = body.ty(body.local_ty(E)["t"]) if body.local_ty(E)["k"] == "ref" else None
    if not ety or ety["k"] != "adt":
        raise kwalk.WalkLimit("get_fields_order: merge state is not an enum")
    T = ety["d"]
    tadt = F.adt(T)
    cr = tadt["_crate"]
    flocals = [l for l in range(len(body.locals)) if body.local_ty(l)["k"] == "ref"
               and body.ty(body.local_ty(l)["t"])["k"] == "adt" and body.ty(body.local_ty(l)["t"])["d"] == FIELD]
    vis_i = [i for i, f in enumerate(F.adt(FDATA)["variants"][0]["fields"]) if f["n"] == "visibility"][0]
    # the layer variable: an integer local compared with an integer payload of the merge state
    L = None
    for bb, si, st in body.assigns():
        rv = st["rv"]
        if rv["k"] == "binop" and rv["op"] in ("Gt", "Ge", "Lt", "Le"):
            for a, b in ((rv["a"], rv["b"]), (rv["b"], rv["a"])):
                sa = _copy_src(body, a)
                if sa is not None and not sa["p"] and body.local_ty(sa["l"])["k"] == "prim":
                    L = sa["l"] if L is None or L == sa["l"] else L
    if L is None or not flocals:
        raise kwalk.WalkLimit("get_fields_order: layer variable not found")
    slots = []      # (variant, visibility field index or None, integer field index)
    for v in tadt["variants"]:
        ints = [i for i, f in enumerate(v["fields"]) if cr.types[f["t"]]["k"] == "prim" and cr.types[f["t"]]["s"] == "usize"]
        vfs = [i for i, f in enumerate(v["fields"]) if cr.types[f["t"]]["k"] == "adt" and cr.types[f["t"]]["d"] == VIS]
        for i in ints:
            slots.append((v["n"], vfs[0] if vfs else None, i))

    def step(sv, vf, ii, V, j, incoming, ivis=None, depth=None):
        env0 = {"%d.*" % E: ("var", T, sv), "%d.*@%s.%d" % (E, sv, ii): V, str(L): j}
        if vf is not None:
            env0["%d.*@%s.%d" % (E, sv, vf)] = ("var", VIS, "Default")
        for fl in flocals:
            env0["%d.*" % fl] = ("var", FIELD, incoming)
            if incoming == "Normal":
                env0["%d.*@Normal.0.%d" % (fl, vis_i)] = ("var", VIS, ivis)
            else:
                env0["%d.*@Removed.0" % fl] = depth

        def on_term(w, bb, t, env):
            if not w.pre and t["k"] == "call" and (callee_name(t) or "").endswith("Iterator>::next"):
                return kwalk.STOP
            return None
        def on_stmt(w, bb, idx, s_, env):
            # the entry's final state is read when its borrow goes out of scope (before the storage is released)
            if not w.pre and s_["k"] == "dead" and s_["l"] == E:
                stv = env.get("%d.*" % E)
                vn = stv[2] if isinstance(stv, tuple) and stv[0] == "var" else None
                ints = tuple(sorted((k, v) for k, v in env.items() if isinstance(v, int) and not isinstance(v, bool) and k.startswith("%d.*@%s." % (E, vn))))
                visv = tuple(sorted((k, v[2]) for k, v in env.items() if isinstance(v, tuple) and v[0] == "var" and v[1] == VIS and k.startswith("%d.*@" % E)))
                return ("final", vn, ints, visv)
            return None
        w = scanfsm._ScanWalker(F, body, on_term=on_term, on_stmt=on_stmt, arith=True)
        outs = w.run(st0["t"], dict(env0))
        rep.states += w.states_explored
        res = set()
        for kind, marks, ret in outs:
            if kind != "stop":
                continue
            fin = [m for m in marks if m[0] == "final"]
            if len(fin) != 1:
                raise kwalk.WalkLimit("get_fields_order: the merged entry's final state was not observed")
            res.add(fin[0][1:])
        return res
    for sv, vf, ii in slots:
        before = step(sv, vf, ii, 0, I, "Removed", depth=D)            # a marker met at layer I while everything above is open
        if len(before) != 1:
            raise kwalk.WalkLimit("get_fields_order: marker merge in state %s is not deterministic: %s" % (sv, sorted(map(str, before))))
        vn, ints, _ = next(iter(before))
        slot2 = [(s2, vf2, i2) for s2, vf2, i2 in slots if s2 == vn]
        if not ints or not slot2:
            continue
        s2, vf2, i2 = slot2[0]
        W = dict(ints).get("%d.*@%s.%d" % (E, s2, i2))
        if not isinstance(W, int):
            raise kwalk.WalkLimit("get_fields_order: recorded marker limit is not a number in state %s" % vn)
        base = step(s2, vf2, i2, W, I + D, "Normal", ivis="Hidden")
        hidden_changed = base != {(s2, tuple(sorted({"%d.*@%s.%d" % (E, s2, i2): W}.items())), next(iter(base))[2])} if base else True
        at_hidden = step(s2, vf2, i2, W, I + D, "Normal", ivis="Hidden")
        at_open = step(s2, vf2, i2, W, I + D + 1, "Normal", ivis="Hidden")

        def changed(res):
            return any(not (v == s2 and dict(ints_).get("%d.*@%s.%d" % (E, s2, i2)) == W and all(x[1] == "Default" for x in vis_ if x[0].startswith("%d.*@" % E)))
                       for v, ints_, vis_ in res)
        n += 1
        ok = (not changed(at_hidden)) and changed(at_open)
        rep.ob(R, "get_fields_order|%s->%s" % (sv, s2), ok, {"state when the marker is met": sv, "marker": {"layer": I, "depth": D}, "recorded limit": W,
                                                             "layer %d changes the entry" % (I + D): changed(at_hidden),
                                                             "layer %d changes the entry" % (I + D + 1): changed(at_open)})
        if not ok:
            rep.violation(R, "%s|marker-range|%s" % (gfo.q, sv), "get_fields_order: a removal marker of depth %d met at layer %d in state "
                          "%s records the limit %d; with it layer %d %s and layer %d %s — the marker must hide exactly layers %d..=%d "
                          "(find_field / has_visible_field continue at layer %d)"
                          % (D, I, sv, W, I + D, "is merged" if changed(at_hidden) else "is skipped", I + D + 1,
                             "is merged" if changed(at_open) else "is skipped", I + 1, I + D, I + D + 1), c.loc)
    rep.floor(R, n, 6, "marker writer/reader pairs")


def rule_r5(F, rep):
    R = rep.rule("C07.R5", "a field is evaluated relative to the layer it was found in: in find_object_field_thunk the layer index "
                 "handed to init_object_env / get_object_layer_env is the one find_field returned, never the index the search "
                 "started from (super, `in super` and `+:` inside the field are resolved from that layer)")
    fn = F.fn("<%s>::find_object_field_thunk" % PROGRAM)
    FF = "<%s>::find_field" % OBJ
    # the function, its closures, and (transitively) the helpers they call that did not exist on the reference tree
    bodies = [fn] + list(F.closures_of(fn))
    k = 0
    while k < len(bodies):
        g = bodies[k]
        k += 1
        for bb, t in g.body.calls():
            q = t["f"].get("r")
            if q and t["f"].get("rlocal") and F.is_new_fn(q):
                h = F.fn_opt(q)
                if h is not None and h.body is not None and h not in bodies:
                    bodies.append(h)
                    bodies += [c for c in F.closures_of(h) if c not in bodies]
    provs = {}

    def P_of(g):
        if g.q not in provs:
            provs[g.q] = prov.Prov(F, g.body)
        return provs[g.q]

    def resolve(g, op, depth=0):
        """origins of an operand of `g`, expressed in terms of find_object_field_thunk itself"""
        if depth > 6 or op.get("k") not in ("move", "copy"):
            return P_of(g).origins_op(op) if op.get("k") in ("move", "copy") else set()
        out = set()
        for o in P_of(g).origins_op(op):
            if g is fn or o[0] not in ("arg", "field"):
                out.add(o)
                continue
            if "::{closure#" in g.q.rsplit("::", 1)[-1] or g.q.endswith("}"):
                # captured: whatever usize the parent puts into the closure
                par_q = g.q.rsplit("::{closure#", 1)[0]
                par = next((b for b in bodies if b.q == par_q), None)
                if par is None:
                    out.add(o)
                    continue
                for b2, si, st in par.body.assigns():
                    rv = st["rv"]
                    if rv["k"] == "agg" and rv["ak"] == "closure" and rv["d"] == g.q:
                        for y in rv["xs"]:
                            if "t" in y:
                                ty = par.body.ty(y["t"])
                                inner = par.body.ty(ty["t"])["s"] if ty["k"] == "ref" else ty["s"]
                                if inner == "usize":
                                    out |= resolve(par, y, depth + 1)
            elif o[0] == "arg":
                # parameter of a new helper: the argument at each call site
                hit = False
                for c in bodies:
                    for bb, t in c.body.calls():
                        if t["f"].get("r") == g.q and o[1] - 1 < len(t["xs"]):
                            out |= resolve(c, t["xs"][o[1] - 1], depth + 1)
                            hit = True
                if not hit:
                    out.add(o)
            else:
                out.add(o)
        return out
    n = 0
    for g in bodies:
        for bb, t in g.body.calls():
            nme = callee_name(t) or ""
            if nme.rsplit("::", 1)[-1] not in ("init_object_env", "get_object_layer_env"):
                continue
            n += 1
            idx = [x for x in t["xs"] if "t" in x and g.body.ty(x["t"])["s"] == "usize"]
            org = resolve(g, idx[0]) if idx else set()
            good = bool(org) and all(o[0] == "call" and o[1] == FF for o in org)
            rep.ob(R, "%s|%s" % (g.q.rsplit("::", 1)[-1], nme.rsplit("::", 1)[-1]), good)
            if not good:
                rep.violation(R, "find_object_field_thunk|%s|layer-index" % nme.rsplit("::", 1)[-1],
                              "find_object_field_thunk hands %s a layer index that is not the one returned by find_field: fields "
                              "found in a deeper layer would resolve super/self-layer lookups from the wrong layer (origins: %s)"
                              % (nme.rsplit("::", 1)[-1], sorted(map(str, org))[:3]), g.body.span(t["sp"]))
    rep.floor(R, n, 2, "environment constructions in find_object_field_thunk")


LAYER = "rsjsonnet_lang::program::data::ObjectLayer"
LAYER_PARTS = ("fields", "asserts")      # what a layer contributes to the combined object besides locals


def _layer_reads(F, fn, depth=2, _seen=None):
    """names of ObjectData / ObjectLayer fields read by fn or (to the given depth) the crate-local functions it calls"""
    _seen = _seen if _seen is not None else set()
    if fn.q in _seen or fn.body is None:
        return set()
    _seen.add(fn.q)
    out = set()
    body = fn.body
    def scan_place(pl):
        tys = prov.place_types(body, pl)
        for i, pr in enumerate(pl["p"]):
            if isinstance(pr, dict) and pr.get("k") == "f":
                t = tys[i]
                if t["k"] == "adt" and t.get("d") in (OBJ, LAYER):
                    out.add(pr["n"])
    def scan_op(x):
        if isinstance(x, dict) and x.get("k") in ("move", "copy"):
            scan_place(x)
    for blk in body.blocks:
        if blk["cleanup"]:
            continue
        for st in blk["s"]:
            if st["k"] != "assign":
                continue
            rv = st["rv"]
            for key in ("x", "a", "b"):
                if key in rv:
                    scan_op(rv[key])
            if "p" in rv and isinstance(rv["p"], dict) and "l" in rv["p"]:
                scan_place(rv["p"])
            for x in rv.get("xs", []):
                scan_op(x)
        t = blk["t"]
        for x in t.get("xs", []) or []:
            scan_op(x)
        if t["k"] == "switch":
            scan_op(t["x"])
        if t["k"] == "call" and depth > 0:
            f = t["f"]
            if f.get("rlocal") and f.get("r"):
                g = F.fn_opt(f["r"])
                if g is not None:
                    out |= _layer_reads(F, g, depth - 1, _seen)
    return out


def rule_r7(F, rep):
    from . import evalmarks as em
    R = rep.rule("C07.R7", "`a + b` on two objects builds the combined object with Program::extend_object on every path; a path "
                 "that answers with one operand instead must have established that the other contributes nothing — no super "
                 "layers, no fields and no assertions")
    BINOP = "rsjsonnet_lang::ast::BinaryOp"
    EXT = "<%s>::extend_object" % em.PROGRAM
    fn = F.fn("<%s>::do_binary_op" % em.EVAL)
    rep.fn(fn)
    body = fn.body
    opl = [l for l in range(2, body.argc + 1) if body.local_ty(l).get("d") == BINOP]
    if not opl:
        raise kwalk.WalkLimit("do_binary_op: operator argument not found")

    def extra(w, bb, t, env):
        if t["k"] == "call":
            f = t["f"]
            n = callee_name(t) or ""
            if n == EXT:
                return ("ext",)
            if f.get("rlocal") and f.get("r"):
                return ("lcall", f["r"])
        return None
    outs = em.walk_handler(F, rep, fn, values=["Object", "Object"], env={str(opl[0]): ("var", BINOP, "Add")},
                           want_calls=False, extra_term=extra)
    n = 0
    for o in outs:
        if o[0] != "return" or em.is_err_return(o):
            continue
        n += 1
        marks = list(o[1])
        if any(m[0] == "ext" for m in marks):
            rep.ob(R, "add-objects|path%d|extend_object" % n, True)
            continue
        reads = set()
        helpers = sorted({m[1] for m in marks if m[0] == "lcall"})
        for h in helpers:
            g = F.fn_opt(h)
            if g is not None:
                reads |= _layer_reads(F, g)
        reads |= _layer_reads(F, fn, depth=0) & {"asserts"}   # an inline test in do_binary_op itself
        missing = [p for p in LAYER_PARTS + ("super_layers",) if p not in reads]
        ok = not missing
        rep.ob(R, "add-objects|path%d|shortcut" % n, ok, {"helpers": helpers, "reads": sorted(reads)})
        if not ok:
            rep.violation(R, "do_binary_op|Add|Object|shortcut-ignores|%s" % ",".join(missing),
                          "`object + object` has a path that does not call extend_object (helpers on it: %s) and never looks at "
                          "the operand's %s: an operand that only carries %s is dropped from the result"
                          % ([h.rsplit("::", 1)[-1] for h in helpers], "/".join(missing), "/".join(missing)), fn.loc)
    rep.floor(R, n, 1, "success paths of Add on two objects")


def run(F, rep, tier):
    r12 = rep.attempt(rule_r1_r2_objects, F, rep)
    if r12:
        rep.attempt(rule_r2_clones, F, rep, r12[1])
    rep.attempt(rule_r3, F, rep)
    rep.attempt(rule_r3_merge, F, rep)
    rep.attempt(rule_r5, F, rep)
    rep.attempt(rule_r7, F, rep)
    rep.attempt(rule_r8, F, rep)
    from . import objflags
    rep.attempt(objflags.rule, F, rep, "C07.R2b")
    from . import visibility
    rep.attempt(visibility.rule, F, rep, "C07.R4")
    rep.attempt(visibility.rule_partition, F, rep, "C07.R6")
    rep.assume("value-level associativity and self/super/$ resolution at nesting are not decided (the removal-marker index "
               "arithmetic is: R8)")
    rep.trust("Jsonnet specification: field visibility of inherited fields (the right-most explicit visibility wins; default inherits)")
    return EXPLANATION
