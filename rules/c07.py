"""C07 — object inheritance is associative, late-bound and visibility-preserving.

Algebraic laws over values are out of reach.  Decided structural necessary conditions:
  R1  extension is list concatenation of cloned layers: new self layer = clone of rhs.self_layer;
      new super layers = clones of rhs.super_layers, then lhs.self_layer, then lhs.super_layers, in that
      order and nothing else (associativity of + on layers is then associativity of ++);
      object_with_field_removed puts its marker layer on top of the unchanged clone sequence
  R2  late binding needs fresh per-object caches: cloned layers get a fresh `env`, cloned fields with an
      expression get a fresh `thunk`, the new object gets a fresh `fields_order` and unchecked asserts
  R3  visibility resolution tables: per-layer decision of has_visible_field, the field-state mapping
      and merge of get_fields_order, the visible filter
"""
from . import kwalk, prov, cg
from .facts import callee_name

EXPLANATION = (
    "Static analysis of MIR: origin analysis (with base-argument identity) of the ordered layer "
    "contributions in extend_object / object_with_field_removed; origin sets of the cache fields in the "
    "clone helpers (a fresh cell has no origin in the source object), keyed on the Option variant of the "
    "field expression; per-layer decision tables of has_visible_field and get_fields_order over the "
    "field-state domain."
)

D = "rsjsonnet_lang::program::data::"
OBJ = D + "ObjectData"
LAYER = D + "ObjectLayer"
FIELD = D + "ObjectField"
FDATA = D + "ObjectFieldData"
PROGRAM = "rsjsonnet_lang::program::Program"
VIS = "rsjsonnet_lang::ast::Visibility"
OPTION = "core::option::Option"
CLONE_LAYER = D + "extend_object_clone_layer"
CLONE_FIELD = D + "extend_object_clone_field"


def straight_line(body):
    """blocks from entry following unique normal successors"""
    out = []
    bb = 0
    seen = set()
    while bb not in seen:
        seen.add(bb)
        out.append(bb)
        ss = body.succs(bb)
        if len(ss) != 1:
            break
        bb = ss[0]
    return out


def layer_sequence(F, fn, obj_args):
    """ordered contributions to the new object's layers: list of (op, source field, source argument)"""
    body = fn.body
    P = prov.Prov(F, body)
    P.with_base = True
    seq = []
    clone_dst = {}
    order = straight_line(body)
    if body.blocks[order[-1]]["t"]["k"] != "return":
        raise kwalk.WalkLimit("%s is not straight-line" % fn.q)

    def src_of(op):
        org = P.origins_op(op)
        flds = {(o[2], o[3]) for o in org if o[0] == "field" and o[1] == OBJ}
        other = {o for o in org if not (o[0] == "field" and o[1] == OBJ) and o[0] not in ("fn",)}
        return flds, other
    for bb in order:
        t = body.blocks[bb]["t"]
        if t["k"] != "call":
            continue
        n = callee_name(t) or ""
        if n == CLONE_LAYER:
            flds, other = src_of(t["xs"][0])
            clone_dst[t["dst"]["l"]] = (flds, other)
        elif n == "<alloc::vec::Vec>::push":
            x = t["xs"][1]
            if x["k"] in ("copy", "move") and not x["p"] and x["l"] in clone_dst:
                seq.append(("push-clone", clone_dst[x["l"]]))
            else:
                seq.append(("push-other", src_of(x)))
        elif n.endswith("core::iter::traits::collect::Extend>::extend"):
            flds, other = src_of(t["xs"][1])
            # the mapping function must be the layer cloner
            mapped = False
            it = t["xs"][1]
            for bb2 in order:
                t2 = body.blocks[bb2]["t"]
                if t2["k"] == "call" and t2["dst"]["l"] == it.get("l") and (callee_name(t2) or "").endswith("Iterator::map"):
                    fx = t2["xs"][1]
                    ty = body.ty(fx["t"]) if "t" in fx else None
                    mapped = bool(ty and ty["k"] == "fndef" and ty["d"] == CLONE_LAYER)
            seq.append(("extend-clones" if mapped else "extend-raw", (flds, other)))
    return seq, clone_dst, P


def rule_r1_r2_objects(F, rep):
    R1 = rep.rule("C07.R1", "object extension concatenates cloned layers in the order rhs.self, rhs.supers, lhs.self, "
                  "lhs.supers and contributes nothing else; field removal stacks its marker layer on the unchanged sequence")
    R2 = rep.rule("C07.R2", "every derived object and every cloned layer/field gets fresh per-object caches (env, thunk "
                  "of expression fields, fields_order) and unchecked asserts, so self/super bind to the final object")
    obj = F.adt(OBJ)
    ofields = [f["n"] for f in obj["variants"][0]["fields"]]
    ext = F.fn("<%s>::extend_object" % PROGRAM)
    rep.fn(ext)
    body = ext.body
    oargs = [l for l in range(2, body.argc + 1) if OBJ.rsplit("::", 1)[1] in body.local_ty(l)["s"]]
    if len(oargs) != 2:
        raise kwalk.WalkLimit("extend_object: expected (lhs, rhs)")
    lhs, rhs = oargs
    seq, clone_dst, P = layer_sequence(F, ext, oargs)
    got = [(op, sorted(flds), sorted(map(str, other))) for op, (flds, other) in seq]
    exp = [("extend-clones", [("super_layers", rhs)], []), ("push-clone", [("self_layer", lhs)], []),
           ("extend-clones", [("super_layers", lhs)], [])]
    ok = got == exp
    rep.ob(R1, "extend_object|super-layer-order", ok, {"contributions": [str(g) for g in got], "lhs_arg": lhs, "rhs_arg": rhs})
    if not ok:
        rep.violation(R1, "%s|layer-order" % ext.q, "super layers of lhs+rhs are built as %s; concatenation requires %s "
                      "(arguments: lhs=_%d rhs=_%d)" % (got, exp, lhs, rhs), ext.loc)
    # the aggregate
    agg = [(bb, s) for bb, si, s in body.assigns() if s["rv"]["k"] == "agg" and s["rv"].get("adt") == OBJ]
    ok_self = False
    fresh = {}
    if len(agg) == 1:
        rv = agg[0][1]["rv"]
        names = rv["fn"]
        for nm, x in zip(names, rv["xs"]):
            org = P.origins_op(x)
            if nm == "self_layer":
                # must be the clone of rhs.self_layer
                l = x.get("l")
                while l is not None and l not in clone_dst:
                    ds = [d for d in P.defs.get(l, []) if d[0] == "assign" and d[3]["rv"]["k"] == "use"]
                    l = ds[0][3]["rv"]["x"].get("l") if len(ds) == 1 else None
                if l in clone_dst:
                    flds, other = clone_dst[l]
                    ok_self = sorted(flds) == [("self_layer", rhs)] and not other
            elif nm in ("fields_order", "asserts_checked"):
                fresh[nm] = org
    rep.ob(R1, "extend_object|self-layer", ok_self)
    if not ok_self:
        rep.violation(R1, "%s|self-layer" % ext.q, "the new self layer is not the clone of rhs.self_layer", ext.loc)
    _check_fresh_object(F, rep, R2, ext, fresh, body)
    # object_with_field_removed
    rem = F.fn("<%s>::object_with_field_removed" % PROGRAM)
    rep.fn(rem)
    rbody = rem.body
    oa = [l for l in range(2, rbody.argc + 1) if OBJ.rsplit("::", 1)[1] in rbody.local_ty(l)["s"]]
    seq, clone_dst, P2 = layer_sequence(F, rem, oa)
    got = [(op, sorted(flds), sorted(map(str, other))) for op, (flds, other) in seq]
    exp = [("push-clone", [("self_layer", oa[0])], []), ("extend-clones", [("super_layers", oa[0])], [])]
    ok = got == exp
    rep.ob(R1, "object_with_field_removed|layer-order", ok, {"contributions": [str(g) for g in got]})
    if not ok:
        rep.violation(R1, "%s|layer-order" % rem.q, "layers below the removal marker are built as %s, expected %s" % (got, exp), rem.loc)
    fresh = {}
    for bb, si, s in rbody.assigns():
        rv = s["rv"]
        if rv["k"] == "agg" and rv.get("adt") == OBJ:
            for nm, x in zip(rv["fn"], rv["xs"]):
                if nm in ("fields_order", "asserts_checked"):
                    fresh[nm] = P2.origins_op(x)
    _check_fresh_object(F, rep, R2, rem, fresh, rbody)
    # the removal marker depth = number of layers below it: Removed(object.super_layers.len() + 1)
    # (arithmetic on layer indexes is not decided)
    return R1, R2


def _check_fresh_object(F, rep, R2, fn, fresh, body):
    fo = fresh.get("fields_order")
    ok = fo is not None and all(o[0] == "call" and o[1] == "<core::cell::once::OnceCell>::new" for o in fo) and bool(fo)
    rep.ob(R2, "%s|fresh-fields_order" % fn.q, ok, {"origins": sorted(map(str, fo or []))})
    if not ok:
        rep.violation(R2, "%s|fields_order-shared" % fn.q, "the derived object's fields_order cache is not a fresh cell "
                      "(origins %s): the field list of the source object would be reused" % sorted(map(str, fo or [])), fn.loc)
    # asserts_checked = Cell::new(false)
    okc = False
    for bb, t in body.calls():
        if (callee_name(t) or "") == "<core::cell::Cell>::new":
            x = t["xs"][0]
            ty = body.ty(x["t"])["s"] if "t" in x else ""
            if ty == "bool":
                okc = x["k"] == "const" and x.get("v") == 0
    rep.ob(R2, "%s|asserts-unchecked" % fn.q, okc)
    if not okc:
        rep.violation(R2, "%s|asserts_checked" % fn.q, "the derived object does not start with asserts unchecked: "
                      "inherited assertions would be skipped", fn.loc)


def rule_r2_clones(F, rep, R2):
    cl = F.fn(CLONE_LAYER)
    rep.fn(cl)
    P = prov.Prov(F, cl.body)
    P.with_base = True
    lay = F.adt(LAYER)
    n = 0
    for bb, si, s in cl.body.assigns():
        rv = s["rv"]
        if rv["k"] == "agg" and rv.get("adt") == LAYER:
            n += 1
            for nm, x in zip(rv["fn"], rv["xs"]):
                org = P.origins_op(x)
                from_src = {o for o in org if o[0] in ("field", "arg")}
                if nm == "env":
                    ok = not from_src and any(o[0] == "call" and o[1] == "<core::cell::once::OnceCell>::new" for o in org)
                    rep.ob(R2, "clone_layer|fresh-env", ok, {"origins": sorted(map(str, org))})
                    if not ok:
                        rep.violation(R2, "%s|env-shared" % cl.q, "a cloned layer keeps the source layer's environment "
                                      "cell (origins %s): self/super would stay bound to the old object" % sorted(map(str, org)), cl.loc)
                elif nm in ("is_top", "locals", "base_env", "asserts"):
                    ok = any(o[0] == "field" and o[1] == LAYER and o[2] == nm for o in org)
                    rep.ob(R2, "clone_layer|copies-%s" % nm, ok)
                    if not ok:
                        rep.violation(R2, "%s|%s-not-copied" % (cl.q, nm), "cloned layer field %s does not come from the "
                                      "source layer (origins %s)" % (nm, sorted(map(str, org))), cl.loc)
                elif nm == "fields":
                    # built by mapping the field cloner over the source fields
                    names = {callee_name(t) or "" for _, t in cl.body.calls()}
                    clos = F.closures_of(cl)
                    uses = any(any((callee_name(t) or "") == CLONE_FIELD for _, t in c.body.calls()) for c in clos) or CLONE_FIELD in names
                    rep.ob(R2, "clone_layer|fields-via-clone_field", uses)
                    if not uses:
                        rep.violation(R2, "%s|fields" % cl.q, "cloned layer fields are not produced by extend_object_clone_field", cl.loc)
    if n != 1:
        rep.violation(R2, "%s|shape" % cl.q, "expected exactly one ObjectLayer construction in extend_object_clone_layer", cl.loc)
    # clone_field: thunk fresh iff the field has an expression
    cf = F.fn(CLONE_FIELD)
    rep.fn(cf)
    fd = F.adt(FDATA)
    fnames = [f["n"] for f in fd["variants"][0]["fields"]]
    expr_i = fnames.index("expr")
    Pf = prov.Prov(F, cf.body)
    for has_expr in ("Some", "None"):
        def after(w, bb, idx, s, env, has_expr=has_expr):
            rv = s["rv"]
            if rv["k"] == "discr" and rv.get("adt") == OPTION:
                pl = rv["p"]
                if prov.field_of(F, w.body, pl, FDATA) == "expr":
                    env[w.norm(env, pl)] = ("var", OPTION, has_expr)
                    env[w.norm(env, s["p"])] = w.discr_of_variant(OPTION, has_expr)
            if rv["k"] == "discr" and rv.get("adt") == FIELD:
                env[w.norm(env, rv["p"])] = ("var", FIELD, "Normal")
                env[w.norm(env, s["p"])] = w.discr_of_variant(FIELD, "Normal")

        def on_stmt(w, bb, idx, s, env):
            rv = s.get("rv")
            if s["k"] == "assign" and rv["k"] == "agg" and rv.get("adt") == FDATA:
                x = rv["xs"][rv["fn"].index("thunk")]
                # how was the thunk cell obtained on this path?
                v = None
                if x["k"] in ("copy", "move"):
                    v = env.get(w.norm(env, x))
                return ("thunk", v if v is not None else "?")
            return None

        def hook(w, bb, t, env, args):
            n = callee_name(t) or ""
            if n == "<core::cell::once::OnceCell>::new":
                return ("str", "fresh")
            if n.endswith("core::clone::Clone>::clone"):
                a = args[0]
                if isinstance(a, tuple) and a[0] == "ref":
                    return ("str", "clone-of:" + a[1].split(".")[-1])
            return None
        w = kwalk.Walker(F, cf.body, after_stmt=after, on_stmt=on_stmt, call_result=hook)
        outs = w.run(0, {})
        rep.states += w.states_explored
        res = set()
        for kind, marks, _ in outs:
            for m in marks:
                if m[0] == "thunk":
                    res.add(m[1][1] if isinstance(m[1], tuple) else m[1])
        thunk_i = fnames.index("thunk")
        exp = {"fresh"} if has_expr == "Some" else {"clone-of:%d" % thunk_i}
        ok = res == exp
        rep.ob(R2, "clone_field|expr=%s" % has_expr, ok, {"field_has_expr": has_expr, "thunk_cell": sorted(map(str, res))})
        if not ok:
            rep.violation(R2, "%s|thunk|expr=%s" % (cf.q, has_expr),
                          "cloning a field %s an expression yields thunk cell %s, expected %s (a shared thunk of an "
                          "expression field keeps the value computed for the old object)"
                          % ("with" if has_expr == "Some" else "without", sorted(map(str, res)), sorted(exp)), cf.loc)


FIELD_STATES = ["absent", "Default", "Hidden", "ForceVisible", "Removed"]


def rule_r3(F, rep):
    R = rep.rule("C07.R3", "visibility resolution: scanning layers from the top, a hidden field makes the name invisible, "
                 "a forced-visible one visible, a default one is remembered while deeper layers are consulted, a "
                 "removal marker skips the layers it covers; manifestation's field list uses the same rule and the "
                 "visible filter drops exactly hidden fields")
    hv = F.fn("<%s>::has_visible_field" % OBJ)
    rep.fn(hv)
    body = hv.body
    get_sites = [bb for bb, t in body.calls() if (callee_name(t) or "").endswith("HashMap>::get")]
    if len(get_sites) < 2:
        raise kwalk.WalkLimit("has_visible_field: expected self-layer and super-layer lookups")
    for site_i, site in enumerate(get_sites):
        for fs in FIELD_STATES:
            def hook(w, bb, t, env, args, fs=fs, site=site):
                n = callee_name(t) or ""
                dst = w.norm(env, t["dst"])
                if bb == site:
                    if fs == "absent":
                        return ("var", OPTION, "None")
                    env["%s@Some.0" % dst] = ("ref", "FLD")
                    if fs == "Removed":
                        env["FLD"] = ("var", FIELD, "Removed")
                    else:
                        env["FLD"] = ("var", FIELD, "Normal")
                        vi = [i for i, f in enumerate(F.adt(FDATA)["variants"][0]["fields"]) if f["n"] == "visibility"][0]
                        env["FLD@Normal.0.%d" % vi] = ("var", VIS, fs)
                    return ("var", OPTION, "Some")
                return None

            def on_term(w, bb, t, env, site=site):
                if t["k"] == "call":
                    n = callee_name(t) or ""
                    if n.endswith("AddAssign>::add_assign") or n.endswith("Add>::add"):
                        return ("skip-depth",)
                    if bb != site and (n.endswith("HashMap>::get") or n == "<[T]>::get") and env.get("#past"):
                        return kwalk.STOP
                if bb == site:
                    env["#past"] = 1
                return None

            def on_stmt(w, bb, idx, s, env):
                if s["k"] == "assign" and not s["p"]["p"] and w.body.local_ty(s["p"]["l"])["s"] == "bool" and \
                        s["rv"]["k"] == "use" and s["rv"]["x"].get("k") == "const" and env.get("#past") and s["p"]["l"] != 0:
                    nm = w.body.local_names().get(s["p"]["l"])
                    if nm is not None:
                        return ("set-flag", s["rv"]["x"].get("v"))
                return None
            w = kwalk.Walker(F, body, call_result=hook, on_term=on_term, on_stmt=on_stmt, want_ret=True)
            outs = w.run(site, {})
            rep.states += w.states_explored
            acts = set()
            for kind, marks, ret in outs:
                if kind.startswith("diverge"):
                    continue
                if kind == "return":
                    d = dict(ret or ())
                    acts.add(("return", d.get("0")))
                else:
                    a = []
                    if ("set-flag", 1) in marks:
                        a.append("found")
                    if ("skip-depth",) in marks:
                        a.append("skip")
                    acts.add(("continue", tuple(a)))
            # a return reached *after* continuing the scan (end of layers) shows up as return(None): fold into continue
            norm = set()
            for a in acts:
                if a[0] == "return" and not isinstance(a[1], int):
                    continue
                norm.add(a)
            exp = {"absent": {("continue", ())}, "Default": {("continue", ("found",))}, "Hidden": {("return", 0)},
                   "ForceVisible": {("return", 1)}, "Removed": {("continue", ("skip",))}}[fs]
            ok = norm == exp
            rep.ob(R, "has_visible_field|lookup%d|%s" % (site_i, fs), ok, {"lookup": site_i, "field_state": fs, "action": sorted(map(str, norm))})
            if not ok:
                rep.violation(R, "%s|lookup%d|%s" % (hv.q, site_i, fs), "has_visible_field, layer lookup #%d, field state %s: "
                              "action %s, visibility rule says %s" % (site_i, fs, sorted(map(str, norm)), sorted(map(str, exp))), hv.loc)
    # visible filter: visibility != Hidden
    gv = F.fn("<%s>::get_visible_fields_order" % OBJ)
    clos = F.closures_of(gv)
    ok_all = False
    for c in clos:
        res = {}
        for v in F.variants(VIS):
            def after(w, bb, idx, s, env, v=v):
                rv = s["rv"]
                if rv["k"] == "discr" and rv.get("adt") == VIS:
                    env[w.norm(env, rv["p"])] = ("var", VIS, v)
                    env[w.norm(env, s["p"])] = w.discr_of_variant(VIS, v)
                dt = w.body.ty(s["p"]["t"])
                if dt["k"] == "adt" and dt["d"] == VIS and rv["k"] == "use" and rv["x"]["k"] in ("copy", "move") \
                        and w.norm(env, s["p"]) not in env:
                    env[w.norm(env, s["p"])] = ("var", VIS, v)

            def hook(w, bb, t, env, args, v=v):
                n = callee_name(t) or ""
                if n.endswith("core::cmp::PartialEq>::ne") or n.endswith("core::cmp::PartialEq>::eq") or \
                        n in ("core::cmp::PartialEq::ne", "core::cmp::PartialEq::eq"):
                    # comparing the field's visibility with a constant visibility
                    vals = []
                    for a in args[:2]:
                        if isinstance(a, tuple) and a[0] == "ref":
                            a = env.get(a[1])
                        vals.append(a)
                    other = [x for x in vals if isinstance(x, tuple) and x[0] == "var" and x[1] == VIS]
                    if len(other) == 2:
                        eq = other[0][2] == other[1][2]
                        return int(eq) if n.endswith("::eq") else int(not eq)
                if n == "<bool>::then_some":
                    if isinstance(args[0], int):
                        return ("var", OPTION, "Some" if args[0] else "None")
                return None
            w = kwalk.Walker(F, c.body, after_stmt=after, call_result=hook, want_ret=True)
            outs = w.run(0, {})
            rep.states += w.states_explored
            r = set()
            for kind, marks, ret in outs:
                d = dict(ret or ())
                top = d.get("0")
                r.add(top[2] if isinstance(top, tuple) and top[0] == "var" else "?")
            res[v] = r
        if res.get("Hidden") == {"None"} and res.get("Default") == {"Some"} and res.get("ForceVisible") == {"Some"}:
            ok_all = True
        detail = {k: sorted(v) for k, v in res.items()}
    rep.ob(R, "visible-filter", ok_all, {"filter": detail if clos else None})
    if not ok_all:
        rep.violation(R, "%s|filter" % gv.q, "the visible-field filter keeps/drops %s; it must drop exactly Hidden" % (detail if clos else "?"), gv.loc)
    # field_to_state
    fts = F.fn_opt("<%s>::get_fields_order::field_to_state" % OBJ)
    if fts is not None:
        rep.fn(fts)
        for fs in ("Normal", "Removed"):
            w = kwalk.Walker(F, fts.body, want_ret=True)
            outs = w.run(0, {"1.*": ("var", FIELD, fs)})
            rep.states += w.states_explored
            r = set()
            for kind, marks, ret in outs:
                d = dict(ret or ())
                top = d.get("0")
                r.add(top[2] if isinstance(top, tuple) else "?")
            ok = r == {fs}
            rep.ob(R, "field_to_state|%s" % fs, ok)
            if not ok:
                rep.violation(R, "%s|%s" % (fts.q, fs), "field_to_state maps %s to %s" % (fs, sorted(r)), fts.loc)


def run(F, rep, tier):
    R1, R2 = rule_r1_r2_objects(F, rep)
    rule_r2_clones(F, rep, R2)
    rule_r3(F, rep)
    rep.assume("layer-index arithmetic (layer_i + depth + 1, super_layers.len() + 1), value-level associativity and "
               "self/super/$ resolution at nesting are not decided")
    rep.trust("Jsonnet specification: field visibility of inherited fields (the right-most explicit visibility wins; default inherits)")
    return EXPLANATION
