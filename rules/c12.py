"""C12 — the command-line tool's exit status, streams and output modes form one contract.

Decided clauses (byte-exact relations between modes and OS-level stream behaviour are NOT decided):
  R1  exit 0 <=> the complete output was written: on every success path exactly one final write
      (stdout or the -o file) happens after everything has been computed; stdout has a single writer
  R2  I/O failures are exit-1 outcomes: no io::Result is dropped in the CLI / front-end
  R3  failure paths write nothing: when any load / evaluation / manifestation step fails, no output is
      written afterwards and the run ends in RunError::Generic
  R4  usage errors are exit 2: RunError::Usage has exactly its two sources
  R5  mode relations of value_to_repr: the trailing newline depends only on --no-trailing-newline;
      -y wraps every item between `---` and a final `...`; -S returns the string itself
"""
from . import kwalk, cg, prov, cfg
from . import facts
from .facts import callee_name

EXPLANATION = (
    "Static analysis of the CLI's MIR: an all-paths walk of main_inner with ordered effect marks (compute "
    "steps, file/stdout writes, returned variant), once unconstrained and once per fallible step forced to "
    "fail; who-may-call for stdout; result-inspection check for every io::Result; decision table of "
    "value_to_repr over the mode flags."
)

SESSION = "rsjsonnet_front::session::Session"
COMPUTE = ("%s>::eval_value" % SESSION, "%s>::eval_call" % SESSION, "%s>::manifest_json" % SESSION,
           "%s>::load_real_file" % SESSION, "%s>::load_virt_file" % SESSION, "rsjsonnet::value_to_repr",
           "rsjsonnet::ext_code_to_thunk", "rsjsonnet::ext_code_file_to_thunk", "rsjsonnet::ext_str_to_thunk",
           "rsjsonnet::ext_str_file_to_thunk")
WRITES = ("std::fs::write", "<std::io::stdio::Stdout as std::io::Write>::write_all", "std::io::Write::write_all",
          "<std::fs::File as std::io::Write>::write_all", "<std::io::stdio::Stdout as std::io::Write>::write")
CLI = "rsjsonnet::cli::Cli"


def is_compute(n):
    return any(n.endswith(c) or n == c for c in COMPUTE)


def forced_seen(d):
    return d.get("#forced") is not None or True


_LOOPS = {}


def _loop_blocks_of(body):
    k = id(body)
    if k not in _LOOPS:
        succ = body.succ_map()
        pred = body.pred_map()
        lb = set()
        for tail, head in cfg.back_edges(succ, 0):
            lb |= cfg.natural_loop(succ, pred, tail, head)
        _LOOPS[k] = lb
    return _LOOPS[k]


def walk_main(F, rep, fn, force_fail_bb=None):
    body = fn.body
    succ = body.succ_map()
    pred = body.pred_map()
    loop_blocks = set()
    for tail, head in cfg.back_edges(succ, 0):
        loop_blocks |= cfg.natural_loop(succ, pred, tail, head)

    def on_term(w, bb, t, env):
        if t["k"] != "call":
            return None
        n = callee_name(t) or ""
        if n in WRITES:
            # a write inside a loop of the function it stands in (main_inner or a helper introduced later) is a per-file write
            kind = "file" if int(bb) in _loop_blocks_of(w.body) else "final"
            if "#wrote" not in env:
                env["#wrote"] = ("w", kind, bb)
            if env.get("#forced") is not None:
                return ("W-after-fail", kind, bb)
            return ("W", kind, bb)
        if is_compute(n):
            wr = env.get("#wrote")
            if wr is not None:
                return ("CAW", n.rsplit("::", 1)[1], wr[1], wr[2])
            return ("C", "compute", 0)
        return None

    def hook(w, bb, t, env, args):
        if force_fail_bb is not None and bb == force_fail_bb:
            env["#forced"] = ("f",)
            dty = w.body.ty(t["dst"]["t"])
            if dty["k"] == "adt" and dty["d"] == "core::option::Option":
                return ("var", "core::option::Option", "None")
            if dty["k"] == "adt" and dty["d"] == "core::result::Result":
                return ("var", "core::result::Result", "Err")
        return None
    w = kwalk.Walker(F, body, on_term=on_term, call_result=hook, ordered_marks=True, dedupe_marks=True, want_ret=True,
                     refine=False, keep_ints=False, max_marks=40, max_states=3000000, ret_prefixes=("0", "#forced"))
    outs = w.run(0, {})
    rep.states += w.states_explored
    res = []
    for kind, marks, ret in outs:
        d = dict(ret or ())
        top = d.get("0")
        res.append((kind, top[2] if isinstance(top, tuple) and top[0] == "var" else None, marks, d))
    return res


def rule_r1_r3(F, rep):
    R1 = rep.rule("C12.R1", "the tool returns success only after exactly one final write of the complete output (stdout "
                  "or the -o file), nothing is computed after any write, and stdout has a single writer")
    R3 = rep.rule("C12.R3", "when loading, evaluation or manifestation fails, nothing is written afterwards and the run ends "
                  "in the generic (exit 1) error")
    fn = F.fn("rsjsonnet::main_inner")
    rep.fn(fn)
    outs = walk_main(F, rep, fn)
    n_ok = 0
    bad_after = {}
    for kind, top, marks, d in outs:
        if kind != "return":
            continue
        seq = [(m[0], m[1], m[2]) for m in marks if m[0] != "CAW"]
        # nothing computed after a write
        for m in marks:
            if m[0] == "CAW":
                bad_after[(m[2], m[3], m[1])] = (("W", m[2], m[3]), m)
        if top == "Ok":
            n_ok += 1
            finals = [m for m in seq if m[0] == "W" and m[1] == "final"]
            ok = len(finals) == 1 and seq[-1][0] == "W" and seq[-1][1] == "final"
            rep.ob(R1, "ok-path|%s" % "/".join("%s:%s" % (m[0], m[1]) for m in seq), ok)
            if not ok:
                rep.violation(R1, "main_inner|success-without-final-write", "a success path of main_inner has effect sequence %s: "
                              "it must end with exactly one final write (stdout or -o)" % [(m[0], m[1]) for m in seq], fn.loc)
    for (wk, wbb, cname), (wm, cm) in sorted(bad_after.items()):
        site = fn.body.span(fn.body.blocks[wbb]["t"]["sp"])
        rep.ob(R1, "compute-after-write|%s|%s" % (wk, cname), False, {"write_site": site, "then": cname})
        rep.violation(R1, "main_inner|compute-after-write|%s|%s" % (wk, cname),
                      "main_inner writes an output %s (at %s) and afterwards still runs %s, which can fail: the run then exits 1 "
                      "after part of the manifestation has already been written" % ("file" if wk == "file" else "stream", site, cname), site)
    rep.floor(R1, n_ok, 4, "success paths of main_inner")
    # single stdout writer in the three crates
    sites = []
    for f2 in F.fn_list:
        for bb, t in f2.body.calls():
            n = callee_name(t) or ""
            if n in ("std::io::stdio::stdout", "std::io::stdio::_print", "std::io::stdout"):
                sites.append((f2, bb, n, t))
    sites = cg.attribute(F, sites)
    ok = len(sites) == 1 and sites[0][0].q == fn.q
    rep.ob(R1, "stdout|single-writer", ok, {"sites": [(s[0].q, s[2]) for s in sites]})
    if not ok:
        for f2, bb, n, t in sites:
            if f2.q != fn.q or n.endswith("_print"):
                rep.violation(R1, "%s|stdout-writer" % f2.q, "%s writes to stdout (%s): output is no longer produced by the "
                              "single final write" % (f2.q, n), f2.body.span(t["sp"]))
        if not sites:
            rep.violation(R1, "main_inner|no-stdout", "no stdout writer found (anchor)")
    # R3: force each fallible compute step to fail
    comp_sites = [(bb, callee_name(t)) for bb, t in fn.body.calls() if is_compute(callee_name(t) or "")]
    for bb, n in comp_sites:
        res = walk_main(F, rep, fn, force_fail_bb=bb)
        okp = True
        why = None
        reached = False
        for kind, top, marks, d in res:
            if kind != "return":
                continue
            seq = list(marks)
            if d.get("#forced") is None:
                continue
            reached = True
            if any(m[0] == "W-after-fail" for m in seq):
                okp = False
                why = "a write happens after the failed step"
            if top != "Err":
                okp = False
                why = "the run still returns success"
            ev = d.get("0@Err.0")
            if isinstance(ev, tuple) and ev[0] == "var" and ev[2] != "Generic":
                okp = False
                why = "the failure is mapped to RunError::%s" % ev[2]
        site = fn.body.span(fn.body.blocks[bb]["t"]["sp"])
        rep.ob(R3, "fail|%s@%s" % (n.rsplit("::", 1)[1], site), okp and reached, {"step": n.rsplit("::", 1)[1], "site": site})
        if not (okp and reached):
            rep.violation(R3, "main_inner|fail|%s" % n.rsplit("::", 1)[1], "when %s (at %s) fails: %s" % (n.rsplit("::", 1)[1], site, why or "path not found"), site)
    rep.floor(R3, len(comp_sites), 10, "fallible steps in main_inner")


def rule_r2(F, rep):
    R = rep.rule("C12.R2", "every I/O operation of the CLI and the front-end has its io::Result inspected (matched, "
                 "propagated or converted into a reported failure); none is silently dropped")
    n = 0
    for fn in F.fn_list:
        if fn.crate.name not in ("rsjsonnet", "rsjsonnet_front"):
            continue
        if "::print::" in fn.q or fn.mac:
            continue
        body = fn.body
        for bb, t in body.calls():
            dty = body.ty(t["dst"]["t"])
            if not (dty["k"] == "adt" and dty["d"] == "core::result::Result" and "std::io::Error" in dty["s"]):
                continue
            n += 1
            dl = t["dst"]["l"]
            used = "returned" if dl == 0 else None
            for b2, si, s in body.assigns():
                rv = s["rv"]
                if rv["k"] == "discr" and rv["p"]["l"] == dl:
                    used = "matched"
                if rv["k"] == "use" and rv["x"].get("l") == dl and rv["x"]["k"] in ("copy", "move"):
                    used = used or "moved"
            for b2, t2 in body.calls():
                for x in t2["xs"]:
                    if x.get("l") == dl and x["k"] in ("copy", "move"):
                        n2 = callee_name(t2) or ""
                        if n2 == "<core::result::Result>::ok" or n2.endswith("mem::drop"):
                            used = "discarded:" + n2
                        else:
                            used = used or ("passed:" + n2.rsplit("::", 1)[1])
            ok = used is not None and not str(used).startswith("discarded")
            rep.ob(R, "%s|%s@bb%d" % (fn.q, (callee_name(t) or "?").rsplit("::", 1)[1], bb), ok,
                   {"fn": fn.q, "op": callee_name(t), "result": used} if n < 4 or not ok else None)
            if not ok:
                rep.violation(R, "%s|io-result-dropped|%s" % (fn.q, (callee_name(t) or "?").rsplit("::", 1)[1]),
                              "the io::Result of %s is %s in %s: an I/O failure would not become an exit-1 outcome"
                              % (callee_name(t), used or "never inspected", fn.q), body.span(t["sp"]))
    rep.floor(R, n, 5, "io::Result producing call sites")


def rule_r2b(F, rep):
    R = rep.rule("C12.R2b", "what is written to stdout is flushed, and the flush result handled, before the tool reports "
                 "success: std's Stdout is line-buffered, so output without a trailing newline stays in the buffer after "
                 "write_all and a write failure (full device, closed pipe) would otherwise only happen in the ignored flush "
                 "at process exit — exit status 0 with nothing written")
    from . import cfg as _cfg
    STDOUT_W = ("<std::io::stdio::Stdout as std::io::Write>::write_all", "<std::io::stdio::Stdout as std::io::Write>::write",
                "<std::io::stdio::StdoutLock as std::io::Write>::write_all", "<std::io::stdio::StdoutLock as std::io::Write>::write")
    FLUSH = ("<std::io::stdio::Stdout as std::io::Write>::flush", "<std::io::stdio::StdoutLock as std::io::Write>::flush")

    def calls_flush(fn):
        return any((callee_name(t) or "") in FLUSH for _, t in fn.body.calls())
    n = 0
    for fn in F.fn_list:
        if fn.crate.name not in ("rsjsonnet", "rsjsonnet_front") or fn.mac:
            continue
        body = fn.body
        wsites = [bb for bb, t in body.calls() if (callee_name(t) or "") in STDOUT_W]
        if not wsites:
            continue
        flush_blocks = set()
        for bb, t in body.calls():
            nme = callee_name(t) or ""
            if nme in FLUSH:
                flush_blocks.add(bb)
            # a closure handed to a combinator (`write_all(..).and_then(|()| out.flush())`)
            for x in t["xs"]:
                if "t" in x:
                    ty = body.ty(x["t"])
                    if ty["k"] == "closure":
                        c = F.fn_opt(ty["d"])
                        if c is not None and calls_flush(c):
                            flush_blocks.add(bb)
        succ = body.succ_map()
        for wb in wsites:
            n += 1
            t = body.blocks[wb]["t"]
            start = [t["t"]] if t["t"] is not None else []
            seen = _cfg.reachable(succ, start, blocked_nodes=list(flush_blocks))
            rets = [b for b in seen if body.blocks[b]["t"]["k"] == "return" and not body.blocks[b]["cleanup"]]
            # returns reached without a flush: acceptable only if that return is an error return (the write failed)
            bad = []
            for rb in rets:
                # is there a path write -> rb (avoiding flush) that does not construct an Err?
                errb = {b for b in seen for st in body.blocks[b]["s"]
                        if st["k"] == "assign" and st["rv"]["k"] == "agg" and st["rv"].get("adt") == "core::result::Result"
                        and st["rv"]["v"] == "Err" and not st["p"]["p"] and st["p"]["l"] == 0}
                seen2 = _cfg.reachable(succ, start, blocked_nodes=list(flush_blocks | errb))
                if rb in seen2:
                    bad.append(rb)
            ok = not bad
            rep.ob(R, "%s|stdout-write@%s" % (fn.q, body.span(t["sp"]).rsplit("/", 1)[-1].split(":")[0]), ok,
                   {"fn": fn.q, "write_site": body.span(t["sp"]), "flush_sites": len(flush_blocks)})
            if not ok:
                rep.violation(R, "%s|stdout-not-flushed" % fn.q,
                              "%s writes the output to stdout and can return success without flushing it: with "
                              "--no-trailing-newline (or any output whose tail has no newline) the data is still in std's line "
                              "buffer, so `> /dev/full` exits 0 although nothing was written" % fn.q, body.span(t["sp"]))
    rep.floor(R, n, 1, "stdout write sites")


def rule_r2c(F, rep):
    R = rep.rule("C12.R2c", "a closed standard output is an exit-1 outcome: the output is written through a handle on which "
                 "a closed descriptor is an error. std::io::Stdout is not such a handle — the standard library maps EBADF on "
                 "fds 0-2 to success (`handle_ebadf`), so `rsjsonnet ... >&-` writes nothing and still exits 0")
    STDOUT_W = ("<std::io::stdio::Stdout as std::io::Write>::write_all", "<std::io::stdio::Stdout as std::io::Write>::write",
                "<std::io::stdio::StdoutLock as std::io::Write>::write_all", "<std::io::stdio::StdoutLock as std::io::Write>::write")
    n = 0
    for fn in F.fn_list:
        if fn.crate.name != "rsjsonnet" or fn.mac:
            continue
        for bb, t in fn.body.calls():
            if (callee_name(t) or "") in STDOUT_W:
                n += 1
                # a helper that did not exist on the reference tree is reported under the known function(s) it serves
                owners = sorted({o[0].q for o in cg.attribute(F, [(fn, bb)])}) or [fn.q]
                for oq in owners:
                    rep.ob(R, "%s|stdout-handle" % oq, False, {"fn": fn.q, "handle": "std::io::Stdout", "site": fn.body.span(t["sp"])})
                    rep.violation(R, "%s|stdout|closed-descriptor-is-success" % oq,
                                  "%s writes the output through std::io::Stdout, which reports success when the descriptor is "
                                  "closed: `rsjsonnet -e 1 >&-` exits 0 with no output" % fn.q, fn.body.span(t["sp"]))
    rep.trust("std::io::Stdout/Stderr treat EBADF as success (library/std/src/io/stdio.rs, handle_ebadf)")


def rule_r6(F, rep):
    R = rep.rule("C12.R6", "`--ext-str` / `--ext-code` / `--tla-*` arguments are split at the first `=`: with an `=` the value is "
                 "the text after it — also when that text is empty — and only an argument without `=` falls back to the "
                 "environment variable of that name")
    fn = None
    for f in F.fn_list:
        if f.crate.name == "rsjsonnet" and f.q.endswith("VarOptVal as core::convert::From>::from"):
            fn = f
    if fn is None:
        cands = [f for f in F.fn_list if f.crate.name == "rsjsonnet" and "VarOptVal" in f.q and f.q.endswith("::from")]
        fn = cands[0] if cands else None
    if fn is None:
        rep.violation(R, "anchor|VarOptVal::from", "the var[=val] argument parser was not found (anchor)")
        return
    rep.fn(fn)
    VOV = [q for q in F.adts if q.endswith("cli::VarOptVal")][0]
    fields = [f["n"] for f in F.adt(VOV)["variants"][0]["fields"]]
    vi = fields.index("val")
    for has_eq in (0, 1):
        def hook(w, bb, t, env, args, has_eq=has_eq):
            n = callee_name(t) or ""
            if n.endswith("<str>::split_once") or n == "core::str::<impl str>::split_once":
                return ("var", "core::option::Option", "Some" if has_eq else "None")
            return None

        def on_stmt(w, bb, idx, st, env):
            if st["k"] == "assign" and st["rv"]["k"] == "agg" and st["rv"]["ak"] == "adt" and st["rv"]["adt"] == VOV:
                v = w.val(env, st["rv"]["xs"][vi])
                return ("val", v[2] if isinstance(v, tuple) and v[0] == "var" else "?")
            return None
        w = kwalk.Walker(F, fn.body, call_result=hook, on_stmt=on_stmt, want_ret=False)
        outs = w.run(0, {})
        rep.states += w.states_explored
        res = set()
        for kind, marks, _ in outs:
            if kind.startswith("diverge"):
                continue
            for m in marks:
                if m[0] == "val":
                    res.add(m[1])
        exp = {"Some"} if has_eq else {"None"}
        ok = res == exp
        rep.ob(R, "VarOptVal|has_eq=%d" % has_eq, ok, {"argument_contains_=": bool(has_eq), "value": sorted(res)})
        if not ok:
            rep.violation(R, "VarOptVal::from|has_eq=%d" % has_eq, "an argument %s `=` yields value %s, expected %s (an explicit empty "
                          "value must not fall back to the environment)" % ("with" if has_eq else "without", sorted(res), sorted(exp)), fn.loc)


def rule_r4(F, rep):
    R = rep.rule("C12.R4", "usage errors (exit 2) come only from argument parsing and from the -S / -y conflict")
    sites = cg.who_constructs(F, "rsjsonnet::RunError", "Usage", crates=("rsjsonnet",))
    ok = len(sites) == 2 and all(f.q == "rsjsonnet::main_inner" for f, _, _, _ in sites)
    rep.ob(R, "usage-sources", ok, {"sites": [f.body.span(s["sp"]) for f, _, _, s in sites]})
    if not ok:
        rep.violation(R, "RunError::Usage|sources", "RunError::Usage is constructed at %d sites (%s); expected the clap failure "
                      "and the -S/-y conflict only" % (len(sites), [f.q for f, _, _, _ in sites]))


PLAIN_PARAM_ADTS = (CLI, SESSION, "rsjsonnet_lang::program::Value")


def _param_adt(body, l):
    ty = body.local_ty(l)
    while ty["k"] in ("ref", "ptr"):
        ty = body.ty(ty["t"])
    return ty.get("d") if ty["k"] == "adt" else None


def _flag_hook(F, flags):
    """every read of one of the three mode flags out of a `Cli` yields the chosen value — in whichever function the read stands
    (helpers that did not exist on the reference tree are walked in place by KWALK)"""
    def after(w, bb, idx, s, env):
        rv = s["rv"]
        if rv["k"] == "use" and rv["x"]["k"] in ("copy", "move"):
            f = prov.field_write(F, w.body, rv["x"], CLI)
            if f in flags:
                env[w.norm(env, s["p"])] = flags[f]
    return after


def _is_call_to(t, q):
    return t["k"] == "call" and t["f"].get("k") == "def" and (t["f"].get("r") == q or t["f"].get("d") == q)


def _operand_locals(rv_or_term):
    out = []
    for k in ("x", "a", "b"):
        o = rv_or_term.get(k)
        if isinstance(o, dict) and o.get("k") in ("copy", "move"):
            out.append(o["l"])
    for o in rv_or_term.get("xs", ()):
        if isinstance(o, dict) and o.get("k") in ("copy", "move"):
            out.append(o["l"])
    p = rv_or_term.get("p")
    if isinstance(p, dict) and "l" in p:
        out.append(p["l"])
    return out


def mode_slice(F, body, ops, flags):
    """locals of `body` whose values can matter for the operands `ops` under fixed flags: everything the operands are computed
    from (backwards over definitions) and everything computed from a flag read (forwards; these decide branches)"""
    P = prov.Prov(F, body)
    keep = set()
    work = [x["l"] for x in ops if x.get("k") in ("copy", "move")]
    while work:
        l = work.pop()
        if l in keep:
            continue
        keep.add(l)
        for d in P.defs.get(l, []):
            work += _operand_locals(d[3] if d[0] == "call" else d[3]["rv"])
    fwd = set()
    for bb, si, s in body.assigns():
        rv = s["rv"]
        if rv["k"] == "use" and rv["x"]["k"] in ("copy", "move") and prov.field_write(F, body, rv["x"], CLI) in flags:
            fwd.add(s["p"]["l"])
    changed = True
    while changed:
        changed = False
        for bb, si, s in body.assigns():
            if s["p"]["l"] not in fwd and any(l in fwd for l in _operand_locals(s["rv"])):
                fwd.add(s["p"]["l"])
                changed = True
    return keep | fwd


def mode_arguments(F, rep, vfn, flags, want):
    """What value_to_repr receives in its parameters `want` (those that are not the Cli / the session / the value) when the
    command line has `flags`: the callers are walked from their entry with the flag reads fixed, up to each call of
    value_to_repr; only the locals of `mode_slice` are tracked (everything else is explored both ways).  Returns a set of
    environments (tuples of (place key, value)) for the callee's frame."""
    sites = cg.who_calls(F, vfn.q, crates=("rsjsonnet",), raw=True)
    owners = set()
    for f, _, _ in sites:
        owners |= cg.known_owners(F, f.q)
    found = set()
    for oq in sorted(owners):
        g = F.fn_opt(oq)
        if g is None or g.body is None:
            continue
        rep.fn(g)
        own_sites = [t for _, t in g.body.calls() if _is_call_to(t, vfn.q)]
        keep = mode_slice(F, g.body, [t["xs"][i - 1] for t in own_sites for i in want], flags) if own_sites else None
        flag_hook = _flag_hook(F, flags)

        def prune(w, env, keep=keep):
            # in the owner's own frame (not inside a helper walked in place) forget what is outside the slice
            if keep is None or w.pre:
                return
            for k in [k for k in env if k[:1].isdigit()]:
                j = 0
                while j < len(k) and k[j].isdigit():
                    j += 1
                if int(k[:j]) not in keep:
                    del env[k]

        def after(w, bb, idx, s, env):
            flag_hook(w, bb, idx, s, env)
            prune(w, env)

        def on_edge(w, bb, nb, env):
            prune(w, env)
            return None

        def on_term(w, bb, t, env):
            if not _is_call_to(t, vfn.q):
                return None
            snap = {}

            def take(dst, src, depth=0):
                for k, v in list(env.items()):
                    if kwalk._prefix_match(k, src):
                        k2 = dst + k[len(src):]
                        if isinstance(v, tuple) and v and v[0] == "ref":
                            # a reference into the caller's frame: carry the referent along under a name of its own
                            if depth < 3:
                                name = "caller:%s" % v[1]
                                take(name, v[1], depth + 1)
                                snap[k2] = ("ref", name)
                        else:
                            snap[k2] = v
            for i in want:
                x = t["xs"][i - 1]
                if x["k"] in ("copy", "move"):
                    take(str(i), w.norm(env, x))
                else:
                    v = w.val(env, x)
                    if v is not None:
                        snap[str(i)] = v
            return (kwalk.STOP, ("args", tuple(sorted(snap.items(), key=lambda kv: kv[0]))))
        w = kwalk.Walker(F, g.body, after_stmt=after, on_edge=on_edge, on_term=on_term, max_states=600000)
        outs = w.run(0, {})
        rep.states += w.states_explored
        for kind, marks, _ in outs:
            for m in marks:
                if isinstance(m, tuple) and m and m[0] == "args":
                    found.add(m[1])
    if not found:
        raise kwalk.WalkLimit("no call of value_to_repr was reached from %s with the mode flags fixed" % sorted(owners))
    for snap in found:
        have = {k for k, _ in snap}
        for i in want:
            if not any(kwalk._prefix_match(k, str(i)) for k in have):
                raise kwalk.WalkLimit("parameter %d of value_to_repr does not resolve to a value determined by the mode flags "
                                      "at its call sites" % i)
    return found


def rule_r5(F, rep):
    R = rep.rule("C12.R5", "value_to_repr: the final newline is appended exactly when --no-trailing-newline is absent and "
                 "nothing else depends on that flag; -y emits `---`, the item and a line break per item and closes with "
                 "`...`; -S returns the string unchanged")
    fn = F.fn("rsjsonnet::value_to_repr")
    rep.fn(fn)
    body = fn.body
    F.adt(CLI)
    # parameters other than the Cli itself, the session and the value carry (a digest of) the mode: their values are taken
    # from the call sites, as a function of the flags
    carriers = [l for l in range(1, body.argc + 1) if _param_adt(body, l) not in PLAIN_PARAM_ADTS]
    for string in (0, 1):
        for yaml in (0, 1):
            for ntn in (0, 1):
                if string and yaml:
                    continue
                flags = {"string": string, "yaml_stream": yaml, "no_trailing_newline": ntn}
                starts = [()]
                if carriers:
                    starts = sorted(mode_arguments(F, rep, fn, flags, carriers), key=repr)

                def on_term(w, bb, t, env):
                    if t["k"] == "call":
                        n = callee_name(t) or ""
                        if n == "<alloc::string::String>::push":
                            v = w.val(env, t["xs"][1])
                            return ("push", v)
                        if n == "<alloc::string::String>::push_str":
                            v = w.val(env, t["xs"][1])
                            return ("push_str", v[1] if isinstance(v, tuple) and v[0] == "str" else "<dyn>")
                        if n.endswith("manifest_json"):
                            return ("manifest",)
                        if n.endswith("Value>::to_string"):
                            return ("to_string",)
                    return None
                oks = set()
                for start in starts:
                    w = kwalk.Walker(F, body, after_stmt=_flag_hook(F, flags), on_term=on_term, ordered_marks=True,
                                     dedupe_marks=True, want_ret=True)
                    outs = w.run(0, dict(start))
                    rep.states += w.states_explored
                    for kind, marks, ret in outs:
                        d = dict(ret or ())
                        top = d.get("0")
                        if kind == "return" and isinstance(top, tuple) and top[2] == "Ok":
                            oks.add(tuple(marks))
                if string:
                    exp = {(("to_string",),) if ntn else (("to_string",), ("push", 10))}
                elif yaml:
                    tail = ("push_str", "...") if ntn else ("push_str", "...\n")
                    full = (("manifest",), ("push_str", "---\n"), ("push_str", "<dyn>"), ("push", 10), tail)

                    def subseq(o):
                        it = iter(full)
                        return all(any(x == y for y in it) for x in o)
                    # loop bounds and emptiness tests are not tracked: every success path must be a
                    # sub-sequence of the full per-item sequence, and the full sequence must exist
                    ok = full in oks and all(subseq(o) for o in oks)
                    rep.ob(R, "mode|yaml|ntn=%d" % ntn, ok, {"flags": flags, "success_paths": sorted(map(str, oks))})
                    if not ok:
                        rep.violation(R, "value_to_repr|yaml|ntn=%d" % ntn, "YAML stream mode with no_trailing_newline=%d builds %s"
                                      % (ntn, sorted(map(str, oks))), fn.loc)
                    continue
                else:
                    exp = {(("manifest",),) if ntn else (("manifest",), ("push", 10))}
                ok = oks == exp
                rep.ob(R, "mode|S=%d|y=%d|ntn=%d" % (string, yaml, ntn), ok, {"flags": flags, "success_paths": sorted(map(str, oks))})
                if not ok:
                    rep.violation(R, "value_to_repr|S=%d|ntn=%d" % (string, ntn), "mode string=%d no_trailing_newline=%d builds %s, expected %s"
                                  % (string, ntn, sorted(map(str, oks)), sorted(map(str, exp))), fn.loc)


def rule_r7(F, rep, rid="C12.R7"):
    """The CLI evaluates in two runs: the root value is forced deeply with the import callbacks available, the text is built
    afterwards without them.  That is only sound when the deep pass skips nothing manifestation will read."""
    from . import kwalk, chartab
    from .facts import callee_name
    R = rep.rule(rid, "the deep-forcing pass (State::DeepValue) descends into every array and object: ValueData::might_need_deep "
                 "answers true for Array and Object whatever else is known about the value, and a thunk that is not Done is "
                 "always forced — otherwise a pending field is first evaluated while the text is built, where imports have "
                 "no callbacks (panic) and failures are reported after output has started")
    VD = "rsjsonnet_lang::program::data::ValueData"
    TS = "rsjsonnet_lang::program::data::ThunkState"
    fn = F.fn("<%s>::might_need_deep" % VD)
    rep.fn(fn)
    variants = [v["n"] for v in F.adt(VD)["variants"]]
    for want in ("Array", "Object"):
        if want not in variants:
            raise facts.AnchorMissing("ValueData::%s" % want)
    n = 0
    for v in variants:
        w = kwalk.Walker(F, fn.body, want_ret=True,
                         on_term=lambda w, bb, t, env: ("call", callee_name(t) or "?") if t["k"] == "call" else None)
        outs = w.run(0, {"1": ("ref", "self"), "self": ("var", VD, v)})
        rep.states += w.states_explored
        rets = set()
        for o in outs:
            if o[0] != "return":
                rets.add("diverge")
                continue
            r = chartab.ret_bool(o)
            calls = sorted(m[1] for m in o[1] if isinstance(m, tuple) and m and m[0] == "call")
            rets.add((r, tuple(calls)))
        n += 1
        if v in ("Array", "Object"):
            bad = [x for x in rets if x == "diverge" or (x[0] != 1 and not any(c.endswith("::is_empty") or c.endswith("::len") for c in x[1]))]
            ok = not bad
            rep.ob(R, "might_need_deep|%s" % v, ok, {"variant": v, "returns": sorted(map(str, rets))})
            if not ok:
                rep.violation(R, "%s|%s|may-skip" % (fn.q, v), "ValueData::might_need_deep can answer false for an %s (%s): the "
                              "deep pass then leaves its pending items to be evaluated during manifestation"
                              % (v, sorted(map(str, bad))), fn.loc)
        else:
            rep.ob(R, "might_need_deep|%s" % v, True, None)
    # the thunk-level wrapper inside Evaluator::run
    wr = [f for f in F.fn_list if f.q.endswith("::run::might_need_deep") and "Evaluator" in f.q]
    if len(wr) != 1:
        raise facts.AnchorMissing("Evaluator::run::might_need_deep (found %d)" % len(wr))
    wr = wr[0]
    rep.fn(wr)
    for v in [x["n"] for x in F.adt(TS)["variants"]]:
        # `thunk.state()` returns a guard / reference to the state: model its result as a reference to a tracked place
        def cres(w, bb, t, env, args, v=v):
            nm = callee_name(t) or ""
            dty = w.body.ty(t["dst"]["t"])["s"] if "t" in t["dst"] else ""
            if nm.endswith("::state") or ("ThunkState" in dty and (nm.endswith("RefCell>::borrow") or dty.startswith("&") or "Ref<" in dty)):
                # `thunk.state()` / `self.state.borrow()`: a guard on the thunk's state
                env["st"] = ("var", TS, v)
                return ("ref", "st")
            if nm.endswith("::deref") or nm.endswith("Deref::deref"):
                a = args[0] if args else None
                if isinstance(a, tuple) and a and a[0] == "ref" and isinstance(env.get(a[1]), tuple) and env[a[1]][0] == "ref":
                    return env[a[1]]        # &Ref<T> -> &T
                return a
            if nm.endswith("::might_need_deep"):
                return None
            return None
        w = kwalk.Walker(F, wr.body, want_ret=True, call_result=cres)
        outs = w.run(0, {})
        rep.states += w.states_explored
        rets = {chartab.ret_bool(o) if o[0] == "return" else "diverge" for o in outs}
        n += 1
        if v == "Done":
            rep.ob(R, "thunk|Done", True, {"returns": sorted(map(str, rets))})
            continue
        ok = rets == {1}
        rep.ob(R, "thunk|%s" % v, ok, {"state": v, "returns": sorted(map(str, rets))})
        if not ok:
            rep.violation(R, "%s|%s|may-skip" % (wr.q, v), "a thunk in state %s can be skipped by the deep pass (wrapper returns %s)"
                          % (v, sorted(map(str, rets))), wr.loc)
    rep.floor(R, n, 9, "value kinds and thunk states")


def rule_r8(F, rep):
    R = rep.rule("C12.R8", "external variables (and top-level arguments) form one namespace per run: the set that records the names "
                 "already defined is allocated once per run — its allocation site lies in a function entered once (main / "
                 "main_inner, or a helper with a single call site outside any loop). A set allocated inside a helper that is called "
                 "once per option kind cannot see a name registered through another kind: `--ext-str x=1 --ext-code x=2` then "
                 "reaches Program::add_ext_var twice, which panics (exit 101) instead of the diagnosed exit 1")
    fns = [f for f in F.fn_list if f.crate.name == "rsjsonnet"]
    sites = {}
    for f in fns:
        for bb, t in f.body.calls():
            q = t["f"].get("r") if t["f"]["k"] == "def" else None
            if q:
                sites.setdefault(q, []).append((f, bb))
    on_cycle_cache = {}

    def on_cycle(f, bb):
        key = (f.q, bb)
        if key not in on_cycle_cache:
            succ = f.body.succ_map()
            on_cycle_cache[key] = bb in cfg.reachable(succ, list(succ[bb]))
        return on_cycle_cache[key]

    def entered_once(f, depth=0):
        if f.q in ("rsjsonnet::main", "rsjsonnet::main_inner") and len(sites.get(f.q, [])) <= 1:
            return True, None
        ss = sites.get(f.q, [])
        if len(ss) != 1 or depth > 4:
            return False, "%s has %d call sites" % (f.q, len(ss))
        g, bb = ss[0]
        if on_cycle(g, bb):
            return False, "%s is called inside a loop of %s" % (f.q, g.q)
        return entered_once(g, depth + 1)
    n = 0
    for f in fns:
        body = f.body
        for bb, t in body.calls():
            nm = callee_name(t) or ""
            if not (nm.endswith("HashSet>::new") or nm.endswith("HashSet as core::default::Default>::default") or nm.endswith("HashSet>::with_capacity")
                    or nm.endswith("HashSet>::with_hasher")):
                continue
            ty = body.ty(t["dst"]["t"])["s"]
            if "InternedStr" not in ty:
                continue
            n += 1
            ok, why = entered_once(f)
            if ok and on_cycle(f, bb):
                ok, why = False, "the allocation sits inside a loop of %s" % f.q
            rep.ob(R, "%s|name-set@%d" % (f.q, n), ok, {"function": f.q, "set": ty})
            if not ok:
                rep.violation(R, "%s|per-call-name-set" % f.q, "%s allocates the set of already-defined names, but %s: names registered by "
                              "another call are not seen, so a variable defined through two different options is not reported and the "
                              "second registration panics" % (f.q, why), body.span(t["sp"]))
    rep.floor(R, n, 2, "name sets of the command line tool")


def run(F, rep, tier):
    rep.attempt(rule_r1_r3, F, rep)
    rep.attempt(rule_r2, F, rep)
    rep.attempt(rule_r2b, F, rep)
    rep.attempt(rule_r2c, F, rep)
    rep.attempt(rule_r6, F, rep)
    rep.attempt(rule_r7, F, rep)
    from . import visibility
    rep.attempt(visibility.rule, F, rep, "C07.R4")
    rep.attempt(visibility.rule_partition, F, rep, "C07.R6")
    rep.attempt(rule_r4, F, rep)
    from . import c01
    rep.attempt(c01.rule_r2, F, rep)
    rep.attempt(rule_r5, F, rep)
    rep.attempt(rule_r8, F, rep)
    rep.assume("byte-exact relations between modes, behaviour of a closed/full stdout at the OS level and clap's argument "
               "grammar are not decided")
    return EXPLANATION
