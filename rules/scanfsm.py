"""SCANFSM: turn a hand-written scanner of the shape

        loop { match state { S::A => <look at the next character, maybe consume it, set state / break / return>, ... } }

into the exact finite automaton it implements, so that clauses about *all input strings* ("accepts exactly the RFC 8259 numbers",
"never hands core's float parser a string it rejects") are decided by automaton product and emptiness (rules/dfa.py) instead of by
representative inputs.

Extraction.  The state variable is a local of a field-less enum whose discriminant is switched on at a block lying on a CFG cycle
(the loop head).  For every state and every symbol of the alphabet (interval classes of the code points cut by every constant the
scanner and its helpers compare against, plus end-of-input) the MIR is walked from the loop head with the state injected and the input
modelled abstractly: a `&str` / `Chars` value is a *position* 0 (at the current character) or 1 (just behind it);
`Chars::next`, `str::strip_prefix(char)`, `Chars::as_str`, `str::chars`, `str::is_empty` and `str::starts_with(char)` are interpreted on
positions, local helper functions are walked as if their body stood at the call site.  A walk ends at the next arrival at the loop
head (transition to the state found there, consuming iff a persistent place now holds position 1), or leaves the loop (classified by
the rule from what the exit path constructs and returns).  Reading beyond position 1, two different outcomes for one (state, symbol)
or an unmodelled shape raise WalkLimit: the rule is undecided, never alarmed.
"""
from . import kwalk, dfa
from .facts import callee_name
from .kwalk import WalkLimit

EOF = "eof"


class _ScanWalker(kwalk.Walker):
    """Walker that walks every small local helper in place (the scanners keep their character tests in `eat_*` helpers)."""

    def _sub_walker(self, body, **kw):
        return _ScanWalker(self.F, body, **kw)      # helpers of helpers are walked in place too

    def _inline_target(self, t, name):
        if name is None or self.depth >= self.MAX_INLINE_DEPTH or name in self.pure:
            return None
        f = t["f"]
        if not f.get("rlocal") or not f.get("r"):
            return None
        q = f["r"]
        if q == self.body.fn.q or q in self.frames:
            return None
        g = self.F.fn_opt(q)
        if g is None or g.body is None or len(g.body.blocks) > 400:
            return None
        return g


def _pos_of(env, v, default=0):
    """abstract position of a &str / Chars value; unknown strings are the cursor at position 0"""
    for _ in range(4):
        if isinstance(v, tuple) and v[0] == "pos":
            return v[1]
        if isinstance(v, tuple) and v[0] == "ref":
            k = v[1]
            v = env.get(k)
            if v is None and k.endswith(".*"):
                v = env.get(k[:-2])
            continue
        break
    return default


def _ref_key(v):
    return v[1] if isinstance(v, tuple) and v[0] == "ref" else None


class Scanner:
    def __init__(self, F, fn, *, extra_consts=(), classify_exit=None):
        self.F = F
        self.fn = fn
        self.body = fn.body
        self.states_explored = 0
        self.classify_exit = classify_exit
        self._find_loop()
        self._alphabet(extra_consts)
        self.table = {}          # (state, symbol index | EOF) -> outcome
        self._extract()

    # ------------------------------------------------------------------------------------------------------------
    def _find_loop(self):
        body = self.body
        succ = {i: list(body.succs(i)) for i in range(len(body.blocks))}
        self.succ = succ

        def reach(src):
            seen = set()
            st = list(succ.get(src, ()))
            while st:
                x = st.pop()
                if x in seen:
                    continue
                seen.add(x)
                st.extend(succ.get(x, ()))
            return seen
        cands = []
        for bb, si, st in body.assigns():
            rv = st["rv"]
            if rv["k"] != "discr" or rv["p"]["p"]:
                continue
            adt_q = rv.get("adt")
            adt = self.F.adts.get(adt_q) if adt_q else None
            if not adt:
                continue
            if any(v["fields"] for v in adt["variants"]):
                continue
            if bb in reach(bb):
                cands.append((bb, rv["p"]["l"], adt_q))
        if len(cands) != 1:
            raise WalkLimit("%s: expected one state-dispatch loop head, found %d" % (self.fn.q, len(cands)))
        self.head, self.state_l, self.state_adt = cands[0]
        r = reach(self.head)
        self.loop = {b for b in r if self.head in reach(b)} | {self.head}
        self.states = [v["n"] for v in self.F.adts[self.state_adt]["variants"]]
        # initial state: the variant assigned to the state local outside the loop
        init = set()
        for bb, si, st in body.assigns():
            if bb in self.loop or st["p"]["p"] or st["p"]["l"] != self.state_l:
                continue
            rv = st["rv"]
            if rv["k"] == "agg" and rv.get("adt") == self.state_adt:
                init.add(rv["v"])
        if len(init) != 1:
            raise WalkLimit("%s: initial state not unique: %s" % (self.fn.q, sorted(init)))
        self.init = next(iter(init))

    def _alphabet(self, extra):
        consts = set(kwalk.body_int_consts(self.body))
        seen = {self.fn.q}
        frontier = [self.body]
        for _ in range(3):
            nxt = []
            for b in frontier:
                for bb, t in b.calls():
                    f = t["f"]
                    q = f.get("r") if f.get("rlocal") else None
                    if q and q not in seen:
                        seen.add(q)
                        g = self.F.fn_opt(q)
                        if g is not None and g.body is not None and len(g.body.blocks) <= 120:
                            consts |= set(kwalk.body_int_consts(g.body))
                            nxt.append(g.body)
            frontier = nxt
        ex = list(extra) + [0x09, 0x0A, 0x0B, 0x0C, 0x0D, 0x0E, 0x20, 0x21, 0x30, 0x3A, 0x41, 0x47, 0x5B, 0x61, 0x67, 0x7B, 0x7F, 0x80]
        consts = {c for c in consts if 0 <= c <= 0x10FFFF}
        ranges = kwalk.interval_classes(consts, 0, 0x10FFFF, ex)
        self.al = dfa.Alphabet(ranges)

    # ------------------------------------------------------------------------------------------------------------
    def _walk(self, state, cur):
        """outcomes of one step from `state` with the next character `cur` (code point or EOF)"""
        F = self.F
        head, state_l = self.head, self.state_l

        def hook(w, bb, t, env, args):
            nme = callee_name(t) or ""
            dst = w.norm(env, t["dst"])
            if nme == "<core::str::iter::Chars as core::iter::traits::iterator::Iterator>::next":
                k = _ref_key(args[0])
                p = _pos_of(env, args[0])
                if p != 0:
                    env["#beyond"] = 1
                    return None
                if cur is EOF:
                    return ("var", "core::option::Option", "None")
                if k is not None:
                    env[k] = ("pos", 1)
                env["%s@Some.0" % dst] = cur
                return ("var", "core::option::Option", "Some")
            if nme == "<str>::chars":
                return ("pos", _pos_of(env, args[0]))
            if nme == "<core::str::iter::Chars>::as_str":
                return ("pos", _pos_of(env, args[0]))
            if nme == "<str>::strip_prefix" or nme == "<str>::starts_with":
                p = _pos_of(env, args[0])
                c = args[1] if len(args) > 1 else None
                if isinstance(c, tuple) and c[0] == "str" and len(c[1]) == 1:
                    c = ord(c[1])
                if p != 0 or not isinstance(c, int):
                    env["#beyond"] = 1
                    return None
                hit = cur is not EOF and cur == c
                if nme.endswith("starts_with"):
                    return int(hit)
                if hit:
                    env["%s@Some.0" % dst] = ("pos", 1)
                    return ("var", "core::option::Option", "Some")
                return ("var", "core::option::Option", "None")
            if nme == "<str>::is_empty":
                # only for a string known to be the rest of the input (an unknown string may be the whole input)
                if _pos_of(env, args[0], None) == 0:
                    return int(cur is EOF)
                return None
            return None

        def after_stmt(w, bb, idx, s, env):
            # `&*x` of a string position is the same position
            if s["k"] != "assign":
                return
            rv = s["rv"]
            if rv["k"] == "ref" and rv["p"]["p"] and rv["p"]["p"][-1] == "*":
                base = dict(rv["p"])
                base["p"] = rv["p"]["p"][:-1]
                v = env.get(w.norm(env, base))
                if isinstance(v, tuple) and v[0] == "pos":
                    env[w.norm(env, s["p"])] = v

        def on_term(w, bb, t, env):
            if w.pre:
                return None
            if bb == head and env.get("#started"):
                v = env.get(str(state_l))
                consumed = int(any(isinstance(x, tuple) and x == ("pos", 1) and ":" not in k for k, x in env.items()))
                return (kwalk.STOP, ("next", v[2] if isinstance(v, tuple) and v[0] == "var" else "?", consumed))
            if bb == head:
                env["#started"] = 1
                return None
            if bb not in self.loop and not env.get("#exited"):
                env["#exited"] = 1
                consumed = int(any(isinstance(x, tuple) and x == ("pos", 1) and ":" not in k for k, x in env.items()))
                return ("exit", consumed)
            return None

        def on_stmt(w, bb, idx, st, env):
            if w.pre or bb in self.loop or st["k"] != "assign":
                return None
            rv = st["rv"]
            if rv["k"] == "agg" and rv["ak"] == "adt":
                return ("made", rv["adt"].split("::")[-1], rv["v"])
            return None

        w = _ScanWalker(F, self.body, call_result=hook, on_term=on_term, on_stmt=on_stmt, after_stmt=after_stmt, want_ret=True)
        outs = w.run(head, {str(state_l): ("var", self.state_adt, state)})
        self.states_explored += w.states_explored
        res = set()
        for kind, marks, ret in outs:
            if kind.startswith("diverge"):
                continue
            nx = [m for m in marks if m[0] == "next"]
            if nx:
                res.add(nx[-1])
                continue
            ex = [m for m in marks if m[0] == "exit"]
            made = frozenset(m[1:] for m in marks if m[0] == "made")
            retv = dict(ret or ())
            r0 = retv.get("0")
            res.add(("exit", ex[-1][1] if ex else 0, made, r0 if isinstance(r0, tuple) else None))
        return res

    def _extract(self):
        syms = [(i, self.al.ranges[i][0]) for i in range(self.al.n)] + [(EOF, EOF)]
        for s in self.states:
            for si, cp in syms:
                if isinstance(cp, int) and 0xD800 <= cp <= 0xDFFF:
                    self.table[(s, si)] = ("reject",)
                    continue
                outs = self._walk(s, cp)
                nxt = {o for o in outs if o[0] == "next"}
                exits = {o for o in outs if o[0] == "exit"}
                if nxt and exits or len(nxt) > 1:
                    raise WalkLimit("%s: state %s on %s is not deterministic: %s" % (self.fn.q, s, self._sym(si), sorted(map(str, outs))))
                if nxt:
                    o = next(iter(nxt))
                    self.table[(s, si)] = ("next", o[1], o[2])
                    continue
                if not exits:
                    raise WalkLimit("%s: state %s on %s has no outcome" % (self.fn.q, s, self._sym(si)))
                kinds = {self.classify_exit(o) for o in exits}
                if "accept" in kinds:
                    kinds = {"accept"}
                if len(kinds) != 1:
                    raise WalkLimit("%s: state %s on %s: exits classify as %s" % (self.fn.q, s, self._sym(si), sorted(kinds)))
                if kinds == {"accept"} and any(o[1] for o in exits):
                    raise WalkLimit("%s: state %s on %s leaves the loop after consuming" % (self.fn.q, s, self._sym(si)))
                self.table[(s, si)] = (next(iter(kinds)),)

    def _sym(self, si):
        return "end of input" if si is EOF else self.al.show(si)

    # ------------------------------------------------------------------------------------------------------------
    def outcome(self, s, si, depth=0):
        """outcome with non-consuming state changes followed: ("next", state) | ("accept",) | ("reject",)"""
        o = self.table[(s, si)]
        if o[0] == "next" and not o[2]:
            if depth > len(self.states):
                raise WalkLimit("%s: non-consuming cycle through %s" % (self.fn.q, s))
            return self.outcome(o[1], si, depth + 1)
        return o

    def token_dfa(self):
        """language of the strings the scanner accepts when the input ends right behind them"""
        idx = {s: i for i, s in enumerate(self.states)}
        dead = len(self.states)
        trans = []
        acc = set()
        for s in self.states:
            row = []
            for si in range(self.al.n):
                o = self.outcome(s, si)
                row.append(idx[o[1]] if o[0] == "next" else dead)
            trans.append(row)
            if self.outcome(s, EOF)[0] == "accept":
                acc.add(idx[s])
        trans.append([dead] * self.al.n)
        return dfa.DFA(self.al, dead + 1, idx[self.init], trans, acc)

    def stops(self):
        """(state, symbol, outcome) for every symbol a state does not consume"""
        out = []
        for s in self.states:
            for si in list(range(self.al.n)) + [EOF]:
                o = self.outcome(s, si)
                if o[0] != "next":
                    out.append((s, si, o[0]))
        return out


def witness(d):
    w = d.shortest()
    if w is None:
        return None
    return "".join(d.al.show(i) for i in w)
