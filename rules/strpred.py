"""Language of a string predicate: turn a `fn(&str) -> bool` written with the iterator idioms of the repository into the
exact set of strings it accepts, as an automaton.

The function body must be loop-free at MIR level (the loops live inside `Iterator::{any,all,filter,count}`,
`str::starts_with`, ... which are modelled as *atoms*: each is a regular condition on the argument string).  Blocks are
processed in topological order; every block carries the language of the strings that reach it, split by the constant
last stored to the return place.  A `switchInt` on an atom splits the language; `return` collects it.

  atoms      s.is_empty()                      s == "lit" / s != "lit"              s.starts_with("lit") / ends_with
             s.chars().any(|c| class)          s.chars().all(|c| class)             s.chars().filter(|c| class).count() <op> n
             s.chars().count() <op> n / s.len() <op> n   [lits].iter().any(|&x| s == x / s.eq_ignore_ascii_case(x))
             s.eq_ignore_ascii_case("lit")     !b, b1 & b2, b1 | b2 on atoms
  classes    the decision table of the closure over code-point classes (rules.c05.closure_bool_table)

Anything else raises WalkLimit (reported by the caller as an undecidable shape) — never a silent pass.
"""
from . import kwalk
from .dfa import DFA, Alphabet
from .facts import callee_name

WalkLimit = kwalk.WalkLimit


class Extract:
    def __init__(self, F, rep, fn, class_table, extra_cuts=(), byte_table=None):
        self.F, self.rep, self.fn, self.body = F, rep, fn, fn.body
        self.class_table = class_table      # closure fn -> rows [((a,b), {0/1})]
        self.byte_table = byte_table        # closure over u8 -> rows (optional)
        self.extra_cuts = tuple(extra_cuts)
        self.byte_closures = {}
        self.closures = {}                  # qname -> rows
        self.atoms = []                     # human-readable list of the atoms met
        self._collect_closures()
        self.al = self._alphabet()

    # ---- phase 1: closures and the symbol set ----------------------------------------------------------------------
    def _collect_closures(self):
        for blk in self.body.blocks:
            if blk["cleanup"]:
                continue
            for st in blk["s"]:
                if st["k"] == "assign" and st["rv"]["k"] == "agg" and st["rv"].get("ak") == "closure":
                    q = st["rv"]["d"]
                    clo = self.F.fn_opt(q)
                    if clo is None:
                        raise WalkLimit("closure %s has no body" % q)
                    aty = clo.body.local_ty(2)
                    while aty["k"] == "ref":
                        aty = clo.body.ty(aty["t"]) if "t" in aty else clo.body.ty(aty["e"])
                    if aty.get("s") == "char":
                        self.closures[q] = self.class_table(clo)
                    elif aty.get("s") == "u8" and self.byte_table is not None:
                        self.byte_closures[q] = self.byte_table(clo)

    def _alphabet(self):
        cuts = {0, 0x80, 0x800, 0x10000, 0xD800, 0xE000, 0x110000}
        cuts.update(range(0, 0x81))
        cuts.update(self.extra_cuts)
        for rows in self.closures.values():
            for (a, b), _ in rows:
                cuts.add(a)
                cuts.add(b + 1)
        cs = sorted(c for c in cuts if c <= 0x110000)
        # surrogates are not `char` values
        return Alphabet([(a, b - 1) for a, b in zip(cs, cs[1:]) if not (0xD800 <= a and b - 1 <= 0xDFFF)])

    def class_syms(self, q):
        rows = self.closures.get(q)
        if rows is None:
            raise WalkLimit("closure %s is not a character-class closure" % q)
        yes = set()
        for i, (a, b) in enumerate(self.al.ranges):
            v = None
            for (ra, rb), vals in rows:
                if ra <= a and b <= rb:
                    v = vals
                    break
            if v is None or v - {0, 1}:
                raise WalkLimit("closure %s: undecided on U+%04X..U+%04X" % (q, a, b))
            if v == {1}:
                yes.add(i)
            elif v != {0}:
                raise WalkLimit("closure %s: not a function of the class on U+%04X..U+%04X" % (q, a, b))
        return frozenset(yes)

    def byte_class_syms(self, q):
        """characters whose UTF-8 encoding contains a byte the u8-closure accepts; only decided when the closure accepts no
        byte >= 0x80 (then exactly the accepted ASCII characters)"""
        rows = self.byte_closures.get(q)
        if rows is None:
            raise WalkLimit("closure %s is not a byte-class closure" % q)
        yes = set()
        for (ra, rb), vals in rows:
            if vals - {0, 1} or len(vals) != 1:
                raise WalkLimit("byte closure %s: undecided on %02X..%02X" % (q, ra, rb))
            if vals == {1}:
                if rb >= 0x80:
                    raise WalkLimit("byte closure %s accepts bytes >= 0x80 (multi-byte characters are not modelled)" % q)
                yes.update(range(ra, rb + 1))
        return frozenset(i for i, (a, b) in enumerate(self.al.ranges) if a == b and a in yes)

    # ---- phase 2: abstract evaluation ------------------------------------------------------------------------------
    def _deref_ty(self, t):
        while t["k"] == "ref":
            t = self.body.ty(t["t"] if "t" in t else t["e"])
        return t

    def operand(self, env, x, body=None):
        k = x["k"]
        if k in ("move", "copy"):
            v = env.get(x["l"])
            for pr in x["p"]:
                if pr == "*":
                    continue            # references are transparent in this domain
                if isinstance(v, tuple) and v[0] == "tuple" and isinstance(pr, dict) and "f" in pr:
                    v = v[1][pr["f"]]
                    continue
                if isinstance(v, tuple) and v[0] == "closure" and isinstance(pr, dict) and "f" in pr:
                    v = v[2][pr["f"]]
                    continue
                raise WalkLimit("projection %r on %r" % (pr, v))
            return v
        if k == "const":
            if "str" in x:
                return ("lit", x["str"])
            if "promoted" in x:
                return self.promoted(x["promoted"])
            if "v" in x:
                return ("int", x["v"])
            if "chr" in x:
                return ("int", x["chr"])
            return ("opaque", x.get("s"))
        raise WalkLimit("operand kind %s" % k)

    def promoted(self, idx):
        proms = self.fn.promoted
        if idx >= len(proms):
            raise WalkLimit("promoted[%d] missing" % idx)
        pb = proms[idx]
        env = {}
        bb = 0
        for _ in range(64):
            for st in pb.blocks[bb]["s"]:
                if st["k"] == "assign":
                    if st["p"]["p"]:
                        raise WalkLimit("promoted: projected store")
                    env[st["p"]["l"]] = self.rvalue(env, st["rv"])
            t = pb.blocks[bb]["t"]
            if t["k"] == "return":
                return env.get(0)
            if t["k"] == "goto":
                bb = t["t"]
                continue
            raise WalkLimit("promoted: terminator %s" % t["k"])
        raise WalkLimit("promoted: too long")

    def rvalue(self, env, rv):
        k = rv["k"]
        if k == "use":
            return self.operand(env, rv["x"])
        if k == "ref":
            return self.operand(env, {"k": "copy", "l": rv["p"]["l"], "p": rv["p"]["p"]})
        if k == "cast":
            return self.operand(env, rv["x"])        # unsizing &[T;N] -> &[T] etc.
        if k == "agg":
            ak = rv.get("ak")
            xs = [self.operand(env, x) for x in rv["xs"]]
            if ak == "array":
                return ("arr", xs)
            if ak == "closure":
                return ("closure", rv["d"], xs)
            if ak == "tuple":
                return ("tuple", xs)
            raise WalkLimit("aggregate %s" % ak)
        if k == "binop":
            a = self.operand(env, rv["a"])
            b = self.operand(env, rv["b"])
            return self.binop(rv["op"], a, b)
        if k == "unop":
            a = self.operand(env, rv["a"])
            if rv["op"] == "Not" and a and a[0] == "bool":
                return ("bool", a[1].complement())
            raise WalkLimit("unop %s on %r" % (rv["op"], a and a[0]))
        raise WalkLimit("rvalue %s" % k)

    CMP = {"Eq": lambda n: (lambda c: c == n), "Ne": lambda n: (lambda c: c != n), "Lt": lambda n: (lambda c: c < n),
           "Le": lambda n: (lambda c: c <= n), "Gt": lambda n: (lambda c: c > n), "Ge": lambda n: (lambda c: c >= n)}
    FLIP = {"Eq": "Eq", "Ne": "Ne", "Lt": "Gt", "Le": "Ge", "Gt": "Lt", "Ge": "Le"}

    def binop(self, op, a, b):
        if a and b and a[0] == "bool" and b[0] == "bool":
            if op == "BitAnd":
                return ("bool", a[1] & b[1])
            if op == "BitOr":
                return ("bool", a[1] | b[1])
            if op in ("Eq", "BitXor", "Ne"):
                same = (a[1] & b[1]) | (a[1].complement() & b[1].complement())
                return ("bool", same if op == "Eq" else same.complement())
        if a and b and a[0] == "int" and b[0] == "count":
            a, b, op = b, a, self.FLIP.get(op, op)
        if a and b and a[0] == "int" and b[0] == "blen":
            a, b, op = b, a, self.FLIP.get(op, op)
        if a and b and a[0] == "blen" and b[0] == "int" and op in self.CMP:
            n = b[1]
            self.atoms.append("len() %s %d" % (op, n))
            w = [1 if hi < 0x80 else 2 if hi < 0x800 else 3 if hi < 0x10000 else 4 for (lo, hi) in self.al.ranges]
            return ("bool", DFA.weighted_count(self.al, w, self.CMP[op](n), max(n, 0) + 1))
        if a and b and a[0] == "count" and b[0] == "int" and op in self.CMP:
            n = b[1]
            self.atoms.append("count(%s) %s %d" % (a[2], op, n))
            return ("bool", DFA.count_in(self.al, a[1], self.CMP[op](n), max(n, 0) + 1))
        raise WalkLimit("binop %s on %r, %r" % (op, a and a[0], b and b[0]))

    def call(self, env, t):
        r = callee_name(t) or ""
        n = (t["f"].get("d") or r)       # the declared (trait) item; `r` is the resolved impl
        xs = [self.operand(env, x) for x in t["xs"]]
        S = ("S",)
        al = self.al

        def lit_of(v):
            if v and v[0] == "lit":
                return v[1]
            if v and v[0] == "int":
                return chr(v[1])
            raise WalkLimit("%s: argument is not a literal (%r)" % (n, v and v[0]))

        if n == "<str>::is_empty" and xs[0] == S:
            self.atoms.append("is_empty")
            return ("bool", DFA.literal(al, ""))
        if n == "<str>::len" and xs[0] == S:
            return ("blen",)
        if n == "<str>::chars" and xs[0] == S:
            return ("chars",)
        if n in ("<str>::bytes", "<str>::as_bytes") and xs[0] == S:
            return ("bytes",)
        if n in ("<[T]>::iter", "core::iter::traits::collect::IntoIterator::into_iter") and xs[0] == ("bytes",):
            return ("bytes",)
        if n in ("core::cmp::PartialEq::eq", "core::cmp::PartialEq::ne") and S in xs:
            other = xs[1] if xs[0] == S else xs[0]
            d = DFA.literal(al, lit_of(other))
            self.atoms.append("== %r" % lit_of(other))
            return ("bool", d if n.endswith("::eq") else d.complement())
        if n == "<str>::eq_ignore_ascii_case" and S in xs:
            other = xs[1] if xs[0] == S else xs[0]
            self.atoms.append("eq_ignore_ascii_case %r" % lit_of(other))
            return ("bool", DFA.literal(al, lit_of(other), fold_ascii_case=True))
        if n == "<str>::starts_with" and xs[0] == S:
            self.atoms.append("starts_with %r" % lit_of(xs[1]))
            return ("bool", DFA.literal(al, lit_of(xs[1]), prefix=True))
        if n == "<str>::ends_with":
            raise WalkLimit("ends_with is not modelled")
        if n.endswith("Iterator::any") or n.endswith("Iterator::all"):
            it, clo = xs[0], xs[1]
            if not (clo and clo[0] == "closure"):
                raise WalkLimit("%s: predicate is not a closure literal" % n)
            if it in (("chars",), ("bytes",)):
                syms = self.class_syms(clo[1]) if it == ("chars",) else self.byte_class_syms(clo[1])
                if n.endswith("::all"):
                    self.atoms.append("all(%s)" % clo[1].rsplit("::", 1)[-1])
                    return ("bool", DFA.every_char_in(al, syms))
                self.atoms.append("any(%s)" % clo[1].rsplit("::", 1)[-1])
                non = frozenset(range(al.n)) - syms
                return ("bool", DFA.every_char_in(al, non).complement())
            if it and it[0] == "iter":
                lits = [lit_of(v) for v in it[1]]
                fold = self.list_closure(clo)
                self.atoms.append("%s of %d literals (%s)" % (n.rsplit("::", 1)[-1], len(lits), "case-insensitive" if fold else "exact"))
                d = DFA.nothing(al)
                for l in lits:
                    d = d | DFA.literal(al, l, fold_ascii_case=fold)
                if n.endswith("::all"):
                    raise WalkLimit("all() over a literal list")
                return ("bool", d)
            raise WalkLimit("%s over %r" % (n, it and it[0]))
        if n.endswith("Iterator::filter") and xs[0] in (("chars",), ("bytes",)):
            clo = xs[1]
            if not (clo and clo[0] == "closure"):
                raise WalkLimit("filter: predicate is not a closure literal")
            # a byte class that accepts ASCII bytes only counts exactly the characters of that class
            syms = self.class_syms(clo[1]) if xs[0] == ("chars",) else self.byte_class_syms(clo[1])
            return ("filter", syms, clo[1].rsplit("::", 1)[-1])
        if n.endswith("Iterator::count"):
            if xs[0] and xs[0][0] == "filter":
                return ("count", xs[0][1], xs[0][2])
            if xs[0] == ("chars",):
                return ("count", frozenset(range(al.n)), "chars")
        if n in ("<[T]>::iter", "core::iter::traits::collect::IntoIterator::into_iter") and xs[0] and xs[0][0] == "arr":
            return ("iter", xs[0][1])
        if n == "<[T]>::contains" and xs[0] and xs[0][0] == "arr" and xs[1] == S:
            d = DFA.nothing(al)
            for v in xs[0][1]:
                d = d | DFA.literal(al, lit_of(v))
            self.atoms.append("contains over %d literals" % len(xs[0][1]))
            return ("bool", d)
        if getattr(self, "tolerant", False):
            return ("opaque", n)
        raise WalkLimit("call to %s (resolved %s) is not a modelled string atom" % (n, r))

    def list_closure(self, clo):
        """closure applied to each literal of a list: must return `s == x` or `s.eq_ignore_ascii_case(x)` with s captured;
        returns True for the case-insensitive form."""
        f = self.F.fn_opt(clo[1])
        if f is None or clo[2] != [("S",)]:
            raise WalkLimit("list closure %s: unexpected captures" % clo[1])
        calls = [(bb, t) for bb, t in f.body.calls()]
        if len(calls) != 1:
            raise WalkLimit("list closure %s: expected exactly one call" % clo[1])
        bb, t = calls[0]
        n = t["f"].get("d") or callee_name(t) or ""
        dst = t["dst"]
        # the call result must be what is returned
        ret_ok = dst["l"] == 0 and not dst["p"]
        if not ret_ok:
            raise WalkLimit("list closure %s: the comparison result is not returned directly" % clo[1])
        if n == "<str>::eq_ignore_ascii_case":
            return True
        if n == "core::cmp::PartialEq::eq":
            return False
        raise WalkLimit("list closure %s calls %s" % (clo[1], n))

    def run(self, sinks=None):
        """language accepted (fn returns true).  With `sinks` (a set of block numbers) returns {bb: language of the inputs that
        reach bb} instead, and blocks inside MIR loops are cut off (the inputs reaching a loop are not followed further)."""
        body = self.body
        self.tolerant = sinks is not None
        nb = len(body.blocks)
        # topological order over normal edges
        succs = {}
        for i, blk in enumerate(body.blocks):
            if blk["cleanup"]:
                continue
            t = blk["t"]
            k = t["k"]
            if k == "goto":
                succs[i] = [t["t"]]
            elif k == "switch":
                succs[i] = [bb for _, bb in t["arms"]] + [t["else"]]
            elif k in ("call", "drop", "assert"):
                succs[i] = [t["t"]] if t.get("t") is not None else []
            elif k in ("return", "unreachable", "resume", "terminate"):
                succs[i] = []
            else:
                raise WalkLimit("terminator %s" % k)
        indeg = {i: 0 for i in succs}
        reach = {0}
        todo = [0]
        while todo:
            p = todo.pop()
            for q in succs[p]:
                if q not in reach:
                    reach.add(q)
                    todo.append(q)
        for p in reach:
            for q in set(succs[p]):
                indeg[q] += 1
        order = []
        ready = [0]
        while ready:
            p = ready.pop()
            order.append(p)
            for q in set(succs[p]):
                indeg[q] -= 1
                if indeg[q] == 0:
                    ready.append(q)
        if len(order) != len(reach):
            if sinks is None:
                raise WalkLimit("%s has a loop at MIR level; only loop-free string predicates are decided" % self.fn.q)
            # cut the blocks that lie on cycles (everything Kahn's algorithm could not order) and redo the order without them
            cyc = reach - set(order)
            for p in list(succs):
                succs[p] = [q for q in succs[p] if q not in cyc]
            for c in cyc:
                succs[c] = []
            order = [b for b in order]
        reached = {}

        al = self.al
        EMPTY = DFA.nothing(al)
        lang = {0: {None: DFA.all_strings(al)}}     # bb -> {value of _0 (None/0/1): language}
        envs = {0: {1: ("S",)}}
        accept, reject = EMPTY, EMPTY
        CONFLICT = ("conflict",)

        def send(to, langs, env):
            cur = lang.setdefault(to, {})
            for r0, d in langs.items():
                if d.is_empty():
                    continue
                cur[r0] = (cur[r0] | d) if r0 in cur else d
            if to not in envs:
                envs[to] = dict(env)
            else:
                e0 = envs[to]
                for k in list(e0.keys()):
                    if k not in env or not _same(e0[k], env[k]):
                        e0[k] = CONFLICT
                for k in env:
                    if k not in e0:
                        e0[k] = CONFLICT

        for bb in order:
            if bb not in lang or not lang[bb]:
                continue
            langs = lang[bb]
            if sinks is not None and bb in sinks:
                tot = EMPTY
                for d0 in langs.values():
                    tot = tot | d0
                reached[bb] = tot
            env = dict(envs[bb])
            blk = body.blocks[bb]
            for st in blk["s"]:
                if st["k"] != "assign":
                    continue
                l = st["p"]["l"]
                if st["p"]["p"]:
                    if self.tolerant:
                        continue
                    raise WalkLimit("store through a projection in %s" % self.fn.q)
                try:
                    v = self.rvalue(env, st["rv"])
                except WalkLimit:
                    if not self.tolerant:
                        raise
                    v = ("opaque", "rvalue")
                if v == CONFLICT:
                    raise WalkLimit("value merged from different paths is used in %s bb%d" % (self.fn.q, bb))
                if l == 0:
                    if v and v[0] == "int" and v[1] in (0, 1):
                        total = EMPTY
                        for d in langs.values():
                            total = total | d
                        langs = {v[1]: total}
                    elif v and v[0] == "bool":
                        total = EMPTY
                        for d in langs.values():
                            total = total | d
                        langs = {1: total & v[1], 0: total & v[1].complement()}
                    elif not self.tolerant:
                        raise WalkLimit("return place assigned %r" % (v and v[0],))
                else:
                    env[l] = v
            t = blk["t"]
            k = t["k"]
            if k == "goto":
                send(t["t"], langs, env)
            elif k in ("drop", "assert"):
                send(t["t"], langs, env)
            elif k == "call":
                try:
                    v = self.call(env, t)
                except WalkLimit:
                    if not self.tolerant:
                        raise
                    v = ("opaque", "call")
                d = t["dst"]
                if d["p"]:
                    if not self.tolerant:
                        raise WalkLimit("call result stored through a projection")
                elif d["l"] == 0 and self.tolerant and (not v or v[0] != "bool"):
                    pass
                elif d["l"] == 0:
                    if v[0] != "bool":
                        raise WalkLimit("non-boolean call result returned")
                    total = EMPTY
                    for x in langs.values():
                        total = total | x
                    langs = {1: total & v[1], 0: total & v[1].complement()}
                else:
                    env[d["l"]] = v
                if t.get("t") is not None:
                    send(t["t"], langs, env)
            elif k == "switch":
                v = self.operand(env, t["x"])
                if v == CONFLICT or v is None:
                    raise WalkLimit("switch on an unknown value in %s bb%d" % (self.fn.q, bb))
                if v[0] == "bool":
                    arms = dict(t["arms"])
                    for val, cond in ((0, v[1].complement()), (1, v[1])):
                        to = arms.get(val, t["else"])
                        send(to, {r0: d & cond for r0, d in langs.items()}, env)
                elif v[0] == "int":
                    arms = dict(t["arms"])
                    send(arms.get(v[1], t["else"]), langs, env)
                else:
                    raise WalkLimit("switch on %r" % (v[0],))
            elif k == "return":
                if self.tolerant:
                    continue
                if None in langs and not langs[None].is_empty():
                    raise WalkLimit("return without a stored result")
                accept = accept | langs.get(1, EMPTY)
                reject = reject | langs.get(0, EMPTY)
            elif k == "unreachable":
                pass
            else:
                raise WalkLimit("terminator %s" % k)
        if sinks is not None:
            return reached
        # sanity: accept and reject partition Sigma*
        both = accept & reject
        if not both.is_empty():
            raise WalkLimit("extraction is inconsistent: %r both accepted and rejected" % both.show(both.shortest()))
        rest = (accept | reject).complement()
        if not rest.is_empty():
            raise WalkLimit("extraction is incomplete: %r neither accepted nor rejected" % rest.show(rest.shortest()))
        return accept


def _same(a, b):
    if a is b:
        return True
    if type(a) != type(b):
        return False
    if isinstance(a, tuple):
        if len(a) != len(b):
            return False
        return all(_same(x, y) for x, y in zip(a, b))
    if isinstance(a, list):
        return len(a) == len(b) and all(_same(x, y) for x, y in zip(a, b))
    if isinstance(a, DFA):
        return a is b
    return a == b
