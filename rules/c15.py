"""C15 — parsing honours the precedence table and is stable under print and re-parse.

Print/re-parse stability is NOT decided (the repository has no printer).  Decided clauses:
  R1  the precedence chain (which level parses its operands at which tighter level), the membership of
      every binary operator token in its level, left associativity (an operator's right operand is
      parsed one level tighter and the same level continues), and the unary operator table
  R2  a syntax error points at a token of the input: ParseError::Expected is only built by
      report_expected from the current token's span
"""
from . import kwalk, cg, prov
from .facts import callee_name, AnchorMissing as facts_AnchorMissing

EXPLANATION = (
    "Static analysis of MIR: decision table of BinOpKind::next_state; for every precedence level and every "
    "simple token kind the BinaryRhs arm of parse_expr is walked with `eat_simple` answering for exactly that "
    "token, recording the operator produced, the level pushed for the continuation and the level the right "
    "operand starts at; the unary arm likewise; who-may-construct ParseError::Expected with span provenance."
)

PARSER = "rsjsonnet_lang::parser::Parser"
PE = "<%s>::parse_expr" % PARSER
BK = PE + "::BinOpKind"
ST = PE + "::State"
SI = PE + "::StackItem"
STK = "rsjsonnet_lang::token::STokenKind"
BINOP = "rsjsonnet_lang::ast::BinaryOp"
UNOP = "rsjsonnet_lang::ast::UnaryOp"
OPTION = "core::option::Option"

# Jsonnet specification precedence, loosest first
CHAIN = ["LogicOr", "LogicAnd", "BitwiseOr", "BitwiseXor", "BitwiseAnd", "EqCmp", "OrdCmp", "Shift", "Add", "Mul"]
LEVELS = {
    "LogicOr": {"PipePipe": "LogicOr"},
    "LogicAnd": {"AmpAmp": "LogicAnd"},
    "BitwiseOr": {"Pipe": "BitwiseOr"},
    "BitwiseXor": {"Hat": "BitwiseXor"},
    "BitwiseAnd": {"Amp": "BitwiseAnd"},
    "EqCmp": {"EqEq": "Eq", "ExclamEq": "Ne"},
    "OrdCmp": {"Lt": "Lt", "LtEq": "Le", "Gt": "Gt", "GtEq": "Ge", "In": "In"},
    "Shift": {"LtLt": "Shl", "GtGt": "Shr"},
    "Add": {"Plus": "Add", "Minus": "Sub"},
    "Mul": {"Asterisk": "Mul", "Slash": "Div", "Percent": "Rem"},
}
UNARY = {"Plus": "Plus", "Minus": "Minus", "Tilde": "BitwiseNot", "Exclam": "LogicNot"}


def rule_r1(F, rep):
    R = rep.rule("C15.R1", "binary operators group by the Jsonnet precedence table with left associativity: each level "
                 "parses its operands at the next tighter level, accepts exactly its own operator tokens, and "
                 "continues at the same level after an operator; unary + - ! ~ bind tighter than every binary operator")
    ns = F.fn("<%s>::next_state" % BK)
    rep.fn(ns)
    kinds = F.variants(BK)
    chain = {}
    for k in kinds:
        w = kwalk.Walker(F, ns.body, want_ret=True)
        outs = w.run(0, {"1": ("var", BK, k)})
        rep.states += w.states_explored
        res = set()
        for kind, marks, ret in outs:
            d = dict(ret or ())
            top = d.get("0")
            if isinstance(top, tuple) and top[0] == "var":
                if top[2] == "Binary":
                    nxt = d.get("0@Binary.0")
                    res.add(nxt[2] if isinstance(nxt, tuple) else "?")
                else:
                    res.add(top[2])
            else:
                res.add("?")
        chain[k] = res
        i = CHAIN.index(k) if k in CHAIN else -1
        exp = {CHAIN[i + 1]} if 0 <= i < len(CHAIN) - 1 else {"Unary"}
        ok = res == exp and k in CHAIN
        rep.ob(R, "chain|%s" % k, ok, {"level": k, "operands_parsed_at": sorted(res)})
        if not ok:
            rep.violation(R, "next_state|%s" % k, "precedence level %s parses its operands at %s; the specification's "
                          "next tighter level is %s" % (k, sorted(res), sorted(exp)), ns.loc)
    rep.floor(R, len(kinds), 10, "precedence levels")
    # init state = loosest level
    ini = F.fn(PE + "::init_state")
    w = kwalk.Walker(F, ini.body, want_ret=True)
    outs = w.run(0, {})
    d = dict(list(outs)[0][2] or ()) if outs else {}
    nxt = d.get("0@Binary.0")
    ok = isinstance(nxt, tuple) and nxt[2] == CHAIN[0]
    rep.ob(R, "init|loosest", ok)
    if not ok:
        rep.violation(R, "init_state", "expression parsing does not start at the loosest level %s" % CHAIN[0], ini.loc)
    # BinaryRhs arm
    pe = F.fn(PE)
    rep.fn(pe)
    body = pe.body
    head = None
    state_l = None
    for bb, si, s in body.assigns():
        rv = s["rv"]
        if rv["k"] == "discr" and rv.get("adt") == ST and not rv["p"]["p"]:
            head = bb
            state_l = rv["p"]["l"]
            break
    if head is None:
        raise kwalk.WalkLimit("parse_expr: state dispatch not found")
    tokens = F.variants(STK)

    def walk(state_variant, payload, tok, peek=()):
        def hook(w, bb, t, env, args):
            n = callee_name(t) or ""
            if n == "<%s>::eat_simple" % PARSER:
                a = args[1]
                if not (isinstance(a, tuple) and a[0] == "var"):
                    raise kwalk.WalkLimit("the token kind asked for is not a constant at this call (table-driven parser code)")
                if isinstance(a, tuple) and a[0] == "var" and a[2] == tok and not env.get("#eaten"):
                    env["#eaten"] = 1
                    return ("var", OPTION, "Some")
                if isinstance(a, tuple) and a[0] == "var" and a[2] in peek and env.get("#eaten") and not env.get("#eaten2"):
                    env["#eaten2"] = 1
                    return ("var", OPTION, "Some")
                return ("var", OPTION, "None")
            if n == "<%s>::peek_simple" % PARSER:
                a = args[1]
                if not (isinstance(a, tuple) and a[0] == "var"):
                    raise kwalk.WalkLimit("the token kind asked for is not a constant at this call (table-driven parser code)")
                off = args[2] if len(args) > 2 else None
                if isinstance(a, tuple) and a[0] == "var" and a[2] in peek and off == 0:
                    return 1
                return 0
            return None

        def on_stmt(w, bb, idx, s, env):
            if s["k"] != "assign":
                return None
            rv = s["rv"]
            if rv["k"] == "agg" and rv["ak"] == "adt" and rv["adt"] == SI and rv["v"] in ("BinaryRhs", "Unary"):
                vals = [w.val(env, x) for x in rv["xs"]]
                return ("stack", rv["v"], tuple(v[2] if isinstance(v, tuple) and v[0] == "var" else "?" for v in vals))
            if rv["k"] == "agg" and rv["ak"] == "adt" and rv["adt"] == ST and peek:
                vals = [w.val(env, x) for x in rv["xs"]]
                return ("state", rv["v"], tuple(v[2] if isinstance(v, tuple) and v[0] == "var" else "?" for v in vals))
            if rv["k"] == "agg" and rv["ak"] == "adt" and rv["adt"].endswith("ast::ExprKind") and peek:
                return ("node", rv["v"])
            return None

        def on_term(w, bb, t, env):
            if bb == head and env.get("#started"):
                return kwalk.STOP
            if bb == head:
                env["#started"] = 1
            if t["k"] == "call":
                n = callee_name(t) or ""
                if n == "<%s>::next_state" % BK:
                    v = w.val(env, t["xs"][0])
                    return ("next_state", v[2] if isinstance(v, tuple) and v[0] == "var" else "?")
            return None
        env = {str(state_l): ("var", ST, state_variant)}
        for i, v in payload.items():
            env["%d@%s.%d" % (state_l, state_variant, i)] = v
        w = kwalk.Walker(F, body, call_result=hook, on_stmt=on_stmt, on_term=on_term, ordered_marks=True, want_ret=True)
        outs = w.run(head, env)
        rep.states += w.states_explored
        return outs
    n_rows = 0
    for k in kinds:
        for tok in tokens:
            outs = walk("BinaryRhs", {0: ("var", BK, k)}, tok)
            res = set()
            for kind, marks, ret in outs:
                if kind.startswith("diverge"):
                    continue
                st = [m for m in marks if m[0] == "stack"]
                nx = [m for m in marks if m[0] == "next_state"]
                res.add((tuple((m[2][0], m[2][2]) for m in st if m[1] == "BinaryRhs"), tuple(m[1] for m in nx)))
            want_op = LEVELS.get(k, {}).get(tok)
            if want_op:
                exp = {(((k, want_op),), (k,))}
            else:
                exp = {((), ())}
            n_rows += 1
            ok = res == exp
            rep.ob(R, "level|%s|%s" % (k, tok), ok, {"level": k, "token": tok, "pushed(level,op)/operand_level": sorted(map(str, res))}
                   if want_op and k in ("Mul", "EqCmp") else None)
            if not ok:
                rep.violation(R, "parse_expr|BinaryRhs|%s|%s" % (k, tok),
                              "at precedence level %s the token %s yields %s; the specification says %s "
                              "(operator, continuation level, right operand parsed via next_state(level))"
                              % (k, tok, sorted(map(str, res)), sorted(map(str, exp))), pe.loc)
    rep.floor(R, n_rows, 10 * 50, "level x token rows")
    # `e in super` (super not followed by `.` or `[`): the finished node is the left operand of the *same* level again,
    # so further comparison operators chain after it like after any other operand
    for k in kinds:
        outs = walk("BinaryRhs", {0: ("var", BK, k)}, "In", peek=("Super",))
        res = set()
        for kind, marks, ret in outs:
            if kind.startswith("diverge"):
                continue
            nodes = tuple(m[1] for m in marks if m[0] == "node" and m[1] == "InSuper")
            sts = tuple((m[1], m[2][0] if m[2] else "?") for m in marks if m[0] == "state")
            stk = tuple((m[2][0], m[2][2]) for m in marks if m[0] == "stack" and m[1] == "BinaryRhs")
            res.add((nodes, sts[-1:] if nodes else (), stk if not nodes else ()))
        if k == "OrdCmp":
            exp = {(("InSuper",), (("BinaryRhs", "OrdCmp"),), ())}
        else:
            exp = {((), (), ())}
        ok = res == exp
        rep.ob(R, "in-super|%s" % k, ok, {"level": k, "result": sorted(map(str, res))} if k == "OrdCmp" else None)
        if not ok:
            rep.violation(R, "parse_expr|BinaryRhs|%s|in-super" % k,
                          "at level %s, `e in super` yields %s; expected %s (an InSuper node that stays the left operand "
                          "of the comparison level, so `a in super < b` keeps parsing)" % (k, sorted(map(str, res)), sorted(map(str, exp))), pe.loc)
    for tok in tokens:
        outs = walk("Unary", {}, tok)
        res = set()
        for kind, marks, ret in outs:
            if kind.startswith("diverge"):
                continue
            res.add(tuple(m[2][0] for m in marks if m[0] == "stack" and m[1] == "Unary"))
        exp = {(UNARY[tok],)} if tok in UNARY else {()}
        ok = res == exp
        rep.ob(R, "unary|%s" % tok, ok, {"token": tok, "unary_op": sorted(map(str, res))} if tok in UNARY else None)
        if not ok:
            rep.violation(R, "parse_expr|Unary|%s" % tok, "in unary position the token %s yields %s, specification: %s"
                          % (tok, sorted(map(str, res)), sorted(map(str, exp))), pe.loc)
    rep.trust("Jsonnet specification operator precedence table, transcribed in rules/c15.py")


def rule_r2(F, rep):
    R = rep.rule("C15.R2", "a syntax error always points at a token of the input: ParseError::Expected is constructed "
                 "only by report_expected, from the span of the current token")
    PERR = "rsjsonnet_lang::parser::error::ParseError"
    sites = cg.who_constructs(F, PERR, "Expected", crates=("rsjsonnet_lang",))
    owner = "<%s>::report_expected" % PARSER
    for fn, bb, si, s in sites:
        ok = fn.q == owner
        if ok:
            P = prov.Prov(F, fn.body)
            a = F.adt(PERR)
            v = [x for x in a["variants"] if x["n"] == "Expected"][0]
            si_ = [i for i, f in enumerate(v["fields"]) if f["n"] == "span"][0]
            org = P.origins_op(s["rv"]["xs"][si_])
            ok = org == {("field", PARSER, "curr_token")} or org == {("field", "rsjsonnet_lang::token::Token", "span")}
        rep.ob(R, "construct-Expected|%s" % fn.q, ok, {"fn": fn.q})
        if not ok:
            rep.violation(R, "%s|constructs-Expected" % fn.q, "ParseError::Expected built outside report_expected or "
                          "not from the current token's span", fn.body.span(s["sp"]))
    rep.floor(R, len(sites), 1, "ParseError::Expected construction sites")


SLICE_LAYOUTS = [
    # tokens after `[` (E = an expression), expected (index?, start, end, step) presence
    (("E", "RightBracket"), ("Index", 1, 0, 0)),
    (("Colon", "RightBracket"), ("Slice", 0, 0, 0)),
    (("ColonColon", "RightBracket"), ("Slice", 0, 0, 0)),
    (("Colon", "Colon", "RightBracket"), ("Slice", 0, 0, 0)),
    (("ColonColon", "E", "RightBracket"), ("Slice", 0, 0, 1)),
    (("Colon", "Colon", "E", "RightBracket"), ("Slice", 0, 0, 1)),
    (("Colon", "E", "RightBracket"), ("Slice", 0, 1, 0)),
    (("Colon", "E", "Colon", "RightBracket"), ("Slice", 0, 1, 0)),
    (("Colon", "E", "Colon", "E", "RightBracket"), ("Slice", 0, 1, 1)),
    (("E", "Colon", "RightBracket"), ("Slice", 1, 0, 0)),
    (("E", "ColonColon", "RightBracket"), ("Slice", 1, 0, 0)),
    (("E", "Colon", "Colon", "RightBracket"), ("Slice", 1, 0, 0)),
    (("E", "ColonColon", "E", "RightBracket"), ("Slice", 1, 0, 1)),
    (("E", "Colon", "Colon", "E", "RightBracket"), ("Slice", 1, 0, 1)),
    (("E", "Colon", "E", "RightBracket"), ("Slice", 1, 1, 0)),
    (("E", "Colon", "E", "Colon", "RightBracket"), ("Slice", 1, 1, 0)),
    (("E", "Colon", "E", "Colon", "E", "RightBracket"), ("Slice", 1, 1, 1)),
    # not in the grammar
    (("RightBracket",), ("error",)),
    (("E", "Colon", "E", "Colon", "E", "Colon", "RightBracket"), ("error",)),
    (("Colon", "ColonColon", "RightBracket"), ("error",)),
]


def rule_r3(F, rep):
    R = rep.rule("C15.R3", "the slice grammar accepts exactly its layouts: for every arrangement of start / end / step and the "
                 "`:` / `::` tokens between `[` and `]`, parse_index_expr accepts the arrangement and builds an Index or Slice "
                 "node with exactly the operands that are present (an empty step after a second colon is allowed everywhere)")
    fn = F.fn("<%s>::parse_index_expr" % PARSER)
    rep.fn(fn)
    body = fn.body
    EK = [q for q in F.adts if q.endswith("ast::ExprKind")]
    if not EK:
        raise facts_AnchorMissing("ast::ExprKind")
    EK = EK[0]
    RESULT = "core::result::Result"
    for toks, want in SLICE_LAYOUTS:
        def hook(w, bb, t, env, args, toks=toks):
            n = callee_name(t) or ""
            i = env.get("#tok", 0)
            nxt = toks[i] if i < len(toks) else None
            if n == "<%s>::eat_simple" % PARSER:
                a = args[1]
                if not (isinstance(a, tuple) and a[0] == "var"):
                    raise kwalk.WalkLimit("the token kind asked for is not a constant at this call (table-driven parser code)")
                if isinstance(a, tuple) and a[0] == "var" and a[2] == nxt:
                    env["#tok"] = i + 1
                    return ("var", OPTION, "Some")
                return ("var", OPTION, "None")
            if n == "<%s>::expect_simple" % PARSER:
                a = args[1]
                if not (isinstance(a, tuple) and a[0] == "var"):
                    raise kwalk.WalkLimit("the token kind asked for is not a constant at this call (table-driven parser code)")
                if isinstance(a, tuple) and a[0] == "var" and a[2] == nxt:
                    env["#tok"] = i + 1
                    return ("var", RESULT, "Ok")
                return ("var", RESULT, "Err")
            if n == "<%s>::parse_expr" % PARSER:
                if nxt == "E":
                    env["#tok"] = i + 1
                    return ("var", RESULT, "Ok")
                return ("var", RESULT, "Err")
            if n == "<%s>::peek_simple" % PARSER:
                a = args[1]
                if not (isinstance(a, tuple) and a[0] == "var"):
                    raise kwalk.WalkLimit("the token kind asked for is not a constant at this call (table-driven parser code)")
                return int(isinstance(a, tuple) and a[0] == "var" and a[2] == nxt)
            return None

        def on_stmt(w, bb, idx, st, env):
            if st["k"] != "assign":
                return None
            rv = st["rv"]
            if rv["k"] == "agg" and rv["ak"] == "adt" and rv["adt"] == EK and rv["v"] in ("Slice", "Index"):
                pres = []
                for x in rv["xs"][1:]:
                    v = w.val(env, x)
                    if isinstance(v, tuple) and v[0] == "var" and v[1] == OPTION:
                        pres.append(1 if v[2] == "Some" else 0)
                    else:
                        pres.append(1 if rv["v"] == "Index" else "?")
                while len(pres) < 3:
                    pres.append(0)
                return ("node", rv["v"]) + tuple(pres) + (env.get("#tok", 0),)
            return None
        w = kwalk.Walker(F, body, call_result=hook, on_stmt=on_stmt, want_ret=True)
        outs = w.run(0, {})
        rep.states += w.states_explored
        res = set()
        for kind, marks, ret in outs:
            if kind != "return":
                continue
            d = dict(ret or ())
            top = d.get("0")
            okret = isinstance(top, tuple) and top[0] == "var" and top[2] == "Ok"
            nodes = [m for m in marks if m[0] == "node"]
            if okret and nodes:
                m = nodes[-1]
                res.add((m[1], m[2], m[3], m[4]) if m[5] == len(toks) else ("accepted-with-leftover",))
            elif okret:
                res.add(("ok-without-node",))
            else:
                res.add(("error",))
        exp = {want}
        ok = res == exp
        name = " ".join(toks)
        rep.ob(R, "slice|%s" % name, ok, {"tokens": name, "result": sorted(map(str, res)), "expected": str(want)}
               if len(toks) in (2, 5) else None)
        if not ok:
            rep.violation(R, "parse_index_expr|layout|%s" % name,
                          "after `[`, the token sequence `%s` gives %s; the slice grammar requires %s (node, start, end, step present)"
                          % (name, sorted(map(str, res)), want), fn.loc)
    rep.floor(R, len(SLICE_LAYOUTS), 17, "slice layouts")


VIS_TOKENS = {"Colon": (0, "Default"), "ColonColon": (0, "Hidden"), "ColonColonColon": (0, "ForceVisible"),
              "PlusColon": (1, "Default"), "PlusColonColon": (1, "Hidden"), "PlusColonColonColon": (1, "ForceVisible")}


def rule_r4(F, rep):
    R = rep.rule("C15.R4", "the six field separators mean what the grammar says: `:` `::` `:::` give default / hidden / forced "
                 "visibility, their `+` forms the same visibilities with inheritance (`f+: e` is `f: super.f + e`)")
    VIS = [q for q in F.adts if q.endswith("ast::Visibility")][0]
    for fname, plus_ok in (("eat_plus_visibility", True), ("eat_visibility", False)):
        fn = F.fn("<%s>::%s" % (PARSER, fname))
        rep.fn(fn)
        for tok in F.variants(STK):
            def hook(w, bb, t, env, args, tok=tok):
                n = callee_name(t) or ""
                if n == "<%s>::eat_simple" % PARSER:
                    a = args[1]
                    if not (isinstance(a, tuple) and a[0] == "var"):
                        raise kwalk.WalkLimit("the token kind asked for is not a constant at this call (table-driven parser code)")
                    if isinstance(a, tuple) and a[0] == "var" and a[2] == tok and not env.get("#eaten"):
                        env["#eaten"] = 1
                        return ("var", OPTION, "Some")
                    return ("var", OPTION, "None")
                if n == "<%s>::eat_visibility" % PARSER:
                    if tok in VIS_TOKENS and VIS_TOKENS[tok][0] == 0 and not env.get("#eaten"):
                        env["#eaten"] = 1
                        dst = w.norm(env, t["dst"])
                        env["%s@Some.0" % dst] = ("var", VIS, VIS_TOKENS[tok][1])
                        return ("var", OPTION, "Some")
                    return ("var", OPTION, "None")
                return None
            w = kwalk.Walker(F, fn.body, call_result=hook, want_ret=True, ret_prefixes=("0",))
            outs = w.run(0, {})
            rep.states += w.states_explored
            res = set()
            for kind, marks, ret in outs:
                if kind != "return":
                    continue
                d = dict(ret or ())
                top = d.get("0")
                if isinstance(top, tuple) and top[0] == "var" and top[2] == "None":
                    res.add(None)
                elif isinstance(top, tuple) and top[0] == "var" and top[2] == "Some":
                    if plus_ok:
                        pl = d.get("0@Some.0.0")
                        vv = d.get("0@Some.0.1")
                        res.add((pl, vv[2] if isinstance(vv, tuple) else "?"))
                    else:
                        vv = d.get("0@Some.0")
                        res.add((0, vv[2] if isinstance(vv, tuple) else "?"))
                else:
                    res.add("?")
            want = VIS_TOKENS.get(tok)
            if want is not None and (plus_ok or want[0] == 0):
                exp = {want}
            else:
                exp = {None}
            ok = res == exp
            rep.ob(R, "%s|%s" % (fname, tok), ok, {"token": tok, "result(plus, visibility)": sorted(map(str, res))} if tok in VIS_TOKENS else None)
            if not ok:
                rep.violation(R, "%s|%s" % (fname, tok), "%s on token %s yields %s; the grammar says %s (inherit, visibility)"
                              % (fname, tok, sorted(map(str, res)), sorted(map(str, exp))), fn.loc)


SUFFIX_STARTS = ("Dot", "LeftBracket", "LeftParen", "LeftBrace")


def rule_r5(F, rep):
    R = rep.rule("C15.R5", "postfix forms chain without restriction: parse_suffix_expr returns its expression only from an "
                 "iteration in which none of `.`, `[`, `(`, `{` was found; after any consumed suffix (a call with `tailstrict` "
                 "included) the loop looks for the next one, so `e(args) tailstrict.f` parses like `(e(args) tailstrict).f`")
    fn = F.fn("<%s>::parse_suffix_expr" % PARSER)
    rep.fn(fn)
    n = 0
    for first in (None,) + SUFFIX_STARTS:
        def hook(w, bb, t, env, args, first=first):
            nm = callee_name(t) or ""
            if nm == "<%s>::eat_simple" % PARSER:
                a = args[1]
                if not (isinstance(a, tuple) and a[0] == "var"):
                    raise kwalk.WalkLimit("the token kind asked for is not a constant at this call (table-driven parser code)")
                if isinstance(a, tuple) and a[0] == "var" and a[2] in SUFFIX_STARTS:
                    if a[2] == first and not env.get("#eaten"):
                        env["#eaten"] = 1
                        return ("var", OPTION, "Some")
                    return ("var", OPTION, "None")
            return None
        w = kwalk.Walker(F, fn.body, call_result=hook, want_ret=True, ret_prefixes=("0",))
        outs = w.run(0, {})
        rep.states += w.states_explored
        kinds = set()
        for kind, marks, ret in outs:
            if kind != "return":
                continue
            top = dict(ret or ()).get("0")
            kinds.add(top[2] if isinstance(top, tuple) and top[0] == "var" else "?")
        n += 1
        if first is None:
            ok = "Ok" in kinds
            rep.ob(R, "no-suffix|returns", ok, {"returns": sorted(kinds)})
            if not ok:
                rep.violation(R, "parse_suffix_expr|no-suffix|never-returns", "with no suffix token ahead parse_suffix_expr does not "
                              "return its expression (returns: %s)" % sorted(kinds), fn.loc)
        else:
            # after consuming this suffix the only way out of the same iteration is an error; Ok needs another look at the input.
            # (the walk continues into the next iteration, where every probe answers None -> Ok is then legitimate; so the test is
            #  made on the first iteration only: stop at the loop head)
            pass
    # first-iteration test: forbid reaching an Ok return after a consumed suffix without passing the loop head again
    body = fn.body
    from . import cfg
    heads = cfg.loop_heads(body.succ_map(), 0) if hasattr(cfg, "loop_heads") else None
    if not heads:
        # fall back: the loop head is the target of a back edge in DFS order
        heads = set()
        seen, stack, onstack = set(), [(0, iter(body.succs(0)))], {0}
        seen.add(0)
        while stack:
            b, it = stack[-1]
            adv = False
            for s2 in it:
                if s2 in onstack:
                    heads.add(s2)
                elif s2 not in seen and not body.blocks[s2]["cleanup"]:
                    seen.add(s2)
                    onstack.add(s2)
                    stack.append((s2, iter(body.succs(s2))))
                    adv = True
                    break
            if not adv:
                onstack.discard(b)
                stack.pop()
    for first in SUFFIX_STARTS:
        def hook(w, bb, t, env, args, first=first):
            nm = callee_name(t) or ""
            if nm == "<%s>::eat_simple" % PARSER:
                a = args[1]
                if not (isinstance(a, tuple) and a[0] == "var"):
                    raise kwalk.WalkLimit("the token kind asked for is not a constant at this call (table-driven parser code)")
                if isinstance(a, tuple) and a[0] == "var" and a[2] in SUFFIX_STARTS:
                    if a[2] == first:
                        env["#eaten"] = 1
                        return ("var", OPTION, "Some")
                    return ("var", OPTION, "None")
            return None

        def on_term(w, bb, t, env):
            # stop when the loop head is reached again after a suffix has been consumed
            if bb in heads and env.get("#eaten"):
                return kwalk.STOP
            return None
        w = kwalk.Walker(F, body, call_result=hook, on_term=on_term, want_ret=True, ret_prefixes=("0",))
        outs = w.run(0, {})
        rep.states += w.states_explored
        oks = 0
        for kind, marks, ret in outs:
            if kind != "return":
                continue
            top = dict(ret or ()).get("0")
            if isinstance(top, tuple) and top[0] == "var" and top[2] == "Ok":
                oks += 1
        n += 1
        ok = oks == 0
        rep.ob(R, "after|%s|continues" % first, ok, {"suffix": first, "ok_returns_in_same_iteration": oks})
        if not ok:
            rep.violation(R, "parse_suffix_expr|%s|returns-without-looking-for-more" % first,
                          "after consuming a suffix that starts with %s, parse_suffix_expr can return without looking for a further "
                          "suffix: `e<suffix>.f`, `e<suffix>[i]`, ... are then rejected or grouped differently from their "
                          "parenthesised form" % first, fn.loc)
    rep.floor(R, n, 9, "suffix scenarios")


def rule_r6(F, rep):
    R = rep.rule("C15.R6", "the precedence machine resumes a binary level only with the level it suspended: every "
                 "`State::BinaryRhs(level, expr)` built in parse_expr takes its level from the stack item / state it was "
                 "suspended in (BinaryLhs(level), BinaryRhs(level, ..)), never a constant. A constant level makes a finished operand "
                 "(a unary, parenthesised or suffix expression) look for that level's operators while an enclosing tighter "
                 "construct (a pending prefix operator) is still open, so `~~a * b` groups as `~((~a) * b)`")
    pe = F.fn(PE)
    fns = [pe] + [f for f in F.fn_list if f.crate.name == "rsjsonnet_lang" and F.is_new_fn(f.q) and f.q.startswith("<%s>::" % PARSER)]
    n = 0
    for fn in fns:
        body = fn.body
        defs = {}
        for bb, si, st in body.assigns():
            if not st["p"]["p"]:
                defs.setdefault(st["p"]["l"], []).append(st["rv"])

        def origin(op, depth=0):
            """'const:<Variant>' | 'payload' | 'param' | 'unknown'"""
            if op["k"] == "const":
                return {"const:?"}
            if op["p"]:
                return {"payload"}          # a field / downcast projection of a matched value
            l = op["l"]
            if 0 < l <= body.argc:
                return {"param"}
            out = set()
            for rv in defs.get(l, []):
                if rv["k"] == "agg" and rv["ak"] == "adt" and rv.get("adt") == BK:
                    out.add("const:" + rv["v"])
                elif rv["k"] == "use" and depth < 6:
                    out |= origin(rv["x"], depth + 1)
                else:
                    out.add("unknown")
            return out or {"payload"}       # pattern-bound: no assignment in this body
        for bb, si, st in body.assigns():
            rv = st["rv"]
            if rv["k"] == "agg" and rv["ak"] == "adt" and rv.get("adt") == ST and rv["v"] == "BinaryRhs":
                n += 1
                org = origin(rv["xs"][0])
                consts = sorted(o for o in org if o.startswith("const:"))
                ok = not consts
                rep.ob(R, "%s|BinaryRhs@%d" % (fn.q.rsplit("::", 1)[-1], n), ok, {"level_origin": sorted(org)})
                if not ok:
                    rep.violation(R, "%s|BinaryRhs-constant-level|%s" % (fn.q, consts[0][6:]),
                                  "parse_expr resumes the binary level %s by constant instead of the level it suspended: the "
                                  "finished operand looks for that level's operators even when a tighter construct is still "
                                  "pending on the stack" % consts[0][6:], body.span(st["sp"]))
    rep.floor(R, n, 3, "State::BinaryRhs constructions")


def rule_r7(F, rep):
    R = rep.rule("C15.R7", "object body / comprehension disambiguation: parse_obj_inside hands its members to make_comp only when make_comp "
                 "accepts every one of them — for each member shape (object local; assert; field by name kind x plain/method x "
                 "visibility) and each short sequence of members, if the member loop can reach the `make_comp(..)` call having parsed "
                 "exactly those members, then make_comp walked over the same members reaches no `unreachable!()` / failed assertion. "
                 "The two sites must agree on which bodies may become a comprehension; a disagreement is a parser panic on a "
                 "malformed comprehension instead of a syntax error")
    POI = "<%s>::parse_obj_inside" % PARSER
    fn = F.fn(POI)
    mk = F.fn_opt(POI + "::make_comp")
    if mk is None:
        raise kwalk.WalkLimit("parse_obj_inside: no separate make_comp to cross-check")
    rep.fn(fn, mk)
    FIELD = "rsjsonnet_lang::ast::Field"
    FNAME = "rsjsonnet_lang::ast::FieldName"
    MEMBER = "rsjsonnet_lang::ast::Member"
    VIS = "rsjsonnet_lang::ast::Visibility"
    RESULT = "core::result::Result"
    fvars = {v["n"]: v for v in F.adt(FIELD)["variants"]}

    def idx_of(variant, adt):
        # position of the payload field of a given ADT type inside a Field variant
        for i, f in enumerate(fvars[variant]["fields"]):
            t = F.adt(FIELD)["_crate"].types[f["t"]]
            if t["k"] == "adt" and t["d"] == adt:
                return i
        raise kwalk.WalkLimit("Field::%s has no %s payload" % (variant, adt))
    shapes = [("Local",), ("Assert",)]
    for fv in fvars:
        for nk in F.variants(FNAME):
            for vis in F.variants(VIS):
                shapes.append(("Field", fv, nk, vis))
    good = [sh for sh in shapes if sh[0] == "Field" and sh[1] == "Value" and sh[2] == "Expr" and sh[3] == "Default"]
    scripts = [(sh,) for sh in shapes] + [(("Local",), sh) for sh in shapes if sh[0] == "Field"]
    if good:
        scripts += [(good[0], sh) for sh in shapes] + [(good[0], ("Local",), good[0])]

    def set_field(env, pre, sh):
        env[pre] = ("var", FIELD, sh[1])
        env["%s@%s.%d" % (pre, sh[1], idx_of(sh[1], FNAME))] = ("var", FNAME, sh[2])
        env["%s@%s.%d" % (pre, sh[1], idx_of(sh[1], VIS))] = ("var", VIS, sh[3])

    def producer(script):
        def hook(w, bb, t, env, args):
            if w.pre:
                return None
            nm = (callee_name(t) or "").rsplit("::", 1)[-1]
            dst = w.norm(env, t["dst"])
            k = env.get("#iter", 0)
            if nm == "maybe_parse_obj_local":
                k += 1
                env["#iter"] = k
            if nm in ("maybe_parse_obj_local", "maybe_parse_field", "maybe_parse_assert"):
                want = {"maybe_parse_obj_local": "Local", "maybe_parse_field": "Field", "maybe_parse_assert": "Assert"}[nm]
                sh = script[k - 1] if 1 <= k <= len(script) else None
                if sh is not None and sh[0] == want:
                    env["%s@Ok.0" % dst] = ("var", OPTION, "Some")
                    if want == "Field":
                        set_field(env, "%s@Ok.0@Some.0" % dst, sh)
                else:
                    env["%s@Ok.0" % dst] = ("var", OPTION, "None")
                return ("var", RESULT, "Ok")
            return None

        def on_term(w, bb, t, env):
            if not w.pre and t["k"] == "call" and (callee_name(t) or "").endswith("::make_comp"):
                return (kwalk.STOP, ("comp", env.get("#iter", 0)))
            return None
        w = kwalk.Walker(F, fn.body, call_result=hook, on_term=on_term, max_states=300000)
        outs = w.run(0, {})
        rep.states += w.states_explored
        return any(("comp", len(script)) in marks for kind, marks, _ in outs)

    def consumer(script):
        def hook(w, bb, t, env, args):
            nm = callee_name(t) or ""
            if nm.endswith("Iterator>::next") and not w.pre:
                k = env.get("#iter", 0)
                dst = w.norm(env, t["dst"])
                if k < len(script):
                    env["#iter"] = k + 1
                    sh = script[k]
                    env["%s@Some.0" % dst] = ("var", MEMBER, sh[0])
                    if sh[0] == "Field":
                        set_field(env, "%s@Some.0@Field.0" % dst, sh)
                    return ("var", OPTION, "Some")
                return ("var", OPTION, "None")
            return None

        def on_term(w, bb, t, env):
            if t["k"] == "call" and (callee_name(t) or "").startswith("core::panicking::"):
                x = t["xs"][0] if t["xs"] else {}
                return (kwalk.STOP, ("panic", str(x.get("str") or x.get("s") or "")[:60]))
            return None
        w = kwalk.Walker(F, mk.body, call_result=hook, on_term=on_term, max_states=100000)
        outs = w.run(0, {})
        rep.states += w.states_explored
        return sorted({m[1] for kind, marks, _ in outs for m in marks if m[0] == "panic"})
    n = 0
    reach_any = False
    for script in scripts:
        if not any(sh[0] == "Field" for sh in script):
            allowed = producer(script)
        else:
            allowed = producer(script)
        reach_any = reach_any or allowed
        panics = consumer(script) if allowed else []
        n += 1
        name = " , ".join("/".join(sh) for sh in script)
        ok = not panics
        rep.ob(R, "members|%s" % name, ok, {"members": name, "may become a comprehension": allowed, "make_comp panics": panics} if allowed else None)
        if not ok:
            rep.violation(R, "%s|comp-disagreement|%s" % (POI, name), "an object body with the members [%s] followed by `for` reaches "
                          "make_comp, which does not accept them (%s): the parser panics instead of reporting a syntax error"
                          % (name, panics[0]), fn.loc)
    rep.floor(R, n, 30, "member sequences")
    if not reach_any:
        raise kwalk.WalkLimit("parse_obj_inside: the walk never reaches make_comp (shape not understood)")


def run(F, rep, tier):
    rep.attempt(rule_r1, F, rep)
    rep.attempt(rule_r2, F, rep)
    rep.attempt(rule_r3, F, rep)
    rep.attempt(rule_r4, F, rep)
    rep.attempt(rule_r5, F, rep)
    rep.attempt(rule_r6, F, rep)
    rep.attempt(rule_r7, F, rep)
    # node spans are built by SpanManager::make_surrounding_span: only through the checked constructor, packed fields bounded
    from . import c16
    rep.attempt(c16.rule_r2, F, rep)
    rep.attempt(c16.rule_r5, F, rep)
    rep.assume("print/re-parse stability is not decided (no printer exists in the repository); node span containment "
               "is not decided")
    return EXPLANATION
