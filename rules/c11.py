"""C11 — a program state's answers do not depend on its past requests.

History-independence of values is behavioural.  Decided clauses:
  R1  no thunk is left `InProgress` by a failed request: every error exit of Evaluator::eval must pass a
      step that restores the thunks whose evaluation was under way           (today: known finding)
  R2  nothing else survives a request: evaluator state is built fresh per request; during a request only
      the collector bookkeeping, the span/source registries and memoised thunks of the Program change
  R3  a field name that was never interned behaves exactly like an absent field
"""
from . import cg, prov, kwalk, cfg, evalmarks as em
from .facts import callee_name, AnchorMissing

EXPLANATION = (
    "Static analysis: call-graph reachability from the error exit of Evaluator::eval to any mutator of "
    "ThunkData.state; who-may-write of Program fields restricted to functions reachable from a request; "
    "who-may-construct Evaluator; paired walks of every get_interned site (never interned vs interned but "
    "absent) comparing the outcome constructors."
)

E = em.EVAL
PROGRAM = em.PROGRAM
THUNK = "rsjsonnet_lang::program::data::ThunkData"
OPTION = "core::option::Option"


def state_mutators(F):
    out = set()
    for fn in F.fn_list:
        if fn.crate.name != "rsjsonnet_lang":
            continue
        P = None
        for bb, t in fn.body.calls():
            n = callee_name(t) or ""
            if n in ("<core::cell::RefCell>::borrow_mut", "<core::cell::RefCell>::replace", "<core::cell::RefCell>::swap",
                     "<core::cell::RefCell>::take", "<core::cell::RefCell>::replace_with"):
                P = P or prov.Prov(F, fn.body)
                if any(o[0] == "field" and o[1] == THUNK and o[2] == "state" for o in P.origins_op(t["xs"][0])):
                    out |= cg.known_owners(F, fn.q)
    return out


def rule_r1(F, rep):
    R = rep.rule("C11.R1", "a request that fails leaves no thunk in the `in progress` state: the error exit of the "
                 "evaluator passes a step that puts the thunks under evaluation back (otherwise a later request "
                 "touching one of them reports infinite recursion instead of the outcome a fresh state gives)")
    ev = F.fn("<%s>::eval" % E)
    rep.fn(ev)
    body = ev.body
    succ = body.succ_map()
    G = cg.get(F)
    muts = state_mutators(F)
    rep.note("mutators of ThunkData.state: %s" % sorted(muts))
    # error exit: blocks reachable from the Break edge of `run()?`
    err_blocks = set()
    run_call = None
    for bb, t in body.calls():
        n = callee_name(t) or ""
        if n == "<%s>::run" % E:
            run_call = bb
        if n.endswith("core::ops::try_trait::FromResidual>::from_residual"):
            err_blocks.add(bb)
    if run_call is None or not err_blocks:
        rep.violation(R, "%s|shape" % ev.q, "Evaluator::eval no longer has the `self.run()?` shape (anchor)", ev.loc)
        return
    # all blocks on error paths: those from which a from_residual block is reachable but the Ok continuation is not required;
    # approximate by the blocks dominated by the Break edge of the `?` following run()
    pred = body.pred_map()
    on_err = set()
    for eb in err_blocks:
        # walk back until the switch that selected the Break arm
        cur = eb
        chain = [cur]
        while len(pred[cur]) == 1 and body.blocks[pred[cur][0]]["t"]["k"] != "switch":
            cur = pred[cur][0]
            chain.append(cur)
        on_err |= set(chain)
        on_err |= cfg.reachable(succ, [eb])
    restoring = []
    for bb in sorted(on_err):
        t = body.blocks[bb]["t"]
        if t["k"] == "call":
            n = callee_name(t) or ""
            # does the callee (transitively) reach a mutator of ThunkData.state?
            targets = G.instances_of(n) or [n]
            reach = G.reachable_from(targets)
            defs = {G.nodes[x]["def"] for x in reach if x in G.nodes} | {n}
            if defs & muts:
                restoring.append((bb, n))
    ok = bool(restoring)
    rep.ob(R, "eval|error-exit-restores-thunks", ok, {"error_exit_blocks": sorted(on_err)[:8], "restoring_calls": restoring})
    if not ok:
        rep.violation(R, "%s|Err-exit|ThunkState::InProgress" % ev.q,
                      "when run() fails, Evaluator::eval returns without any step that resets the thunks it had marked "
                      "in progress (no call on the error exit reaches a mutator of ThunkData.state): a later request on the "
                      "same Program that touches such a thunk fails with `infinite recursion`", body.span(body.blocks[sorted(err_blocks)[0]]["t"]["sp"]))
    # the other progress marker a request sets before the work is done: ObjectData.asserts_checked
    OBJ = "rsjsonnet_lang::program::data::ObjectData"
    setters = []
    for fn in F.fn_list:
        if fn.crate.name != "rsjsonnet_lang":
            continue
        P = None
        for bb, t in fn.body.calls():
            if (callee_name(t) or "") != "<core::cell::Cell>::set":
                continue
            if P is None:
                P = prov.Prov(F, fn.body)
                P.with_base = True
            org = P.origins_op(t["xs"][0])
            if any(o[0] == "field" and o[1] == OBJ and o[2] == "asserts_checked" for o in org):
                v = t["xs"][1]
                setters.append((fn, bb, v.get("v") if v["k"] == "const" else None))
    early = []
    for fn, bb, val in setters:
        if val != 1:
            continue
        # assertion states scheduled by the same function after the flag is set: the flag says "checked" before they ran
        succ2 = fn.body.succ_map()
        after = cfg.reachable(succ2, [bb])
        sched = any(st["k"] == "assign" and st["rv"]["k"] == "agg" and st["rv"].get("adt") == em.STATE and st["rv"]["v"] == "Assert"
                    for b2 in after for st in fn.body.blocks[b2]["s"])
        if sched:
            early.append((fn, bb))
    # is the flag ever put back (set(false)) on the error exit of eval?
    resets_on_err = False
    for bb in sorted(on_err):
        t = body.blocks[bb]["t"]
        if t["k"] == "call":
            n = callee_name(t) or ""
            targets = G.instances_of(n) or [n]
            reach = G.reachable_from(targets)
            defs = {G.nodes[x]["def"] for x in reach if x in G.nodes} | {n}
            if any(fn.q in defs and val == 0 for fn, _, val in setters):
                resets_on_err = True
    ok2 = not early or resets_on_err
    rep.ob(R, "eval|error-exit-restores-assert-flags", ok2, {"flag_set_before_assertions_run_in": sorted({fn.q for fn, _ in early}),
                                                             "reset_on_error_exit": resets_on_err})
    if not ok2:
        fn0, bb0 = early[0]
        rep.violation(R, "%s|Err-exit|asserts_checked" % ev.q,
                      "%s marks an object's assertions as checked before they have run, and the error exit of Evaluator::eval never "
                      "clears the mark: after a request that failed on such an assertion, a later request on the same state skips "
                      "it and succeeds where a fresh state fails" % fn0.q, fn0.body.span(fn0.body.blocks[bb0]["t"]["sp"]))
    # on the success path everything was completed: the emptiness assertions are reached
    names = [callee_name(t) or "" for _, t in body.calls()]
    asserts = sum(1 for n in names if n.endswith("Vec>::is_empty"))
    rep.ob(R, "eval|success-exit-asserts-stacks-empty", asserts >= 5, {"is_empty_assertions": asserts})
    if asserts < 5:
        rep.violation(R, "%s|success-asserts" % ev.q, "the success exit no longer asserts that all evaluator stacks are empty", ev.loc)


def rule_r2(F, rep):
    R = rep.rule("C11.R2", "nothing but memoised thunks, collector bookkeeping and the span/source registries outlives "
                 "a request: the evaluator is constructed fresh for each request and no other Program field is written "
                 "by code reachable from a request")
    sites = cg.who_constructs(F, E)
    ok = len(sites) == 1 and sites[0][0].q == "<%s>::eval" % E
    rep.ob(R, "Evaluator|constructed-per-request", ok, {"sites": [s[0].q for s in sites]})
    if not ok:
        rep.violation(R, "Evaluator|construction", "Evaluator is constructed in %s (expected only in Evaluator::eval)" % [s[0].q for s in sites])
    # every field of Evaluator is initialised from constants / fresh containers / the request
    if sites:
        fn, bb, si, s = sites[0]
        P = prov.Prov(F, fn.body)
        rv = s["rv"]
        for nm, x in zip(rv["fn"], rv["xs"]):
            org = P.origins_op(x)
            fresh = all(o[0] in ("const", "arg") or (o[0] == "call" and (o[1].endswith("::new") or o[1].endswith("Vec>::new"))) for o in org)
            rep.ob(R, "Evaluator.%s|fresh" % nm, fresh, {"field": nm, "origins": sorted(map(str, org))[:3]} if nm in ("stack_trace_len", "state_stack") else None)
            if not fresh:
                rep.violation(R, "Evaluator.%s|not-fresh" % nm, "Evaluator.%s is initialised from %s" % (nm, sorted(map(str, org))), fn.body.span(s["sp"]))
    # Program fields written by request-reachable code
    G = cg.get(F)
    roots = G.instances_of("<%s>::eval" % E)
    reach_defs = {G.nodes[x]["def"] for x in G.reachable_from(roots)}
    prog = F.adt(PROGRAM)
    allowed = {"objs_after_last_gc", "span_mgr", "gc_ctx"}
    n = 0
    for f in prog["variants"][0]["fields"]:
        ws = [w for w in cg.who_writes_field(F, PROGRAM, f["n"]) if w[0].q in reach_defs]
        n += 1
        ok = not ws or f["n"] in allowed
        rep.ob(R, "Program.%s|request-writers" % f["n"], ok, {"field": f["n"], "writers": sorted({w[0].q for w in ws})} if ws else None)
        if not ok:
            w0 = ws[0]
            rep.violation(R, "Program.%s|written-during-request" % f["n"], "Program.%s is written by %s, which is reachable from a "
                          "request: state other than memoised thunks would leak into later requests" % (f["n"], sorted({w[0].q for w in ws})),
                          w0[0].body.span(w0[3]["sp"]))
    rep.floor(R, len(reach_defs), 300, "functions reachable from a request")


def _interned_pairs(F, rep, R, label, walker_fn):
    """walker_fn(mode) -> set of outcome descriptors for mode in ('never-interned', 'absent')"""
    a = walker_fn("never-interned")
    b = walker_fn("absent")

    def flat(xs):
        # callee summaries lump the helper's possible errors together: compare the sets of possible
        # error kinds and of possible results, not per-path tuples
        return (frozenset(e for errs, _ in xs for e in errs), frozenset(v for _, vals in xs for v in vals))
    ok = flat(a) == flat(b) and bool(a)
    rep.ob(R, label, ok, {"site": label, "never_interned": sorted(map(str, a)), "interned_but_absent": sorted(map(str, b))})
    if not ok:
        rep.violation(R, "%s|interned-vs-absent" % label, "%s: a name that was never interned leads to %s, an interned but absent "
                      "field to %s — whether some earlier request happened to intern the string becomes observable"
                      % (label, sorted(map(str, a)), sorted(map(str, b))))


ABSENT_HOOKS = {
    "<rsjsonnet_lang::program::Program>::find_object_field_thunk": ("var", OPTION, "None"),
    "<rsjsonnet_lang::program::data::ObjectData>::has_field": 0,
    "<rsjsonnet_lang::program::data::ObjectData>::has_visible_field": 0,
    "<rsjsonnet_lang::program::data::ObjectData>::find_field": ("var", OPTION, "None"),
}


def rule_r3(F, rep):
    R = rep.rule("C11.R3", "looking a field up by a string that was never interned gives exactly the outcome of looking "
                 "up an interned name the object does not have (so earlier requests, which may intern strings, cannot "
                 "change later answers)")
    GI = "<rsjsonnet_lang::interner::StrInterner>::get_interned"

    # callee summaries: which errors does a field-wanting helper produce when the field is absent
    summaries = {}
    for helper in ("want_field", "want_super_field"):
        hf = F.fn("<%s>::%s" % (E, helper))
        rep.fn(hf)

        def absent(w, bb, t, env, args):
            n = callee_name(t) or ""
            if n in ABSENT_HOOKS:
                return ABSENT_HOOKS[n]
            return None
        m0 = em.Marker(F, hf.body, 1, False)
        w0 = kwalk.Walker(F, hf.body, on_term=m0.on_term, on_stmt=m0.on_stmt, ordered_marks=False, call_result=absent, want_ret=True)
        errs = set()
        for o in w0.run(0, {}):
            if em.is_err_return(o):
                errs |= {mm[1] for mm in o[1] if mm[0] == "err"}
        rep.states += w0.states_explored
        summaries["<%s>::%s" % (E, helper)] = errs

    def mk_hook(mode):
        def hook(w, bb, t, env, args):
            n = callee_name(t) or ""
            if mode == "absent" and n in summaries and env.get("#gi") is not None:
                for k in summaries[n]:
                    env["#err:" + k] = ("y",)
                return ("var", "core::result::Result", "Err")
            if n == GI:
                env["#gi"] = ("y",)
                if mode == "never-interned":
                    return ("var", OPTION, "None")
                return ("var", OPTION, "Some")
            if mode == "absent" and n in ABSENT_HOOKS and env.get("#gi") is not None:
                return ABSENT_HOOKS[n]
            if n.endswith("HashMap>::get") and mode == "absent" and env.get("#gi") is not None:
                return ("var", OPTION, "None")
            return None
        return hook

    def outcome(o):
        d0 = dict(o[2] or ())
        errs = tuple(sorted({m[1] for m in o[1] if m[0] == "err"} | {k[5:] for k in d0 if k.startswith("#err:")}))
        vals = tuple(m[2] for m in o[1] if m[0] == "push" and m[1] in ("value_stack", "bool_stack"))
        return (errs, vals)
    # the three evaluator arms
    for variant, values in (("Index", ["String", "Object"]), ("SuperIndex", ["String"]), ("InSuper", ["String"])):
        def wf(mode, variant=variant, values=values):
            outs = em.walk_run_arm(F, rep, variant, values=values, want_calls=False, extra_hook=mk_hook(mode), ordered=False)
            res = set()
            for o in outs:
                if o[0].startswith("diverge"):
                    continue
                d = dict(o[2] or ())
                res.add(outcome(o))
            return res
        _interned_pairs(F, rep, R, "run|%s" % variant, wf)
    # handler functions containing a get_interned call
    n = 0
    for fn in F.fn_list:
        if fn.crate.name != "rsjsonnet_lang" or fn.q == "<%s>::run" % E:
            continue
        if not any((callee_name(t) or "") == GI for _, t in fn.body.calls()):
            continue
        if not fn.q.startswith("<%s>::" % E):
            continue
        n += 1

        def wf(mode, fn=fn):
            body = fn.body
            m = em.Marker(F, body, 1, False)
            w = kwalk.Walker(F, body, on_term=m.on_term, on_stmt=m.on_stmt, ordered_marks=False,
                             call_result=mk_hook(mode), want_ret=True, ret_prefixes=("0", "#gi"), max_states=300000)
            outs = w.run(0, {})
            rep.states += w.states_explored
            res = set()
            for o in outs:
                if o[0].startswith("diverge"):
                    continue
                d = dict(o[2] or ())
                if d.get("#gi") is None:
                    continue
                res.add(outcome(o))
            return res
        _interned_pairs(F, rep, R, fn.q.rsplit("::", 1)[1], wf)
    rep.floor(R, n + 3, 6, "get_interned sites")


def rule_r5(F, rep):
    R = rep.rule("C11.R5", "what a request schedules depends only on the kind of request, never on what earlier requests "
                 "left memoised: for each EvalInput variant Evaluator::eval pushes one fixed sequence of states on every path "
                 "(value requests always include the deep evaluation pass, even when the thunk is already finished)")
    ev = F.fn("<%s>::eval" % em.EVAL)
    rep.fn(ev)
    body = ev.body
    INPUT = "rsjsonnet_lang::program::eval::EvalInput"
    fields = em.eval_fields(F)
    # the evaluator under construction is a local of type Evaluator
    this_l = [l for l in range(len(body.locals)) if body.local_ty(l)["k"] == "adt" and body.local_ty(l)["d"] == em.EVAL]
    inp_l = [l for l in range(1, body.argc + 1) if body.local_ty(l)["k"] == "adt" and body.local_ty(l)["d"] == INPUT]
    if not this_l or not inp_l:
        raise AnchorMissing("Evaluator::eval: evaluator local / input argument")
    this_l = this_l[0]
    exp = {"Value": ("DeepValue", "DoThunk"), "Call": ("DeepValue", "TopLevelCall", "DoThunk"), "ManifestJson": ("ManifestJson", "DoThunk")}
    for v in F.variants(INPUT):
        def on_term(w, bb, t, env):
            if t["k"] != "call":
                return None
            n = callee_name(t) or ""
            if n == "<%s>::run" % em.EVAL:
                return kwalk.STOP
            if n == "<alloc::vec::Vec>::push":
                a = w.val(env, t["xs"][0])
                if isinstance(a, tuple) and a[0] == "ref" and a[1].startswith("%d." % this_l):
                    try:
                        fi = int(a[1].split(".")[1].split("@")[0])
                    except ValueError:
                        return None
                    if fields[fi] == "state_stack":
                        return ("push", em.describe(w, env, t["xs"][1]))
            return None
        w = kwalk.Walker(F, body, on_term=on_term, ordered_marks=True, dedupe_marks=False, want_ret=False)
        outs = w.run(0, {str(inp_l[0]): ("var", INPUT, v)})
        rep.states += w.states_explored
        seqs = set()
        for kind, marks, _ in outs:
            if kind.startswith("diverge"):
                continue
            seqs.add(tuple((m[1][0] if isinstance(m[1], tuple) else m[1]) for m in marks if m[0] == "push"))
        want = exp.get(v)
        ok = want is not None and seqs == {want}
        rep.ob(R, "eval|%s" % v, ok, {"request": v, "scheduled": sorted(map(str, seqs))})
        if not ok:
            rep.violation(R, "eval|%s|schedule" % v, "a %s request schedules %s (over its paths); it must always schedule %s — a path "
                          "that skips work because a thunk is already memoised makes the answer depend on earlier requests"
                          % (v, sorted(map(str, seqs)), want), ev.loc)


def rule_r6(F, rep):
    R = rep.rule("C11.R6", "import resolution keeps no memory of earlier requests: the function that maps an import string to a "
                 "file (find_import) takes the session by shared reference and therefore cannot record where an earlier import of "
                 "the same string was found; the only cross-request memo of the front-end is the source cache keyed by canonical path")
    SI = "rsjsonnet_front::session::SessionInner"
    fn = F.fn("<%s>::find_import" % SI)
    rep.fn(fn)
    t1 = fn.body.local_ty(1)
    shared = t1["k"] == "ref" and not t1.get("m") and "&mut" not in t1["s"]
    rep.ob(R, "find_import|shared-self", shared, {"self_type": t1["s"]})
    if not shared:
        rep.violation(R, "find_import|mutable-session", "find_import takes the session mutably (%s): it can record state between "
                      "requests, so where an import resolves may depend on what was imported before" % t1["s"], fn.loc)
    a = F.adt(SI)
    maps = [f["n"] for f in a["variants"][0]["fields"] if "HashMap" in fn.crate.types[f["t"]]["s"] or "BTreeMap" in fn.crate.types[f["t"]]["s"]]
    allowed = {"source_cache": "loaded sources by canonical path (C13.R2)",
               "source_paths": "registry SourceId -> path of each loaded source (append-only, keyed by the id the span manager issued)",
               "native_funcs": "configuration: native functions registered by the embedder"}
    extra = [m for m in maps if m not in allowed]
    okm = not extra and "source_cache" in maps
    rep.ob(R, "SessionInner|memo-fields", okm, {"map_fields": maps})
    if not okm:
        rep.violation(R, "SessionInner|memo-fields|%s" % ",".join(extra), "SessionInner holds the additional map(s) %s; beyond %s nothing "
                      "may be remembered across requests (a memo keyed by the import string forgets which directory asked)"
                      % (extra, sorted(allowed)), fn.loc)


FDATA = "rsjsonnet_lang::program::data::ObjectFieldData"
CELL_COPIERS = ("rsjsonnet_lang::program::data::extend_object_clone_field",)


def rule_r7(F, rep):
    R = rep.rule("C11.R7", "a field's memo cell is never carried from one object to another: when an object is derived from "
                 "another (extension, key removal, patching) every field of the copy starts with a cell of its own — a fresh one, "
                 "or a thunk created for the copy — except in extend_object_clone_field, whose sharing condition C07.R2 decides; a "
                 "shared cell makes the copy answer with whatever an earlier request computed for the original's `self`")
    n = 0
    for fn in F.fn_list:
        if fn.body is None or "rsjsonnet_lang" not in fn.q:
            continue
        body = fn.body
        P = None
        for bi, blk in enumerate(body.blocks):
            if blk["cleanup"]:
                continue
            for st in blk["s"]:
                if st["k"] != "assign":
                    continue
                rv = st["rv"]
                hit = None
                if rv["k"] == "agg" and rv.get("adt") == FDATA and "thunk" in rv.get("fn", []):
                    hit = rv["xs"][rv["fn"].index("thunk")]
                elif prov.field_write(F, body, st["p"], FDATA) == "thunk":
                    hit = rv.get("x") if rv["k"] == "use" else None
                    if hit is None:
                        hit = {"k": "rv", "rv": rv}
                if hit is None:
                    continue
                P = P or prov.Prov(F, body)
                o = P.origins_rv(hit["rv"]) if hit.get("k") == "rv" else (P.origins_op(hit) if hit.get("k") != "const" else set())
                shared = any(x and x[0] == "field" and x[1] == FDATA and x[2] == "thunk" for x in o)
                n += 1
                ok = (not shared) or fn.q in CELL_COPIERS
                rep.ob(R, "%s|bb%d" % (fn.q, bi), ok, {"fn": fn.q, "origins": sorted(map(str, o))[:4]} if shared else None)
                if not ok:
                    rep.violation(R, "%s|memo-cell-shared" % fn.q,
                                  "%s stores another field's memo cell (ObjectFieldData.thunk) into a new field: values already "
                                  "computed for the original object are reused by the copy, so a request on the copy depends on "
                                  "which requests touched the original before" % fn.q, fn.loc)
    rep.floor(R, n, 6, "writes of ObjectFieldData.thunk")


def run(F, rep, tier):
    rep.attempt(rule_r1, F, rep)
    rep.attempt(rule_r2, F, rep)
    rep.attempt(rule_r3, F, rep)
    from . import objflags
    rep.attempt(objflags.rule, F, rep, "C11.R4")
    rep.attempt(rule_r5, F, rep)
    rep.attempt(rule_r6, F, rep)
    rep.attempt(rule_r7, F, rep)
    rep.assume("order-independence of values in general and collections between requests (C03) are not decided; "
               "the interner and arena are append-only and their order is unobservable (C05.R4)")
    return EXPLANATION
