"""C19 — std.format and % follow printf-style formatting for every directive and value.

Digit-exact rendering is value-level and NOT decided.  Decided structural clauses:
  R1  directive alphabet: conversion letter -> conversion kind, flag character -> flag field,
      every conversion kind is dispatched, numeric conversions reject non-numbers
  R2  widths are counted in characters (UNITS mix rule)
  R3  every precision/width is accepted without panicking (bounded fmt arguments; `*` values go
      through the exact u32 conversion)
  R4  argument-count errors: an array item is only consumed behind the `array_i < len` guard and left-over
      items are an error
"""
from . import kwalk, chartab, units, evalmarks as em, c01, c06, prov
from . import facts
from .facts import callee_name, AnchorMissing

EXPLANATION = (
    "Static analysis of MIR: decision tables of parse_format_conv_type (over all interval classes of the "
    "conversion character), parse_format_cflags (over the flag alphabet) and do_std_format_code (ConvType x "
    "value type); UNITS for width arithmetic; the C01.R3 bound on run-time fmt arguments; a concrete-cursor "
    "walk of the argument-consumption state machine."
)

E = em.EVAL
FMT = "rsjsonnet_lang::program::eval::format::"
CONV = FMT + "ConvType"
CFLAGS = FMT + "CFlags"
OPTION = "core::option::Option"

SPEC_CONV = {"d": "Decimal", "i": "Decimal", "u": "Decimal", "o": "Octal", "x": "HexLower", "X": "HexUpper",
             "e": "ExpLower", "E": "ExpUpper", "f": "FloatLower", "F": "FloatUpper", "g": "FloatGLower",
             "G": "FloatGUpper", "c": "Char", "s": "String", "%": "Percent"}
SPEC_FLAGS = {"#": "alt", "0": "zero", "-": "left", " ": "blank", "+": "plus"}


def chars_next_hook(cp):
    def hook(w, bb, t, env, args):
        n = callee_name(t) or ""
        if n == "<core::str::iter::Chars as core::iter::traits::iterator::Iterator>::next":
            dst = w.norm(env, t["dst"])
            if cp is None:
                return ("var", OPTION, "None")
            env["%s@Some.0" % dst] = cp
            return ("var", OPTION, "Some")
        if n.endswith("core::ops::try_trait::FromResidual>::from_residual"):
            return ("var", "core::result::Result", "Err")
        return None
    return hook


class _StrInput:
    """Concrete content for a `&str` the walked function parses.

    The string under test is an ordinary value of the walk — ("cstr", text) — that travels through copies, re-borrows, `&mut &str`
    parameters and helper functions walked in place; the std operations a hand-written parser reads a string with are interpreted on
    it: by character (`strip_prefix`, `starts_with`, `chars().next()`), by byte (`as_bytes().first()`, `bytes().next()`,
    `split_first`, indexing) or by slicing (`&s[1..]`, `split_at`, `get(..)`).  The texts are ASCII, so byte and character
    positions coincide.  How the function spells the test is therefore irrelevant; only what it does with the character is.

    What the model cannot follow is recorded on the path instead of being guessed: "#strop" when the string is handed to an operation
    that is not interpreted, "#unk" when the function branches on a value the walk does not know.  A verdict is only drawn from
    paths without these flags (the caller turns a flagged disagreement into UNDECIDED)."""
    TAG = "cstr"
    OPT = "core::option::Option"
    NEXT = ("<core::str::iter::Chars as core::iter::traits::iterator::Iterator>::next",
            "<core::str::iter::Bytes as core::iter::traits::iterator::Iterator>::next")
    SAME = ("<str>::as_bytes", "<str>::chars", "<str>::bytes", "<core::str::iter::Chars>::as_str", "<str>::as_str",
            "<str as core::convert::AsRef<[u8]>>::as_ref", "<str as core::convert::AsRef<str>>::as_ref",
            "<[T]>::iter", "<core::str::iter::Chars as core::clone::Clone>::clone", "<core::str::iter::Bytes as core::clone::Clone>::clone")
    PREFIX = ("<str>::strip_prefix", "<str>::starts_with", "<str>::trim_start_matches")
    SIZE = ("<str>::is_empty", "<[T]>::is_empty", "<str>::len", "<[T]>::len")
    ELEM = ("<[T]>::first", "<[T]>::get", "<[T]>::split_first")
    SLICE = ("<str as core::ops::index::Index>::index", "<[T] as core::ops::index::Index>::index", "<str>::get", "<str>::split_at")

    def value(self, text):
        return (self.TAG, text)

    def text(self, env, v):
        for _ in range(4):
            if isinstance(v, tuple) and v and v[0] == self.TAG:
                return v[1]
            if isinstance(v, tuple) and v and v[0] == "ref":
                k = v[1]
                v = env.get(k)
                if v is None and k.endswith(".*"):
                    v = env.get(k[:-2])
                continue
            break
        return None

    def modelled(self, n):
        return (n in self.NEXT or n in self.SAME or n in self.PREFIX or n in self.SIZE or n in self.ELEM or n in self.SLICE
                or n.endswith("core::iter::traits::collect::IntoIterator>::into_iter"))

    # -- hooks ------------------------------------------------------------------------------------------------------------------
    def _read_indexed(self, w, env, place):
        """`bytes[i]` spelled as a place: give the element its value before the statement reads it"""
        pr = place.get("p") or []
        for j, q in enumerate(pr):
            if q != "*" and q["k"] in ("i", "ci"):
                base = {"l": place["l"], "p": pr[:j]}
                if j and pr[j - 1] == "*":
                    base = {"l": place["l"], "p": pr[:j - 1]}
                s = self.text(env, env.get(w.norm(env, base)))
                if s is None:
                    return
                if q["k"] == "i":
                    i = env.get(w.pre + str(q["l"]))
                else:
                    i = (len(s) - q["o"]) if q["fe"] else q["o"]
                if isinstance(i, int) and 0 <= i < len(s):
                    env[w.norm(env, {"l": place["l"], "p": pr[:j + 1]})] = ord(s[i])
                else:
                    env["#strop"] = 1
                return

    def _places(self, node):
        if isinstance(node, dict):
            if "l" in node and "p" in node and node.get("k") in (None, "copy", "move"):
                yield node
            for v in node.values():
                if isinstance(v, (dict, list)):
                    yield from self._places(v)
        elif isinstance(node, list):
            for v in node:
                yield from self._places(v)

    def on_stmt(self, w, bb, idx, st, env):
        if st["k"] == "assign":
            for pl in self._places(st["rv"]):
                if pl["p"]:
                    self._read_indexed(w, env, pl)
        return None

    def after_stmt(self, w, bb, idx, st, env):
        # `&*s` of the string is the string
        rv = st["rv"]
        if rv["k"] == "ref" and rv["p"]["p"] and rv["p"]["p"][-1] == "*":
            v = env.get(w.norm(env, {"l": rv["p"]["l"], "p": rv["p"]["p"][:-1]}))
            if isinstance(v, tuple) and v and v[0] == self.TAG:
                env[w.norm(env, st["p"])] = v

    def on_term(self, w, bb, t, env):
        k = t["k"]
        if k == "switch":
            x = t["x"]
            if x["k"] in ("copy", "move") and x["p"]:
                self._read_indexed(w, env, x)
            if not isinstance(w.val(env, x), int):
                env["#unk"] = 1
        elif k == "call":
            n = callee_name(t) or ""
            args = [w.val(env, x) for x in t["xs"]]
            if not any(self.text(env, a) is not None for a in args):
                return None
            if n in self.NEXT:
                a = args[0]
                if isinstance(a, tuple) and a[0] == "ref":
                    env["#strnext"] = (a[1], self.text(env, a))      # the receiver is forgotten when the call is stepped
                else:
                    env["#strop"] = 1
            elif not self.modelled(n) and w._inline_target(t, n) is None:
                env["#strop"] = 1
        return None

    def _cell(self, env, ch):
        k = "#b%d" % ord(ch)
        env[k] = ord(ch)
        return ("ref", k)

    def call_result(self, w, bb, t, env, args):
        n = callee_name(t) or ""
        xs = t["xs"]
        dst = w.norm(env, t["dst"])
        if n in ("<core::option::Option>::copied", "<core::option::Option>::cloned") and xs and xs[0]["k"] in ("copy", "move"):
            a = args[0]
            if isinstance(a, tuple) and a[0] == "var":
                if a[2] == "Some":
                    v = env.get("%s@Some.0" % w.norm(env, xs[0]))
                    if isinstance(v, tuple) and v[0] == "ref" and isinstance(env.get(v[1]), int):
                        env["%s@Some.0" % dst] = env[v[1]]
                return a
            return None
        if n in self.NEXT:
            stash = env.pop("#strnext", None)
            if not stash or stash[1] is None:
                return None
            key, s = stash
            env[key] = self.value(s[1:])
            if not s:
                return ("var", self.OPT, "None")
            env["%s@Some.0" % dst] = ord(s[0])
            return ("var", self.OPT, "Some")
        s = self.text(env, args[0]) if args else None
        if s is None:
            return None
        if n in self.SAME or n.endswith("core::iter::traits::collect::IntoIterator>::into_iter"):
            return self.value(s)
        if n in self.PREFIX:
            pat = args[1] if len(args) > 1 else None
            if isinstance(pat, int):
                pat = chr(pat)
            elif isinstance(pat, tuple) and pat and pat[0] == "str":
                pat = pat[1]
            else:
                pat = self.text(env, pat)
            if not isinstance(pat, str) or not pat:
                env["#strop"] = 1
                return None
            hit = s.startswith(pat)
            if n == "<str>::starts_with":
                return int(hit)
            if n == "<str>::trim_start_matches":
                while s.startswith(pat):
                    s = s[len(pat):]
                return self.value(s)
            if hit:
                env["%s@Some.0" % dst] = self.value(s[len(pat):])
                return ("var", self.OPT, "Some")
            return ("var", self.OPT, "None")
        if n in self.SIZE:
            return int(not s) if n.endswith("is_empty") else len(s)
        if n in self.ELEM:
            i = 0
            if n == "<[T]>::get":
                i = args[1] if len(args) > 1 else None
            if not isinstance(i, int):
                env["#strop"] = 1
                return None
            if not 0 <= i < len(s):
                return ("var", self.OPT, "None")
            if n == "<[T]>::split_first":
                env["%s@Some.0.0" % dst] = self._cell(env, s[0])
                env["%s@Some.0.1" % dst] = self.value(s[1:])
            else:
                env["%s@Some.0" % dst] = self._cell(env, s[i])
            return ("var", self.OPT, "Some")
        if n in self.SLICE:
            if n == "<str>::split_at":
                i = args[1] if len(args) > 1 else None
                if not isinstance(i, int) or not 0 <= i <= len(s):
                    env["#strop"] = 1
                    return None
                env[dst + ".0"] = self.value(s[:i])
                env[dst + ".1"] = self.value(s[i:])
                return None
            r = args[1] if len(args) > 1 else None
            if isinstance(r, int) and n.startswith("<[T]"):
                env["#strop"] = 1          # `bytes[i]` through the trait: a reference to one element; not needed so far
                return None
            lo, hi = 0, len(s)
            if isinstance(r, tuple) and r[0] == "var" and xs[1]["k"] in ("copy", "move"):
                rk = w.norm(env, xs[1])
                kind = r[1].rsplit("::", 1)[-1]
                f0, f1 = env.get(rk + ".0"), env.get(rk + ".1")
                if kind == "RangeFrom":
                    lo = f0
                elif kind == "RangeTo":
                    hi = f0
                elif kind == "Range":
                    lo, hi = f0, f1
                elif kind != "RangeFull":
                    lo = None
            else:
                lo = None
            if not (isinstance(lo, int) and isinstance(hi, int) and 0 <= lo <= hi <= len(s)):
                env["#strop"] = 1
                return None
            if n == "<str>::get":
                env["%s@Some.0" % dst] = self.value(s[lo:hi])
                return ("var", self.OPT, "Some")
            return self.value(s[lo:hi])
        return None


def rule_r1(F, rep):
    R = rep.rule("C19.R1", "the conversion letters d i u o x X e E f F g G c s %% map to their printf conversions and "
                 "every other character is rejected; the flag characters # 0 - space + each set their own flag; every "
                 "conversion is dispatched and numeric conversions reject non-numbers")
    fn = F.fn("<%s>::parse_format_conv_type" % E)
    rep.fn(fn)
    body = fn.body
    classes = chartab.representatives(body, "char")
    for a, b in classes + [(None, None)]:
        w = kwalk.Walker(F, body, call_result=chars_next_hook(a), want_ret=True)
        outs = w.run(0, {})
        rep.states += w.states_explored
        res = set()
        for kind, marks, ret in outs:
            if kind != "return":
                res.add("diverge")
                continue
            d = dict(ret or ())
            top = d.get("0")
            if isinstance(top, tuple) and top[0] == "var" and top[2] == "Err":
                res.add("error")
            elif isinstance(d.get("0@Ok.0"), tuple):
                res.add(d["0@Ok.0"][2])
            else:
                res.add("unknown")
        if a is None:
            exp = {"error"}
            label = "end-of-string"
        else:
            exps = {SPEC_CONV.get(chr(cp), "error") for cp in {a, b}} if b - a < 2 else {SPEC_CONV.get(chr(a), "error"), SPEC_CONV.get(chr(b), "error")}
            exp = exps
            label = "U+%04X..U+%04X" % (a, b)
        ok = res == exp and len(res) == 1
        rep.ob(R, "conv|%s" % label, ok, {"char_class": label, "result": sorted(res)} if a in (0x64, 0x75, 0x79) else None)
        if not ok:
            rep.violation(R, "%s|conv|%s" % (fn.q, label), "conversion character class %s (%r) parses to %s, printf says %s"
                          % (label, chr(a) if a is not None and a < 0x7f else a, sorted(res), sorted(exp)), fn.loc)
    # flags: parse_format_cflags is walked on concrete directive tails (the flag character under test followed by a conversion
    # letter, and the flag character at the very end of the format string) and the CFlags value it returns is read off
    fl = F.fn("<%s>::parse_format_cflags" % E)
    rep.fn(fl)
    cf = F.adt(CFLAGS)
    fnames = [f["n"] for f in cf["variants"][0]["fields"]]
    fbody = fl.body
    str_params = [l for l in range(1, fbody.argc + 1) if fbody.local_ty(l)["k"] == "ref" and "&str" in fbody.local_ty(l)["s"].replace(" ", "")]
    if len(str_params) != 1:
        raise kwalk.WalkLimit("%s: expected one `&mut &str` parameter holding the rest of the directive" % fl.q)
    for c in list(SPEC_FLAGS) + ["x", "1", "*"]:
        got = set()
        flagged = []
        for text in (c + "d", c):
            sm = _StrInput()
            w = kwalk.Walker(F, fbody, call_result=sm.call_result, on_stmt=sm.on_stmt, after_stmt=sm.after_stmt, on_term=sm.on_term,
                             want_ret=True, ret_prefixes=("0", "#"))
            outs = w.run(0, {"%d.*" % str_params[0]: sm.value(text)})
            rep.states += w.states_explored
            n_ret = 0
            for kind, marks, ret in outs:
                if kind != "return":
                    continue
                n_ret += 1
                d = dict(ret or ())
                top = d.get("0")
                if isinstance(top, tuple) and top[0] == "var" and top[2] == "Ok":
                    vals = [d.get("0@Ok.0.%d" % i) for i in range(len(fnames))]
                    if all(v in (0, 1) for v in vals):
                        res = frozenset(fnames[i] for i, v in enumerate(vals) if v)
                    else:
                        res = frozenset(["<unknown>"])
                        d["#unk"] = 1
                else:
                    res = frozenset(["<error>"])
                got.add(res)
                if d.get("#strop") or d.get("#unk"):
                    flagged.append((text, sorted(res)))
            if not n_ret:
                raise kwalk.WalkLimit("%s: no path returns on the directive tail %r" % (fl.q, text))
        exp = {SPEC_FLAGS[c]} if c in SPEC_FLAGS else set()
        ok = got == {frozenset(exp)}
        if not ok and flagged:
            raise kwalk.WalkLimit("%s reads the directive in a way the string model does not follow (directive tail, fields set on "
                                  "that path: %s)" % (fl.q, flagged[:3]))
        shown = sorted(set().union(*got)) if got else []
        rep.ob(R, "flag|%r" % c, ok, {"flag_char": c, "fields_set": shown})
        if not ok:
            rep.violation(R, "%s|flag|%s" % (fl.q, c), "flag character %r sets %s, printf says %s"
                          % (c, sorted(map(sorted, got)) if len(got) > 1 else shown, sorted(exp)), fl.loc)
    # dispatch: ConvType x value type
    fc = F.fn("<%s>::do_std_format_code" % E)
    VAL = ["Null", "Bool", "Number", "String", "Array", "Object", "Function"]
    numeric = ["Decimal", "Octal", "HexLower", "HexUpper", "ExpLower", "ExpUpper", "FloatLower", "FloatUpper", "FloatGLower", "FloatGUpper"]
    for ct in F.variants(CONV):
        for v in VAL:
            def after(w, bb, idx, s, env, ct=ct):
                rv = s["rv"]
                if rv["k"] == "discr" and rv.get("adt") == CONV:
                    src = w.norm(env, rv["p"])
                    env[src] = ("var", CONV, ct)
                    d = w.discr_of_variant(CONV, ct)
                    env[w.norm(env, s["p"])] = d
            m = em.Marker(F, fc.body, 1, True)
            w = kwalk.Walker(F, fc.body, on_term=m.on_term, on_stmt=m.on_stmt, after_stmt=after, ordered_marks=False,
                             call_result=em.injector(F, fc.body, values=[v]), want_ret=True)
            outs = w.run(0, {})
            rep.states += w.states_explored
            kinds = set()
            for o in outs:
                if o[0].startswith("diverge"):
                    continue
                kinds.add("error" if em.is_err_return(o) else "ok")
            if ct in numeric:
                exp = {"ok"} if v == "Number" else {"error"}
                ok = (kinds == exp) if v != "Number" else ("ok" in kinds)
            elif ct == "Char":
                ok = ("ok" in kinds) if v in ("Number", "String") else kinds == {"error"}
                exp = "number or string"
            elif ct == "Percent":
                # `%%` never reaches the renderer (handled by the argument state machine): unreachable or ok
                ok = "error" not in kinds
                exp = "not dispatched"
            else:
                ok = "ok" in kinds
                exp = "any"
            rep.ob(R, "dispatch|%s|%s" % (ct, v), ok, {"conv": ct, "value": v, "outcomes": sorted(kinds)} if v == "Bool" and ct in ("Decimal", "String") else None)
            if not ok:
                rep.violation(R, "%s|dispatch|%s|%s" % (fc.q, ct, v), "conversion %s applied to a %s value: outcomes %s, expected %s"
                              % (ct, v, sorted(kinds), exp), fc.loc)
    rep.floor(R, len(F.variants(CONV)), 13, "conversion kinds")
    rep.trust("C/Python printf directive alphabet, transcribed in rules/c19.py")


def rule_r3(F, rep):
    R = rep.rule("C19.R3b", "`*` width/precision values become integers only through the exact float->u32 conversion "
                 "(negative, fractional, NaN-free by C06, or oversized values are reported as errors, never cast)")
    n = 0
    for name in ("do_std_format_codes_array_2", "do_std_format_codes_object_1", "do_std_format_codes_object_2", "do_std_format_codes_array_1"):
        fn = F.fn_opt("<%s>::%s" % (E, name))
        if fn is None:
            continue
        rep.fn(fn)
        for bb, si, s in fn.body.assigns():
            rv = s["rv"]
            if rv["k"] == "cast" and rv["ck"] == "FloatToInt":
                n += 1
                rep.ob(R, "%s|float-cast@bb%d" % (fn.q, bb), False)
                rep.violation(R, "%s|raw-float-cast" % fn.q, "a width/precision number is cast with `as` (saturating, "
                              "truncating) instead of the exact conversion", fn.body.span(s["sp"]))
        uses = [bb for bb, t in fn.body.calls() if (callee_name(t) or "") == "rsjsonnet_lang::float::try_to_u32"]
        for bb in uses:
            n += 1
            rep.ob(R, "%s|try_to_u32@bb%d" % (fn.q, bb), True, {"fn": fn.q})
    rep.floor(R, n, 2, "`*` width/precision conversions")


def rule_r4(F, rep):
    R = rep.rule("C19.R4", "a format argument is taken from the array only when the cursor is below the array length "
                 "(otherwise 'not enough items' is reported) and items left over at the end are reported as 'too many'")
    for name in ("do_std_format_codes_array_1", "do_std_format_codes_array_2"):
        fn = F.fn("<%s>::%s" % (E, name))
        rep.fn(fn)
        body = fn.body
        P = prov.Prov(F, body)
        us = [l for l in range(2, body.argc + 1) if body.local_ty(l)["s"] == "usize"]
        if len(us) != 2:
            raise kwalk.WalkLimit("%s: expected (part_i, array_i)" % fn.q)
        part_i, array_i = us
        # array argument = the GcView<ArrayData> parameter, parts = the Rc<Vec<FormatPart>> parameter
        arr_l = [l for l in range(2, body.argc + 1) if "GcView" in body.local_ty(l)["s"]][0]
        parts_l = [l for l in range(2, body.argc + 1) if "FormatPart" in body.local_ty(l)["s"]][0]
        for (ai, alen, pi, plen, label) in ((5, 5, 1, 3, "exhausted"), (4, 5, 1, 3, "available"), (4, 5, 3, 3, "leftover"), (5, 5, 3, 3, "complete")):
            def hook(w, bb, t, env, args):
                n = callee_name(t) or ""
                if n in ("<[T]>::len", "<alloc::vec::Vec>::len") and t["xs"] and t["xs"][0]["k"] in ("copy", "move"):
                    r = c06.root_arg(F, body, P, t["xs"][0])
                    if r == arr_l:
                        return alen
                    if r == parts_l:
                        return plen
                return None
            idx_sites = []

            def on_stmt(w, bb, idx, s, env):
                if s["k"] != "assign":
                    return None
                rv = s["rv"]
                pl = rv.get("x") if rv["k"] == "use" else (rv.get("p") if rv["k"] in ("ref",) else None)
                if isinstance(pl, dict) and "p" in pl:
                    for p in pl["p"]:
                        if p != "*" and p["k"] == "i":
                            base = dict(pl)
                            base["k"] = "copy"
                            base["p"] = [q for q in pl["p"][:pl["p"].index(p)]]
                            r = c06.root_arg(F, body, P, base)
                            if r == arr_l:
                                return ("index-array", env.get(str(p["l"])))
                return None
            m = em.Marker(F, body, 1, False)

            def both_stmt(w, bb, idx, s, env):
                r = on_stmt(w, bb, idx, s, env)
                if r is not None:
                    return r
                return m.on_stmt(w, bb, idx, s, env)
            w = kwalk.Walker(F, body, on_term=m.on_term, on_stmt=both_stmt, call_result=hook, arith=True, want_ret=True)
            outs = w.run(0, {str(part_i): pi, str(array_i): ai})
            rep.states += w.states_explored
            oob = False
            finished_ok = False
            errs = False
            for o in outs:
                if o[0].startswith("diverge"):
                    continue
                for mk in o[1]:
                    if mk[0] == "index-array" and isinstance(mk[1], int) and mk[1] >= alen:
                        oob = True
                    if mk[0] == "index-array" and mk[1] is None:
                        oob = oob  # unknown index: tolerated only if guarded elsewhere (not expected)
                if em.is_err_return(o):
                    errs = True
                elif any(mk[0] == "push" and mk[1] == "value_stack" for mk in o[1]):
                    finished_ok = True
            ok = not oob
            if name.endswith("_1"):
                if label == "leftover":
                    ok = ok and errs and not finished_ok
                if label == "complete":
                    ok = ok and finished_ok
            rep.ob(R, "%s|%s" % (name, label), ok, {"handler": name, "cursor": ai, "len": alen, "part_i": pi, "parts": plen,
                                                     "out_of_range_index": oob, "error_path": errs, "finished": finished_ok})
            if not ok:
                rep.violation(R, "%s|%s" % (fn.q, label),
                              "%s with cursor %d of %d items (part %d of %d): %s" % (name, ai, alen, pi, plen,
                              "indexes the argument array past its end" if oob else
                              ("left-over arguments are not reported" if label == "leftover" else "does not finish")), fn.loc)


def _directive_model(F, key):
    """after_stmt hook that fixes the directive being formatted: the part read from `parts` is a FormatPart::Code whose `fw` / `prec`
    fields hold key["fw"] / key["prec"] ("None" | "Inline" | "External").

    The values are planted in the environment under the place the part's discriminant is read from, so they travel with every
    reference to / copy of the FormatCode or of one of its fields — also into helper functions walked in place, where the
    field is only reachable through a `&Option<FieldWidth>` parameter.  A discriminant read spelled directly through the
    `fw` / `prec` field (a FormatCode reached some other way) is answered the same way."""
    FPART = FMT + "FormatPart"
    FCODE = FMT + "FormatCode"
    FWIDTH = FMT + "FieldWidth"
    code_fields = [f["n"] for f in F.adt(FCODE)["variants"][0]["fields"]]
    idx = {"fw": code_fields.index("fw"), "prec": code_fields.index("prec")}
    part = F.adt(FPART)
    cv = [v for v in part["variants"] if v["n"] == "Code"]
    payload_is_code = False
    if cv and len(cv[0]["fields"]) == 1:
        t = part["_crate"].types[cv[0]["fields"][0]["t"]]
        payload_is_code = t.get("k") == "adt" and t.get("d") == FCODE

    def which_field(place):
        """'fw' / 'prec' when the place goes through that field of a FormatCode"""
        for pr in place["p"]:
            if pr != "*" and pr["k"] == "f" and pr.get("n") in ("fw", "prec"):
                return pr["n"]
        return None

    def plant(env, k, f):
        env.kill(k)
        if key[f] == "None":
            env[k] = ("var", OPTION, "None")
        else:
            env[k] = ("var", OPTION, "Some")
            env[k + "@Some.0"] = ("var", FWIDTH, key[f])

    def after(w, bb, idx_, st, env):
        rv = st["rv"]
        if rv["k"] != "discr":
            return
        adt = rv.get("adt")
        pl = rv["p"]
        if adt == FPART:
            k = w.norm(env, pl)
            env[k] = ("var", FPART, "Code")
            env[w.norm(env, st["p"])] = w.discr_of_variant(FPART, "Code")
            if payload_is_code:
                for f in ("fw", "prec"):
                    plant(env, "%s@Code.0.%d" % (k, idx[f]), f)
        elif adt == OPTION:
            f = which_field(pl)
            if f:
                v = "None" if key[f] == "None" else "Some"
                env[w.norm(env, pl)] = ("var", OPTION, v)
                env[w.norm(env, st["p"])] = w.discr_of_variant(OPTION, v)
        elif adt == FWIDTH:
            f = which_field(pl)
            if f and key[f] != "None":
                env[w.norm(env, pl)] = ("var", FWIDTH, key[f])
                env[w.norm(env, st["p"])] = w.discr_of_variant(FWIDTH, key[f])
    return after


def rule_r5(F, rep, rid="C19.R5"):
    """producer/consumer agreement of the array-argument state machine"""
    R = rep.rule(rid, "the two steps of array-argument formatting agree on how many operands travel over the value stack: for "
                 "every combination of field width (none / inline / `*`), precision (none / inline / `*`) and conversion "
                 "(uses a precision or not), step 1 schedules exactly as many width/precision values as step 2 takes off "
                 "the value stack — a disagreement pops a value that was never pushed (panic) or leaves one behind")
    FPART = FMT + "FormatPart"
    FCODE = FMT + "FormatCode"
    FWIDTH = FMT + "FieldWidth"
    code_fields = [f["n"] for f in F.adt(FCODE)["variants"][0]["fields"]]
    fw_i, prec_i = code_fields.index("fw"), code_fields.index("prec")
    s1 = F.fn("<%s>::do_std_format_codes_array_1" % E)
    s2 = F.fn("<%s>::do_std_format_codes_array_2" % E)
    rep.fn(s1, s2)

    def walk(fn, fw, prec, up):
        body = fn.body
        key = {"fw": fw, "prec": prec}
        after = _directive_model(F, key)

        def hook(w, bb, t, env, args):
            n = callee_name(t) or ""
            if n == "<%s>::uses_prec" % FCODE:
                return up
            if n == "<core::option::Option>::is_some" or n == "<core::option::Option>::is_none":
                a = args[0] if args else None
                if isinstance(a, tuple) and a[0] == "ref":
                    k = a[1]
                    for f, i in (("fw", fw_i), ("prec", prec_i)):
                        if k.endswith(".%d" % i):
                            some = key[f] != "None"
                            return int(some if n.endswith("is_some") else not some)
            if n.endswith("core::ops::try_trait::FromResidual>::from_residual"):
                return ("var", "core::result::Result", "Err")
            return None

        m = em.Marker(F, body, 1, False)

        def extra(w, bb, t, env):
            if t["k"] == "call" and (callee_name(t) or "") == "<alloc::vec::Vec>::pop":
                stn = m.stack_of(w, env, t["xs"][0])
                if stn:
                    return ("pop", stn)
            return None
        m.extra_term = extra
        w = kwalk.Walker(F, body, on_term=m.on_term, on_stmt=m.on_stmt, after_stmt=after, call_result=hook,
                         ordered_marks=True, want_ret=True, dedupe_marks=False)
        outs = w.run(0, {})
        rep.states += w.states_explored
        return outs

    n = 0
    for fw in ("None", "Inline", "External"):
        for prec in ("None", "Inline", "External"):
            for up in (0, 1):
                prod = set()
                for o in walk(s1, fw, prec, up):
                    if o[0] != "return" or em.is_err_return(o):
                        continue
                    pushes = [mk[2] for mk in o[1] if mk[0] == "push" and mk[1] == "state_stack"]
                    names = [x[0] if isinstance(x, tuple) else x for x in pushes]
                    if "StdFormatCodesArray2" not in names:
                        continue          # literal part / end of the format: no operands
                    after2 = names[names.index("StdFormatCodesArray2") + 1:]
                    prod.add(sum(1 for x in after2 if x in ("PushU32AsValue", "DoThunk")))
                cons = set()
                for o in walk(s2, fw, prec, up):
                    if o[0] != "return" or em.is_err_return(o):
                        continue
                    cons.add(sum(1 for mk in o[1] if mk[0] == "pop" and mk[1] == "value_stack"))
                n += 1
                ok = len(prod) == 1 and prod == cons
                rep.ob(R, "array|fw=%s|prec=%s|uses_prec=%d" % (fw, prec, up), ok,
                       {"width": fw, "precision": prec, "conversion_uses_precision": up, "scheduled_by_step1": sorted(prod),
                        "taken_by_step2": sorted(cons)})
                if not ok:
                    rep.violation(R, "format-array|fw=%s|prec=%s|uses_prec=%d" % (fw, prec, up),
                                  "array formatting with width=%s precision=%s on a conversion that %s a precision: step 1 "
                                  "schedules %s operand value(s), step 2 takes %s off the value stack"
                                  % (fw, prec, "uses" if up else "ignores", sorted(prod), sorted(cons)), s2.loc)
    rep.floor(R, n, 18, "width x precision x conversion combinations")


def rule_r6(F, rep):
    R = rep.rule("C19.R6", "every format request goes through the argument state machine: std.format / `%` with any format string "
                 "and any right-hand side ends in want_format_array / want_format_object (where missing and left-over arguments "
                 "are reported); no path answers directly")
    fn = F.fn("<%s>::do_std_format" % E)
    rep.fn(fn)
    for v in ("Array", "Object", "String", "Number", "Null"):
        def extra_term(w, bb, t, env):
            if t["k"] == "call":
                n = callee_name(t) or ""
                if n.endswith("::want_format_array") or n.endswith("::want_format_object"):
                    return ("machine", n.rsplit("::", 1)[1])
            return None
        outs = em.walk_handler(F, rep, fn, values=[v, "String"], extra_term=extra_term, want_calls=False)
        res = set()
        for o in outs:
            if o[0] != "return" or em.is_err_return(o):
                continue
            mach = tuple(m[1] for m in o[1] if m[0] == "machine")
            direct = any(m[0] == "push" and m[1] == "value_stack" for m in o[1])
            res.add((mach, direct))
        exp_m = "want_format_object" if v == "Object" else "want_format_array"
        ok = bool(res) and all(mach == (exp_m,) and not direct for mach, direct in res)
        rep.ob(R, "do_std_format|%s" % v, ok, {"rhs": v, "paths(machine, direct answer)": sorted(map(str, res))})
        if not ok:
            rep.violation(R, "do_std_format|%s|bypass" % v, "std.format with a %s right-hand side: successful paths %s; every one must "
                          "enter %s and none may push a result directly (argument-count errors would be skipped)"
                          % (v, sorted(map(str, res)), exp_m), fn.loc)


def rule_r7(F, rep, rid="C19.R7"):
    """every `*` takes exactly one item of the argument array"""
    R = rep.rule(rid, "a `*` width and a `*` precision each take exactly one item from the argument array, whatever the conversion "
                 "does with the value (printf consumes the int argument of `%.*s` / `%.*c` too): in step 1 of array formatting "
                 "the cursor advances once per `*`, for conversions that use a precision and for those that ignore it alike")
    FPART = FMT + "FormatPart"
    FCODE = FMT + "FormatCode"
    FWIDTH = FMT + "FieldWidth"
    s1 = F.fn("<%s>::do_std_format_codes_array_1" % E)
    rep.fn(s1)
    body = s1.body
    # the cursor variable: whatever is stored in the `array_i` field of the State::StdFormatCodesArray2 this step pushes,
    # followed back through copies (independent of what the local is called)
    cursor = set()
    defs = {}
    for blk in body.blocks:
        if blk["cleanup"]:
            continue
        for st in blk["s"]:
            if st["k"] == "assign" and not st["p"]["p"]:
                defs.setdefault(st["p"]["l"], []).append(st["rv"])
    for blk in body.blocks:
        if blk["cleanup"]:
            continue
        for st in blk["s"]:
            rv = st.get("rv") if st["k"] == "assign" else None
            if rv and rv["k"] == "agg" and rv.get("v") == "StdFormatCodesArray2" and "array_i" in rv.get("fn", []):
                x = rv["xs"][rv["fn"].index("array_i")]
                for _ in range(8):
                    if x.get("k") not in ("move", "copy"):
                        break
                    cursor.add(x["l"])
                    d = defs.get(x["l"], [])
                    uses = [r for r in d if r["k"] == "use" and r["x"].get("k") in ("move", "copy")]
                    if len(d) == 1 and uses:
                        x = uses[0]["x"]
                        continue
                    break
    # `array_i += 1` is lowered as tmp = AddWithOverflow(copy cursor, 1); cursor = move tmp.0 — the left operand is a cursor local
    if not cursor:
        raise AnchorMissing("do_std_format_codes_array_1: the cursor stored in State::StdFormatCodesArray2.array_i")
    cursor_keys = {str(l) for l in cursor}

    n = 0
    for fw in ("None", "Inline", "External"):
        for prec in ("None", "Inline", "External"):
            for up in (0, 1):
                key = {"fw": fw, "prec": prec}
                after = _directive_model(F, key)

                def hook(w, bb, t, env, args, up=up):
                    nm = callee_name(t) or ""
                    if nm == "<%s>::uses_prec" % FCODE:
                        return up
                    if nm.endswith("core::ops::try_trait::FromResidual>::from_residual"):
                        return ("var", "core::result::Result", "Err")
                    return None

                def on_stmt(w, bb, idx, st, env):
                    if st["k"] == "assign" and st["rv"]["k"] == "binop" and st["rv"]["op"] in ("Add", "AddWithOverflow", "AddUnchecked"):
                        a = st["rv"]["a"]
                        # the operand *is* the cursor: the local itself, or (inside a helper walked in place) a `&mut` to it
                        if a.get("k") in ("move", "copy") and w.norm(env, a) in cursor_keys and st["rv"]["b"].get("k") == "const":
                            return ("advance", int(bb))
                    return None
                m = em.Marker(F, body, 1, False)

                def both(w, bb, idx, st, env, m=m, on_stmt=on_stmt):
                    r = on_stmt(w, bb, idx, st, env)
                    return r if r is not None else m.on_stmt(w, bb, idx, st, env)
                w = kwalk.Walker(F, body, on_term=m.on_term, on_stmt=both, after_stmt=after, call_result=hook, ordered_marks=True,
                                 want_ret=True, dedupe_marks=False)
                outs = w.run(0, {})
                rep.states += w.states_explored
                counts = set()
                for o in outs:
                    if o[0] != "return" or em.is_err_return(o):
                        continue
                    pushed = [mk[2] for mk in o[1] if mk[0] == "push" and mk[1] == "state_stack"]
                    if "StdFormatCodesArray2" not in [x[0] if isinstance(x, tuple) else x for x in pushed]:
                        continue          # literal part / end of the format
                    counts.add(sum(1 for mk in o[1] if mk[0] == "advance"))
                want = int(fw == "External") + int(prec == "External")
                n += 1
                ok = counts == {want}
                rep.ob(R, "array|fw=%s|prec=%s|uses_prec=%d" % (fw, prec, up), ok,
                       {"width": fw, "precision": prec, "conversion_uses_precision": up, "cursor_advances": sorted(counts), "stars": want})
                if not ok:
                    rep.violation(R, "format-array|star-items|fw=%s|prec=%s|uses_prec=%d" % (fw, prec, up),
                                  "array formatting with width=%s precision=%s on a conversion that %s a precision advances the "
                                  "argument cursor %s time(s) in step 1; the directive has %d `*`: the following directives read "
                                  "shifted arguments and the count check reports the wrong thing"
                                  % (fw, prec, "uses" if up else "ignores", sorted(counts), want), s1.loc)
    rep.floor(R, n, 18, "width x precision x conversion combinations")


def rule_r8(F, rep):
    R = rep.rule("C19.R8", "trailing zeros are trimmed only from a digit string that has a fraction: in every float renderer the "
                 "`trim_end_matches('0')` of %g is unreachable when the precision it renders with is 0 (the string then has no "
                 "decimal point and its trailing zeros are integer digits: `%g` of 100000 must stay 100000) — decided by walking "
                 "the renderer with the precision parameter fixed to 0 and everything else unknown")
    n = 0
    fns = [f for f in F.fn_list if f.crate.name == "rsjsonnet_lang" and "::format::" in f.q and "{closure" not in f.q and not F.is_new_fn(f.q)]
    for fn in fns:
        body = fn.body

        def trims(b):
            return [bb for bb, t in b.calls() if (callee_name(t) or "") in ("<str>::trim_end_matches", "<str>::trim_end_matches::<char>")
                    and len(t["xs"]) > 1 and t["xs"][1].get("k") == "const" and t["xs"][1].get("v") == ord("0")]
        direct = trims(body)
        # a trim inside a helper that did not exist on the reference tree belongs to its callers
        helpers = [g for g in F.fn_list if g.crate.name == "rsjsonnet_lang" and F.is_new_fn(g.q) and trims(g.body)]
        calls_helper = [bb for bb, t in body.calls() if any((t["f"].get("r") or "") == g.q for g in helpers)]
        if not direct and not calls_helper:
            continue
        rep.fn(fn)
        params = [i for i in range(1, body.argc + 1) if body.local_ty(i)["k"] == "prim" and body.local_ty(i)["s"] == "usize"]
        hit_for = {}
        for p in params:
            def on_term(w, bb, t, env):
                if t["k"] == "call" and (callee_name(t) or "").startswith("<str>::trim_end_matches") and len(t["xs"]) > 1 \
                        and t["xs"][1].get("k") == "const" and t["xs"][1].get("v") == ord("0"):
                    return (kwalk.STOP, ("trim",))
                return None
            w = kwalk.Walker(F, body, on_term=on_term, arith=True, max_states=200000)
            outs = w.run(0, {str(p): 0})
            rep.states += w.states_explored
            hit_for[p] = any(("trim",) in marks for kind, marks, _ in outs)
        n += 1
        ok = any(not h for h in hit_for.values())
        rep.ob(R, "%s|no-trim-at-precision-0" % fn.q.rsplit("::", 1)[-1], ok,
               {"renderer": fn.q, "usize parameters": params, "trim reachable with that parameter = 0": {str(k): v for k, v in hit_for.items()}})
        if not ok:
            rep.violation(R, "%s|trims-integer-zeros" % fn.q, "%s can trim trailing zeros when its precision is 0: the digit string then has "
                          "no decimal point, so significant zeros of the integer part are removed (`%%g` of 100000 prints 1)"
                          % fn.q.rsplit("::", 1)[-1], fn.loc)
    rep.floor(R, n, 2, "float renderers that trim zeros")


def rule_r9(F, rep):
    from . import scanfsm
    R = rep.rule("C19.R9", "sign flags: for every numeric renderer that do_std_format_code hands the `+` and space flags to, a "
                 "non-negative value is prefixed with `+` exactly when the `+` flag is set, with a space exactly when only the space "
                 "flag is set, and with nothing when neither is — decided by linking each renderer parameter to the CFlags field it "
                 "receives (`plus` / `blank`) at the call site and walking the renderer, helpers included, for the four flag "
                 "combinations. Two same-typed bool parameters are easily swapped at a call")
    CF = [q for q in F.adts if q.endswith("::format::CFlags")]
    if not CF:
        raise facts.AnchorMissing("format::CFlags")
    CF = CF[0]
    fn = F.fn("<%s>::do_std_format_code" % em.EVAL)
    body = fn.body
    defs = {}
    for bb, si, st in body.assigns():
        if not st["p"]["p"]:
            defs.setdefault(st["p"]["l"], []).append(st["rv"])

    def flag_of(op, depth=0):
        if op["k"] not in ("copy", "move") or depth > 6:
            return None
        pr = [p for p in op["p"] if p != "*"]
        if pr and pr[-1]["k"] == "f" and pr[-1].get("n") in ("plus", "blank"):
            ot = body.ty(pr[-1]["o"]) if "o" in pr[-1] else None
            if ot is None or (ot.get("k") == "adt" and ot.get("d") == CF):
                return pr[-1]["n"]
        if op["p"]:
            return None
        ds = defs.get(op["l"], [])
        if len(ds) == 1 and ds[0]["k"] == "use":
            return flag_of(ds[0]["x"], depth + 1)
        return None
    links = {}
    for bb, t in body.calls():
        q = t["f"].get("r") if t["f"].get("rlocal") else None
        if not q or F.fn_opt(q) is None:
            continue
        m = {}
        for i, x in enumerate(t["xs"]):
            fl = flag_of(x)
            if fl:
                m[i + 1] = fl
        if m:
            if set(m.values()) != {"plus", "blank"} or len(m) != 2:
                raise kwalk.WalkLimit("do_std_format_code passes only some sign flags to %s" % q)
            if q in links and links[q] != m:
                rep.ob(R, "%s|call-sites-agree" % q.rsplit("::", 1)[-1], False)
                rep.violation(R, "%s|inconsistent-flag-arguments" % q, "do_std_format_code passes the `+` / space flags to %s in different "
                              "parameter positions at different call sites (%s vs %s)" % (q.rsplit("::", 1)[-1], links[q], m), body.span(t["sp"]))
            links.setdefault(q, m)
    if len(links) < 2:
        raise kwalk.WalkLimit("do_std_format_code does not hand the `+` / space flags to its renderers as two separate arguments "
                              "(%d linked renderer(s)): the flag-to-sign table cannot be built for this shape" % len(links))
    n = 0
    for q, m in sorted(links.items()):
        g = F.fn(q)
        rep.fn(g)
        pi = {v: k for k, v in m.items()}
        for plus in (0, 1):
            for blank in (0, 1):
                def on_stmt(w, bb, idx, st, env):
                    if st["k"] != "assign":
                        return None
                    out = None
                    for c in _consts_in(st["rv"]):
                        out = out or _sign_const(w.body, c)
                    return ("sign", out) if out else None

                def on_term(w, bb, t, env):
                    if t["k"] == "call":
                        for x in t["xs"]:
                            if x.get("k") == "const":
                                sc = _sign_const(w.body, x)
                                if sc:
                                    return ("sign", sc)
                    return None
                w = scanfsm._ScanWalker(F, g.body, on_stmt=on_stmt, on_term=on_term, max_states=300000)
                outs = w.run(0, {str(pi["plus"]): plus, str(pi["blank"]): blank})
                rep.states += w.states_explored
                per_path = [frozenset(mk[1] for mk in marks if mk[0] == "sign") for kind, marks, _ in outs if kind == "return"]
                seen = set().union(*per_path) if per_path else set()
                want = {"+"} if plus else ({" "} if blank else set())
                n += 1
                ok = seen == want
                rep.ob(R, "%s|plus=%d|blank=%d" % (q.rsplit("::", 1)[-1], plus, blank), ok,
                       {"renderer": q, "plus": plus, "blank": blank, "sign constants on returning paths": sorted(seen)})
                if not ok:
                    rep.violation(R, "%s|sign|plus=%d|blank=%d" % (q, plus, blank), "%s with the `+` flag %s and the space flag %s can emit %s "
                                  "before a non-negative number; printf requires %s" % (q.rsplit("::", 1)[-1], "set" if plus else "clear",
                                                                                        "set" if blank else "clear", sorted(seen) or "nothing",
                                                                                        sorted(want) or "nothing"), g.loc)
    rep.floor(R, n, 8, "renderer x flag combinations")


def _consts_in(node):
    if isinstance(node, dict):
        if node.get("k") == "const":
            yield node
        for v in node.values():
            if isinstance(v, (dict, list)):
                for c in _consts_in(v):
                    yield c
    elif isinstance(node, list):
        for v in node:
            for c in _consts_in(v):
                yield c


def _sign_const(body, c):
    if isinstance(c.get("str"), str) and c["str"] in ("+", " "):
        return c["str"]
    if isinstance(c.get("v"), int) and c["v"] in (0x2B, 0x20) and "t" in c:
        try:
            if body.ty(c["t"])["s"] in ("char", "u8"):
                return chr(c["v"])
        except Exception:
            return None
    return None


def run(F, rep, tier):
    rep.attempt(rule_r1, F, rep)
    rep.attempt(units.rule_mix, F, rep, "C19.R2")
    rep.attempt(c01.rule_r3, F, rep)
    rep.attempt(rule_r3, F, rep)
    rep.attempt(rule_r4, F, rep)
    rep.attempt(rule_r5, F, rep)
    rep.attempt(rule_r6, F, rep)
    rep.attempt(rule_r7, F, rep)
    rep.attempt(rule_r8, F, rep)
    rep.attempt(rule_r9, F, rep)
    from . import casts
    rep.attempt(casts.rule, F, rep, "C06.R4")
    rep.assume("digit-exact rendering (rounding, exponent form, %g) is value-level and not decided")
    return EXPLANATION
