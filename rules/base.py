"""Report / evidence plumbing shared by all property checks."""
import json
import os
import time

VERIF = os.path.dirname(os.path.dirname(os.path.abspath(__file__)))


class Report:
    def __init__(self, prop, tier="quick"):
        self.prop = prop
        self.tier = tier
        self.rules = {}          # rid -> dict(clause=..., obligations=int, discharged=int, sites=int)
        self.violations = []     # dict(rule,key,msg,loc,detail)
        self.samples = []
        self.functions = set()
        self.assumptions = []
        self.trusted = []
        self.notes = []
        self.t0 = time.time()
        self.table_rows = 0
        self.states = 0
        self.undecided = []      # rules that met a shape the engines cannot decide on this tree (no verdict, no alarm)

    def attempt(self, fn, *a, **k):
        """Run one rule.  A shape the engines cannot decide (WalkLimit) leaves *that rule* undecided — reported, not alarmed,
        and the other rules of the property still run; a missing anchor fails closed for that rule only."""
        from .kwalk import WalkLimit
        from .facts import AnchorMissing
        before = set(self.rules)
        try:
            return fn(*a, **k)
        except WalkLimit as e:
            rids = sorted(set(self.rules) - before) or [getattr(fn, "__name__", "rule")]
            self.undecided.append({"rules": rids, "function": "%s.%s" % (getattr(fn, "__module__", "?"), getattr(fn, "__name__", "?")),
                                   "why": str(e)})
            return None
        except AnchorMissing as e:
            self.rule("anchor", "the semantic anchors the rules are written against exist")
            self.violation("anchor", "anchor-missing|%s" % e, "anchor missing: %s — the rule cannot be applied to this tree "
                           "(fail closed)" % e)
            return None
        except (IndexError, KeyError, TypeError, AttributeError, ValueError, RecursionError) as e:
            # the engine met a program shape it was not written for (an operand it cannot index, a layout it does not know): that
            # is "cannot decide", not a verdict about the tree — reported as UNDECIDED with the engine's message, never as a violation
            import traceback
            tb = traceback.extract_tb(e.__traceback__)
            where = "%s:%d" % (tb[-1].filename.rsplit("/", 1)[-1], tb[-1].lineno) if tb else "?"
            rids = sorted(set(self.rules) - before) or [getattr(fn, "__name__", "rule")]
            self.undecided.append({"rules": rids, "function": "%s.%s" % (getattr(fn, "__module__", "?"), getattr(fn, "__name__", "?")),
                                   "why": "engine error on an unmodelled shape (%s: %s at %s)" % (type(e).__name__, str(e)[:120], where)})
            return None

    def rule(self, rid, clause):
        self.rules.setdefault(rid, {"clause": clause, "obligations": 0, "discharged": 0, "sites": 0,
                                    "instances": set()})
        return rid

    def fn(self, *fns):
        for f in fns:
            self.functions.add(f if isinstance(f, str) else f.q)

    def ob(self, rid, instance, ok=True, sample=None):
        """Record one obligation (a concrete site / table row / path fact that was checked)."""
        r = self.rules[rid]
        r["obligations"] += 1
        if ok:
            r["discharged"] += 1
        r["instances"].add(instance)
        if sample is not None and len([s for s in self.samples if s.get("rule") == rid]) < 4:
            d = {"rule": rid, "instance": instance}
            d.update(sample if isinstance(sample, dict) else {"what": sample})
            self.samples.append(d)

    def violation(self, rid, key, msg, loc=None, detail=None):
        self.violations.append({"rule": rid, "key": "%s|%s" % (rid, key), "msg": msg, "loc": loc,
                                "detail": detail})

    def floor(self, rid, count, minimum, what):
        """Vacuity guard: the rule must have matched at least `minimum` instances."""
        if count < minimum:
            self.violation(rid, "vacuity|" + what,
                           "rule matched %d %s, below the floor of %d confirmed on the reference tree "
                           "(the matcher no longer sees the code it was written for)" % (count, what, minimum))

    def assume(self, s):
        if s not in self.assumptions:
            self.assumptions.append(s)

    def trust(self, s):
        if s not in self.trusted:
            self.trusted.append(s)

    def note(self, s):
        self.notes.append(s)


def load_known():
    p = os.path.join(VERIF, "known_findings.json")
    if not os.path.exists(p):
        return []
    with open(p) as fh:
        return json.load(fh)["findings"]


def finish(rep, explanation, level="other", seed=0, facts_meta=None, write_evidence=True):
    """Apply known findings, print VIOLATION / KNOWN-FINDING lines, write evidence; returns exit code."""
    known = [k for k in load_known() if k["property"] == rep.prop and k["state"] == "known"]
    known_keys = {k["key"]: k for k in known}
    new = []
    hit_known = []
    seen_keys = set()
    for v in rep.violations:
        if v["key"] in seen_keys:
            continue
        seen_keys.add(v["key"])
        if v["key"] in known_keys:
            hit_known.append((v, known_keys[v["key"]]))
        else:
            new.append(v)
    replay_dir = os.path.join(VERIF, "evidence", "replay") if write_evidence else "/tmp/rsj-selftest-replay"
    os.makedirs(replay_dir, exist_ok=True)
    for u in rep.undecided:
        print("UNDECIDED: property=%s rules=%s %s (the code has a shape the engines cannot decide; no verdict for these rules on "
              "this tree)" % (rep.prop, ",".join(u["rules"]), u["why"]))
    for v, k in hit_known:
        print("KNOWN-FINDING: property=%s %s [%s] %s" % (rep.prop, k["what"], v["key"], v.get("loc") or ""))
    for v in new:
        safe = "".join(c if c.isalnum() or c in "-_." else "_" for c in v["key"])[:150]
        rp = os.path.join(replay_dir, "%s-%s.json" % (rep.prop, safe))
        with open(rp, "w") as fh:
            json.dump({"property": rep.prop, "violation": v,
                       "rerun": "./check %s --tier %s" % (rep.prop, rep.tier),
                       "clause": rep.rules.get(v["rule"], {}).get("clause")}, fh, indent=1, default=str)
        print("VIOLATION property=%s replay=%s" % (rep.prop, rp))
        print("  rule=%s key=%s" % (v["rule"], v["key"]))
        print("  %s" % v["msg"])
        if v.get("loc"):
            print("  at %s" % v["loc"])
    obligations = sum(r["obligations"] for r in rep.rules.values())
    discharged = sum(r["discharged"] for r in rep.rules.values())
    distinct = len({(rid, i) for rid, r in rep.rules.items() for i in r["instances"]})
    ev = {
        "property_id": rep.prop,
        "tier": rep.tier,
        "seed": seed,
        "level": level,
        "coverage": {
            "explanation": explanation,
            "evaluations": obligations + rep.states,
            "distinct_nontrivial": distinct,
            "rule": "one evaluation per checked obligation (call site / construction site / table row / "
                    "CFG path fact) plus one per abstract state explored by the path walker; an instance "
                    "is distinct by (rule id, function, construct) and non-trivial when the rule had to "
                    "inspect at least one MIR construct for it",
            "obligations": obligations,
            "discharged": discharged,
            "states": rep.states,
            "functions_analysed": len(rep.functions),
            "rules": {rid: {"clause": r["clause"], "obligations": r["obligations"],
                            "discharged": r["discharged"], "distinct_instances": len(r["instances"])}
                      for rid, r in sorted(rep.rules.items())},
            "samples": rep.samples[:40] or [{"note": "no obligations"}],
            "trusted_base": rep.trusted,
            "checker_cmd": "./check %s --tier %s" % (rep.prop, rep.tier),
            "known_findings": [v["key"] for v, _ in hit_known],
            "new_violations": [v["key"] for v in new],
            "facts": facts_meta or {},
            "notes": rep.notes,
            "undecided": rep.undecided,
            "thorough": getattr(rep, "thorough", None),
            "exhaustive": False,
        },
        "assumptions": rep.assumptions,
        "wall_s": round(time.time() - rep.t0, 3),
        "violations": len(new),
    }
    if write_evidence:
        with open(os.path.join(VERIF, "evidence", "%s.json" % rep.prop), "w") as fh:
            json.dump(ev, fh, indent=1, default=str)
    print("%s: %d rules, %d obligations (%d discharged), %d known finding(s), %d new violation(s), %.1fs"
          % (rep.prop, len(rep.rules), obligations, discharged, len(hit_known), len(new),
             time.time() - rep.t0))
    return 1 if new else 0
