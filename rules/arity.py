"""C01.R5 — every function call binds its arguments through the parameter check.

`Evaluator::execute_call(func, args)` trusts `args` to hold exactly one thunk per declared
parameter: the builtin dispatcher destructures it with `try_into().unwrap()`, a normal function's
body looks its parameters up with a panicking `get_var`.  The rule: at every call site of
`execute_call` the argument vector is the `Ok` payload of `check_call_thunk_args` /
`check_call_expr_args`, or a State payload every constructor of which is fed the same way; and the
three `execute_*_call` workers are reached only through `execute_call`.

(The plan's "registered arity = destructured arity" table is the callee-side half of the same
contract and is not built; this is the caller-side half, which is where the tree was wrong.)
"""
from . import cg, prov, evalmarks as em

EVAL = em.EVAL
STATE = em.STATE
CHECKERS = ("<%s>::check_call_thunk_args" % EVAL, "<%s>::check_call_expr_args" % EVAL)


def _classify(F, fn, op, depth=0):
    """-> (ok, why) for an args operand"""
    P = prov.Prov(F, fn.body)
    P.with_base = True
    org = P.origins_op(op)
    if not org:
        return False, "no origin"
    bad = []
    for o in org:
        if o[0] == "call" and o[1] in CHECKERS:
            continue
        if o[0] == "call" and o[1] == "<alloc::vec::Vec>::pop" and len(o) > 2 and depth < 3:
            # payload of a popped state: ('@Some', '.0', '@Variant', '.i')
            pr = o[2]
            var = [p[1:] for p in pr if p.startswith("@") and p != "@Some"]
            idx = [p[1:] for p in pr if p.startswith(".")]
            if var and idx:
                v = var[-1]
                try:
                    i = int(idx[-1])
                except ValueError:
                    bad.append(o)
                    continue
                sites = cg.who_constructs(F, STATE, v, crates=("rsjsonnet_lang",))
                if not sites:
                    bad.append(("no-constructor", v))
                for cfn, bb, si, st in sites:
                    ok, why = _classify(F, cfn, st["rv"]["xs"][i], depth + 1)
                    if not ok:
                        bad.append(("State::%s built in %s" % (v, cfn.q), why))
                continue
        bad.append(o)
    return (not bad), bad


def rule(F, rep, rid):
    R = rep.rule(rid, "a function is only ever entered with an argument vector produced by the parameter check "
                 "(check_call_thunk_args / check_call_expr_args), directly or through a state whose constructors are fed "
                 "that way: otherwise the builtin dispatcher's `try_into().unwrap()` or a parameter lookup panics, or an "
                 "unbound parameter is silently ignored")
    lang = ("rsjsonnet_lang",)
    sites = cg.who_calls(F, "<%s>::execute_call" % EVAL, crates=lang)
    for fn, bb, t in sites:
        ok, why = _classify(F, fn, t["xs"][2])
        rep.ob(R, "execute_call|%s|%s" % (fn.q, fn.body.span(t["sp"]).rsplit(":", 2)[0].rsplit("/", 1)[-1]), ok,
               {"caller": fn.q, "site": fn.body.span(t["sp"])})
        if not ok:
            rep.violation(R, "%s|execute_call|unchecked-args" % fn.q,
                          "%s calls execute_call with an argument vector that did not pass the parameter check (origins: %s): "
                          "a function value with a different number of parameters panics or runs with unbound parameters"
                          % (fn.q, why), fn.body.span(t["sp"]))
    rep.floor(R, len(sites), 4, "execute_call sites")
    for w in ("execute_normal_call", "execute_built_in_call", "execute_native_call"):
        cs = cg.who_calls(F, "<%s>::%s" % (EVAL, w), crates=lang)
        badc = [fn.q for fn, _, _ in cs if fn.q != "<%s>::execute_call" % EVAL]
        rep.ob(R, "worker|%s" % w, not badc and bool(cs), {"callers": sorted({fn.q for fn, _, _ in cs})})
        if not cs:
            rep.violation(R, "%s|anchor" % w, "%s has no caller (anchor)" % w)
        for q in badc:
            rep.violation(R, "%s|calls|%s" % (q, w), "%s enters %s directly, bypassing execute_call and the parameter check" % (q, w))


def rule_default_env(F, rep, rid):
    """the environment in which omitted parameters' defaults are evaluated is the function's own closure environment"""
    R = rep.rule(rid, "default values of omitted parameters are evaluated in the function's closure environment: every call of "
                 "check_call_thunk_args / check_call_expr_args passes as `func_env` the environment that get_func_info returned "
                 "for the function being called (never `None` or another environment) — the analyzer checked the defaults against "
                 "exactly that scope")
    lang = ("rsjsonnet_lang",)
    n = 0
    for chk in CHECKERS:
        for fn, bb, t in cg.who_calls(F, chk, crates=lang):
            if fn.q in CHECKERS:
                continue
            n += 1
            body = fn.body
            P = prov.Prov(F, body)
            envs = [x for x in t["xs"] if "t" in x and "Option<gc::Gc<program::data::ThunkEnv" in body.ty(x["t"])["s"]]
            if not envs:
                envs = [x for x in t["xs"] if "t" in x and "ThunkEnv" in body.ty(x["t"])["s"] and body.ty(x["t"])["s"].startswith("std::option::Option")]
            org = set()
            for x in envs[-1:]:
                if x["k"] == "const":
                    org.add(("const", x.get("s")))
                else:
                    org |= P.origins_op(x)
            ok = bool(org) and all((o[0] == "call" and o[1].endswith("get_func_info")) or o[0] == "arg" for o in org)
            rep.ob(R, "%s|func_env@%s" % (fn.q, body.span(t["sp"]).rsplit("/", 1)[-1]), ok, {"caller": fn.q, "func_env_origins": sorted(map(str, org))})
            if not ok:
                rep.violation(R, "%s|func_env" % fn.q,
                              "%s binds call arguments with a `func_env` that does not come from get_func_info (origins %s): default "
                              "parameter values that refer to the enclosing scope, `std`, `self` or `$` would find nothing there"
                              % (fn.q, sorted(map(str, org))), body.span(t["sp"]))
    rep.floor(R, n, 3, "argument-binding call sites")
