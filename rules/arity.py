"""C01.R5 — every function call binds its arguments through the parameter check.

`Evaluator::execute_call(func, args)` trusts `args` to hold exactly one thunk per declared
parameter: the builtin dispatcher destructures it with `try_into().unwrap()`, a normal function's
body looks its parameters up with a panicking `get_var`.  The rule: at every call site of
`execute_call` the argument vector is the `Ok` payload of `check_call_thunk_args` /
`check_call_expr_args`, or a State payload every constructor of which is fed the same way; and the
three `execute_*_call` workers are reached only through `execute_call`.

(The plan's "registered arity = destructured arity" table is the callee-side half of the same
contract and is not built; this is the caller-side half, which is where the tree was wrong.)
"""
from . import cg, prov, evalmarks as em
from .facts import callee_name, AnchorMissing

EVAL = em.EVAL
STATE = em.STATE
CHECKERS = ("<%s>::check_call_thunk_args" % EVAL, "<%s>::check_call_expr_args" % EVAL)


def _classify(F, fn, op, depth=0):
    """-> (ok, why) for an args operand"""
    P = prov.Prov(F, fn.body)
    P.with_base = True
    org = P.origins_op(op)
    if not org:
        return False, "no origin"
    bad = []
    for o in org:
        if o[0] == "call" and o[1] in CHECKERS:
            continue
        if o[0] == "call" and o[1] == "<alloc::vec::Vec>::pop" and len(o) > 2 and depth < 3:
            # payload of a popped state: ('@Some', '.0', '@Variant', '.i')
            pr = o[2]
            var = [p[1:] for p in pr if p.startswith("@") and p != "@Some"]
            idx = [p[1:] for p in pr if p.startswith(".")]
            if var and idx:
                v = var[-1]
                try:
                    i = int(idx[-1])
                except ValueError:
                    bad.append(o)
                    continue
                sites = cg.who_constructs(F, STATE, v, crates=("rsjsonnet_lang",))
                if not sites:
                    bad.append(("no-constructor", v))
                for cfn, bb, si, st in sites:
                    ok, why = _classify(F, cfn, st["rv"]["xs"][i], depth + 1)
                    if not ok:
                        bad.append(("State::%s built in %s" % (v, cfn.q), why))
                continue
        bad.append(o)
    return (not bad), bad


def rule(F, rep, rid):
    R = rep.rule(rid, "a function is only ever entered with an argument vector produced by the parameter check "
                 "(check_call_thunk_args / check_call_expr_args), directly or through a state whose constructors are fed "
                 "that way: otherwise the builtin dispatcher's `try_into().unwrap()` or a parameter lookup panics, or an "
                 "unbound parameter is silently ignored")
    lang = ("rsjsonnet_lang",)
    sites = cg.who_calls(F, "<%s>::execute_call" % EVAL, crates=lang)
    for fn, bb, t in sites:
        ok, why = _classify(F, fn, t["xs"][2])
        rep.ob(R, "execute_call|%s|%s" % (fn.q, fn.body.span(t["sp"]).rsplit(":", 2)[0].rsplit("/", 1)[-1]), ok,
               {"caller": fn.q, "site": fn.body.span(t["sp"])})
        if not ok:
            rep.violation(R, "%s|execute_call|unchecked-args" % fn.q,
                          "%s calls execute_call with an argument vector that did not pass the parameter check (origins: %s): "
                          "a function value with a different number of parameters panics or runs with unbound parameters"
                          % (fn.q, why), fn.body.span(t["sp"]))
    rep.floor(R, len(sites), 4, "execute_call sites")
    for w in ("execute_normal_call", "execute_built_in_call", "execute_native_call"):
        cs = cg.who_calls(F, "<%s>::%s" % (EVAL, w), crates=lang)
        badc = [fn.q for fn, _, _ in cs if fn.q != "<%s>::execute_call" % EVAL]
        rep.ob(R, "worker|%s" % w, not badc and bool(cs), {"callers": sorted({fn.q for fn, _, _ in cs})})
        if not cs:
            rep.violation(R, "%s|anchor" % w, "%s has no caller (anchor)" % w)
        for q in badc:
            rep.violation(R, "%s|calls|%s" % (q, w), "%s enters %s directly, bypassing execute_call and the parameter check" % (q, w))


_PROVIDER = {}


def _is_env_provider(F, q):
    """q returns, as its only `Some(environment)`, a clone of the `env` of `FuncKind::Normal` of the function value it is given"""
    if q in _PROVIDER:
        return _PROVIDER[q]
    fn = F.fn_opt(q)
    res = False
    if fn is not None and fn.body is not None:
        body = fn.body
        defs = {}
        for bb, si, st in body.assigns():
            if not st["p"]["p"]:
                defs.setdefault(st["p"]["l"], []).append(("a", st["rv"]))
        for bb, t in body.calls():
            if not t["dst"]["p"]:
                defs.setdefault(t["dst"]["l"], []).append(("c", t))

        def from_normal_env(op, depth=0):
            if op["k"] not in ("copy", "move") or depth > 8:
                return False
            pr = [p for p in op["p"] if p != "*"]
            for i, p in enumerate(pr):
                if p["k"] == "f" and p.get("n") == "env" and i > 0 and pr[i - 1]["k"] == "d" and pr[i - 1]["v"] == "Normal":
                    return True
            ds = defs.get(op["l"], [])
            if not ds:
                return False
            for kind, d in ds:
                if kind == "c":
                    nm = callee_name(d) or ""
                    if not (nm.endswith("Clone>::clone") and d["xs"] and from_normal_env(d["xs"][0], depth + 1)):
                        return False
                else:
                    if d["k"] == "use":
                        if not from_normal_env(d["x"], depth + 1):
                            return False
                    elif d["k"] in ("ref", "rawptr"):
                        x = dict(d["p"])
                        x["k"] = "copy"
                        if not from_normal_env(x, depth + 1):
                            return False
                    else:
                        return False
            return True
        somes = [st["rv"] for bb, si, st in body.assigns() if st["rv"]["k"] == "agg" and st["rv"].get("adt") == "core::option::Option"
                 and st["rv"]["v"] == "Some" and "ThunkEnv" in body.ty(st["p"]["t"])["s"]]
        res = bool(somes) and all(from_normal_env(rv["xs"][0]) for rv in somes)
    _PROVIDER[q] = res
    return res


def rule_default_env(F, rep, rid):
    """the environment in which omitted parameters' defaults are evaluated is the function's own closure environment"""
    R = rep.rule(rid, "default values of omitted parameters are evaluated in the function's closure environment: every call of "
                 "check_call_thunk_args / check_call_expr_args passes as `func_env` the environment that get_func_info returned "
                 "for the function being called (never `None` or another environment) — the analyzer checked the defaults against "
                 "exactly that scope")
    lang = ("rsjsonnet_lang",)
    n = 0
    for chk in CHECKERS:
        for fn, bb, t in cg.who_calls(F, chk, crates=lang):
            if fn.q in CHECKERS:
                continue
            n += 1
            body = fn.body
            P = prov.Prov(F, body)
            envs = [x for x in t["xs"] if "t" in x and "Option<gc::Gc<program::data::ThunkEnv" in body.ty(x["t"])["s"]]
            if not envs:
                envs = [x for x in t["xs"] if "t" in x and "ThunkEnv" in body.ty(x["t"])["s"] and body.ty(x["t"])["s"].startswith("std::option::Option")]
            org = set()
            for x in envs[-1:]:
                if x["k"] == "const":
                    org.add(("const", x.get("s")))
                else:
                    org |= P.origins_op(x)
            ok = bool(org) and all((o[0] == "call" and (o[1].endswith("get_func_info") or _is_env_provider(F, o[1]))) or o[0] == "arg"
                                   for o in org)
            if not ok and bool(org) and all(o[0] in ("call", "arg", "agg") for o in org):
                # a helper that did not exist on the reference tree was read in place: accept it when the environment it hands out
                # is the called function's own (`FuncKind::Normal { env, .. }`)
                provs = [q for q in (t2["f"].get("r") for _, t2 in body.calls() if t2["f"].get("rlocal")) if q and F.is_new_fn(q) and _is_env_provider(F, q)]
                if provs and all(o[0] != "call" or o[1].endswith("get_func_info") or _is_env_provider(F, o[1]) for o in org):
                    ok = True
            rep.ob(R, "%s|func_env@%s" % (fn.q, body.span(t["sp"]).rsplit("/", 1)[-1]), ok, {"caller": fn.q, "func_env_origins": sorted(map(str, org))})
            if not ok:
                rep.violation(R, "%s|func_env" % fn.q,
                              "%s binds call arguments with a `func_env` that does not come from get_func_info (origins %s): default "
                              "parameter values that refer to the enclosing scope, `std`, `self` or `$` would find nothing there"
                              % (fn.q, sorted(map(str, org))), body.span(t["sp"]))
    rep.floor(R, n, 3, "argument-binding call sites")


def rule_tables(F, rep, rid):
    """callee side: the number of parameters a builtin is registered with equals the number of arguments its dispatcher arm
    destructures (`check_num_args::<N>`), for every BuiltInFunc variant"""
    import re
    from . import cfg as _cfg
    R = rep.rule(rid, "every builtin is registered with exactly as many parameters as its dispatcher arm takes apart: for each "
                 "BuiltInFunc variant the length of the parameter list given to the registration in build_stdlib_extra equals the "
                 "N of `check_num_args::<N>` in execute_built_in_call (a mismatch is a `try_into().unwrap()` panic on every call "
                 "of that builtin with a well-formed argument list)")
    BIF = "rsjsonnet_lang::program::data::BuiltInFunc"
    variants = F.variants(BIF)
    # --- registration side
    reg = {}
    b = F.fn("<rsjsonnet_lang::program::Program>::build_stdlib_extra")
    bodies = [b] + list(F.closures_of(b))
    for g in bodies:
        body = g.body
        defs = {}
        for bb, si, st in body.assigns():
            if not st["p"]["p"]:
                defs.setdefault(st["p"]["l"], []).append(st["rv"])

        def arr_len(op, depth=0):
            """length N of the `[T; N]` a slice operand was unsized from"""
            if op["k"] not in ("move", "copy") or depth > 6:
                return None
            ty = body.ty(op["t"]) if "t" in op else None
            if ty is not None:
                m = re.search(r"; (\d+)\]", ty["s"])
                if m and ty["s"].startswith("&["):
                    return int(m.group(1))
            for rv in defs.get(op["l"], []):
                if rv["k"] in ("cast", "use") and rv["x"]["k"] in ("move", "copy"):
                    r = arr_len(rv["x"], depth + 1)
                    if r is not None:
                        return r
                if rv["k"] == "ref":
                    t2 = body.ty(rv["p"]["t"]) if "t" in rv["p"] else None
                    if t2 is not None:
                        m = re.search(r"; (\d+)\]", t2["s"])
                        if m:
                            return int(m.group(1))
                    r = arr_len({"k": "copy", "l": rv["p"]["l"], "p": [], "t": body.locals[rv["p"]["l"]]["t"]}, depth + 1)
                    if r is not None:
                        return r
            return None
        for bb, si, st in body.assigns():
            rv = st["rv"]
            if rv["k"] == "agg" and rv["ak"] == "tuple":
                var = None
                n = None
                for x in rv["xs"]:
                    if x["k"] in ("move", "copy"):
                        for d in defs.get(x["l"], []):
                            if d["k"] == "agg" and d["ak"] == "adt" and d["adt"] == BIF:
                                var = d["v"]
                        ty = body.ty(x["t"])["s"] if "t" in x else ""
                        if ty.startswith("&[") and "str" in ty:
                            n = arr_len(x)
                if var is not None:
                    reg.setdefault(var, []).append((n, body.span(st["sp"])))
    # --- dispatcher side
    d = F.fn("<rsjsonnet_lang::program::eval::Evaluator>::execute_built_in_call")
    body = d.body
    succ = body.succ_map()
    best = None
    for i, blk in enumerate(body.blocks):
        t = blk["t"]
        if t["k"] == "switch" and (best is None or len(t["arms"]) > len(body.blocks[best]["t"]["arms"])):
            best = i
    if best is None or len(body.blocks[best]["t"]["arms"]) < len(variants) // 2:
        raise AnchorMissing("execute_built_in_call: dispatch on BuiltInFunc")
    arms = body.blocks[best]["t"]["arms"]
    ent = {}
    for v, tb in arms:
        if 0 <= v < len(variants):
            ent[variants[v]] = tb
    disp = {}
    for var, tb in ent.items():
        seen = _cfg.reachable(succ, [tb], blocked_nodes=[best])
        ns = set()
        for bb in seen:
            t = body.blocks[bb]["t"]
            if t["k"] == "call" and (callee_name(t) or "").endswith("::check_num_args"):
                for g_ in t["f"].get("ga", []):
                    if isinstance(g_, str) and g_.startswith("const "):
                        ns.add(int(g_.split()[1]))
        if not ns:
            # an arm that indexes the argument slice with constants instead: N = highest index + 1
            hi = -1
            for bb in seen:
                for st in body.blocks[bb]["s"]:
                    if st["k"] != "assign":
                        continue
                    rv = st["rv"]
                    pls = [rv.get("p")] if rv["k"] in ("ref", "rawptr") else ([rv.get("x")] if rv["k"] == "use" else [])
                    for pl in pls:
                        if isinstance(pl, dict) and pl.get("l") is not None and pl.get("p"):
                            for pr in pl["p"]:
                                if pr != "*" and pr["k"] == "ci" and not pr.get("fe"):
                                    hi = max(hi, pr["o"])
                                if pr != "*" and pr["k"] == "i":
                                    for b3 in seen:
                                        for s3 in body.blocks[b3]["s"]:
                                            if s3["k"] == "assign" and s3["p"]["l"] == pr["l"] and not s3["p"]["p"] and \
                                                    s3["rv"]["k"] == "use" and s3["rv"]["x"]["k"] == "const" and isinstance(s3["rv"]["x"].get("v"), int):
                                                hi = max(hi, s3["rv"]["x"]["v"])
            if hi >= 0:
                ns.add(hi + 1)
        disp[var] = ns
    n_rows = 0
    for var in variants:
        rs = reg.get(var, [])
        ds = disp.get(var)
        if not rs and ds is None:
            continue
        n_rows += 1
        regn = {r[0] for r in rs}
        ok = len(rs) >= 1 and None not in regn and ds is not None and len(ds) == 1 and regn == ds
        rep.ob(R, "builtin|%s" % var, ok, {"builtin": var, "registered_params": sorted(map(str, regn)), "dispatcher_takes": sorted(ds or [])}
               if var in ("Foldl", "Substr", "ExtVar") or not ok else None)
        if not ok:
            rep.violation(R, "BuiltInFunc::%s|arity" % var,
                          "builtin %s is registered with %s parameter(s) but its dispatcher arm destructures %s argument(s)%s"
                          % (var, sorted(map(str, regn)) or "no", sorted(ds) if ds else "no",
                             "" if rs else " (never registered)"), (rs[0][1] if rs else d.loc))
    rep.floor(R, n_rows, 100, "builtin variants")
