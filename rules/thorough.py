"""Thorough tier: the same rules over more build configurations, plus the two-way self-test.

(a) Alternative configurations.  The quick tier analyses the workspace as `cargo check` builds it
    (dev profile, default features).  The thorough tier repeats every rule of the property on
      release      `cargo check --release`: debug assertions and overflow checks off — the MIR of the shipped binary
                   (no `assert(!overflow)` terminators, `debug_assert!` bodies gone)
      nocrossterm  rsjsonnet-front built with `--no-default-features` (the other crates from the default build)
    A violation that appears only there is reported like any other, with the configuration in its key.
(b) Self-test replay.  Every patch of the property's corpus — `selftest/<Cxx>/*.diff` (written while the rules were built,
    incl. reverse patches of the fix commits) and the independently seeded changes under `seeded/` that this property's check
    is recorded as catching — is applied to a scratch copy of /repo's *current* tree outside /repo and /verif, facts are
    extracted for it and the property's quick check is run on the copy.  A firing patch must produce a violation, a
    `*benign*` patch none; the behaviour-preserving patches of benign/ on which this property's check once raised a false alarm
    are replayed too and must stay silent.  Patches that no longer apply to the current tree are counted as skipped.  The outcome is
    written to the evidence file; it never turns into a VIOLATION line, because a self-test miss says something about the
    checker, not about the tree being checked.
No step executes rsjsonnet.
"""
import glob
import json
import os
import shutil
import subprocess
import sys
import tempfile
from concurrent.futures import ThreadPoolExecutor

from . import base, facts
from .kwalk import WalkLimit

VERIF = base.VERIF
CONFIGS = ("release", "nocrossterm")


def run_configs(prop, mod, rep):
    seen = {v["key"] for v in rep.violations}
    out = {}
    for cfg in CONFIGS:
        try:
            F2 = facts.load(cfg)
        except Exception as e:
            rep.note("configuration %s could not be extracted: %s" % (cfg, e))
            out[cfg] = {"error": str(e)}
            continue
        rep2 = base.Report(prop, "thorough")
        try:
            mod.run(F2, rep2, "thorough")
        except facts.AnchorMissing as e:
            rep2.rule("anchor", "the semantic anchors the rules are written against exist")
            rep2.violation("anchor", "anchor-missing|%s" % e, "anchor missing in configuration %s: %s" % (cfg, e))
        except WalkLimit as e:
            rep2.undecided.append({"rules": ["(rest of the property's rules)"], "function": mod.__name__, "why": str(e)})
        ob = sum(r["obligations"] for r in rep2.rules.values())
        di = sum(r["discharged"] for r in rep2.rules.values())
        extra = []
        for v in rep2.violations:
            if v["key"] in seen:
                continue
            v = dict(v)
            v["key"] = v["key"] + "|cfg=" + cfg
            v["msg"] = "[configuration %s] %s" % (cfg, v["msg"])
            if v["rule"] not in rep.rules:
                rep.rule(v["rule"], rep2.rules.get(v["rule"], {}).get("clause", ""))
            rep.violations.append(v)
            extra.append(v["key"])
        rep.states += rep2.states
        out[cfg] = {"obligations": ob, "discharged": di, "violations_only_in_this_configuration": extra,
                    "undecided": rep2.undecided}
        for a in rep2.assumptions:
            if a not in rep.assumptions:
                rep.assumptions.append(a)
    return out


def corpus(prop):
    out = []
    for p in sorted(glob.glob(os.path.join(VERIF, "selftest", prop, "*.diff"))):
        out.append((os.path.relpath(p, VERIF), p, "benign" in os.path.basename(p)))
    for sd in sorted(glob.glob(os.path.join(VERIF, "seeded", "*"))):
        vd = os.path.join(sd, "verdict-now.json")
        if not os.path.exists(vd):
            vd = os.path.join(sd, "verdict.json")
        try:
            v = json.load(open(vd))
        except Exception:
            continue
        if prop in (v.get("caught_by") or {}):
            p = os.path.join(os.path.dirname(vd), "patch.diff")
            if os.path.exists(p):
                out.append((os.path.relpath(p, VERIF), p, False))
    # behaviour-preserving patches on which this property's check once raised a false alarm (DESIGN §9): must stay silent
    for vf in sorted(glob.glob(os.path.join(VERIF, "benign", "*", "*.diff.verdict-first.json"))):
        try:
            v = json.load(open(vf))
        except Exception:
            continue
        if prop in (v.get("alarms") or {}):
            p = vf[:-len(".verdict-first.json")]
            if os.path.exists(p):
                out.append((os.path.relpath(p, VERIF), p, True))
    return out


def _one(prop, name, patch, benign):
    tmp = tempfile.mkdtemp(prefix="rsj-selftest-")
    wt = os.path.join(tmp, "repo")
    try:
        shutil.copytree(facts.REPO, wt, ignore=shutil.ignore_patterns("target", ".git"), symlinks=True)
        r = subprocess.run(["git", "apply", "--whitespace=nowarn", patch], cwd=wt, stdout=subprocess.PIPE, stderr=subprocess.STDOUT, text=True)
        if r.returncode != 0:
            return {"patch": name, "result": "skipped", "why": "does not apply to the current tree"}
        r = subprocess.run([sys.executable, os.path.join(VERIF, "check"), prop, "--repo", wt, "--no-evidence"],
                           stdout=subprocess.PIPE, stderr=subprocess.STDOUT, text=True, cwd=VERIF)
        keys = [l.split("key=", 1)[1].strip() for l in r.stdout.splitlines() if "key=" in l and l.lstrip().startswith("rule=")]
        if r.returncode not in (0, 1):
            return {"patch": name, "result": "error", "why": r.stdout[-400:]}
        fired = bool(keys)
        ok = (not fired) if benign else fired
        return {"patch": name, "expected": "silent" if benign else "fires", "result": "ok" if ok else "MISS",
                "violations": keys[:6]}
    finally:
        shutil.rmtree(tmp, ignore_errors=True)


def run_selftest(prop, rep):
    items = corpus(prop)
    if not items:
        return {"patches": 0}
    workers = int(os.environ.get("VERIF_SELFTEST_WORKERS", "4"))
    with ThreadPoolExecutor(max_workers=workers) as ex:
        res = list(ex.map(lambda it: _one(prop, *it), items))
    miss = [r for r in res if r["result"] == "MISS"]
    for r in miss:
        sys.stderr.write("SELFTEST-MISS property=%s patch=%s expected=%s\n" % (prop, r["patch"], r.get("expected")))
    return {"patches": len(res), "ok": sum(1 for r in res if r["result"] == "ok"), "missed": [r["patch"] for r in miss],
            "skipped": [r["patch"] for r in res if r["result"] == "skipped"],
            "errors": [r for r in res if r["result"] == "error"], "detail": res}


def run(prop, mod, rep):
    cov = {"configurations": run_configs(prop, mod, rep)}
    if not os.environ.get("VERIF_NO_SELFTEST"):
        cov["selftest"] = run_selftest(prop, rep)
    rep.thorough = cov
    st = cov.get("selftest", {})
    rep.note("thorough tier: configurations %s; self-test %s/%s patches behaved as expected (%d skipped, %d missed)"
             % ({k: (v.get("obligations"), v.get("discharged")) for k, v in cov["configurations"].items()},
                st.get("ok", 0), st.get("patches", 0), len(st.get("skipped", [])), len(st.get("missed", []))))
    return cov
