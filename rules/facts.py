"""Fact extraction driver harness and fact loading.

Facts are produced by the rustc_private driver (driver/), injected as RUSTC_WORKSPACE_WRAPPER under
`cargo +nightly check --offline --workspace` on /repo's *current working tree*.  Nothing of rsjsonnet
is executed.  Facts are cached per tree hash under /verif/.cache/facts/<hash>/<config>/.
"""
import fcntl
import hashlib
import json
import os
import shutil
import subprocess
import sys
import time

VERIF = os.path.dirname(os.path.dirname(os.path.abspath(__file__)))
REPO = os.environ.get("RSJ_REPO", "/repo")
DEFAULT_REPO = REPO
CACHE = os.path.join(VERIF, ".cache")
DRIVER_DIR = os.path.join(VERIF, "driver")
DRIVER_BIN = os.path.join(DRIVER_DIR, "target", "debug", "rsj-facts")

MEMBER_CRATES = ("rsjsonnet_lang", "rsjsonnet_front", "rsjsonnet")


class AnchorMissing(Exception):
    """A semantic anchor (function, ADT, field) a rule is written against no longer exists."""


def tree_hash(repo=None):
    repo = repo or REPO
    h = hashlib.sha256()
    files = []
    for root, dirs, fs in os.walk(repo):
        dirs[:] = sorted(d for d in dirs if d not in ("target", ".git", "ui-tests", "ci"))
        for f in sorted(fs):
            if f.endswith((".rs", ".toml", ".lock", ".libsonnet")):
                files.append(os.path.join(root, f))
    for p in files:
        h.update(os.path.relpath(p, repo).encode())
        h.update(b"\0")
        with open(p, "rb") as fh:
            h.update(fh.read())
        h.update(b"\0")
    # the driver itself is part of the key
    try:
        with open(os.path.join(DRIVER_DIR, "src", "main.rs"), "rb") as fh:
            h.update(fh.read())
    except OSError:
        pass
    return h.hexdigest()[:24]


def _sysroot():
    return subprocess.check_output(["rustc", "+nightly", "--print", "sysroot"], text=True).strip()


def _env(extra=None):
    env = dict(os.environ)
    env["CARGO_NET_OFFLINE"] = "true"
    env["LD_LIBRARY_PATH"] = _sysroot() + "/lib" + (":" + env["LD_LIBRARY_PATH"] if env.get("LD_LIBRARY_PATH") else "")
    env.pop("RUSTC_WRAPPER", None)
    if extra:
        env.update(extra)
    return env


def build_driver(force=False):
    src = os.path.join(DRIVER_DIR, "src", "main.rs")
    if not force and os.path.exists(DRIVER_BIN) and os.path.getmtime(DRIVER_BIN) >= os.path.getmtime(src):
        return
    r = subprocess.run(["cargo", "+nightly", "build", "--offline"], cwd=DRIVER_DIR, env=_env(),
                       stdout=subprocess.PIPE, stderr=subprocess.STDOUT, text=True)
    if r.returncode != 0:
        sys.stderr.write(r.stdout)
        raise RuntimeError("driver build failed")


CONFIGS = {
    # name -> (cargo args, extra env)
    "default": (["check", "--offline", "--workspace"], {}),
    "nocrossterm": (["check", "--offline", "-p", "rsjsonnet-front", "--no-default-features"], {}),
    "release": (["check", "--offline", "--workspace", "--release"], {}),
}


def extract(repo=None, config="default", target_dir=None, out_dir=None, quiet=True):
    """Run the driver over `repo`; returns out_dir containing <crate>-<kind>.json."""
    repo = repo or REPO
    build_driver()
    args, extra = CONFIGS[config]
    target_dir = target_dir or os.path.join(CACHE, "target")
    os.makedirs(target_dir, exist_ok=True)
    os.makedirs(out_dir, exist_ok=True)
    nonce = "%d-%d" % (os.getpid(), time.time_ns())
    # cargo's freshness cache would skip the wrapper: drop the members' fingerprints
    for prof in ("debug", "release"):
        fp = os.path.join(target_dir, prof, ".fingerprint")
        if os.path.isdir(fp):
            for d in os.listdir(fp):
                if d.startswith("rsjsonnet"):
                    shutil.rmtree(os.path.join(fp, d), ignore_errors=True)
    env = _env({
        "RSJ_FACTS_OUT": out_dir,
        "RSJ_FACTS_NONCE": nonce,
        "RUSTFLAGS": "-Zmir-opt-level=0 -Awarnings",
        "RUSTC_WORKSPACE_WRAPPER": DRIVER_BIN,
        "CARGO_TARGET_DIR": target_dir,
    })
    env.update(extra)
    r = subprocess.run(["cargo", "+nightly"] + args, cwd=repo, env=env,
                       stdout=subprocess.PIPE, stderr=subprocess.STDOUT, text=True)
    if r.returncode != 0:
        sys.stderr.write(r.stdout[-6000:])
        raise RuntimeError("fact extraction failed (cargo check exit %d)" % r.returncode)
    produced = [f for f in os.listdir(out_dir) if f.endswith(".json")]
    if not produced:
        raise RuntimeError("fact extraction produced no fact file (wrapper skipped?)")
    for f in produced:
        with open(os.path.join(out_dir, f)) as fh:
            head = fh.read(4096)
        if nonce not in head:
            raise RuntimeError("stale fact file %s (nonce mismatch)" % f)
    return out_dir


def _acquire_target(scratch):
    """(target dir, open lock file) — /repo's own tree uses the warmed .cache/target; scratch trees (self-test replays) use a
    small pool so that several of them can be extracted at the same time"""
    if not scratch:
        path = os.path.join(CACHE, "target")
        lk = open(path + ".lock", "w")
        fcntl.flock(lk, fcntl.LOCK_EX)
        return path, lk
    pool = os.path.join(CACHE, "target-pool")
    os.makedirs(pool, exist_ok=True)
    n = int(os.environ.get("VERIF_TARGET_POOL", "4"))
    while True:
        for k in range(n):
            path = os.path.join(pool, "t%d" % k)
            lk = open(path + ".lock", "w")
            try:
                fcntl.flock(lk, fcntl.LOCK_EX | fcntl.LOCK_NB)
                return path, lk
            except OSError:
                lk.close()
        time.sleep(0.5)


def ensure_facts(config="default", repo=None):
    """Return directory with facts for the current tree of `repo`, extracting if not cached."""
    repo = repo or REPO
    th = tree_hash(repo)
    base = os.path.join(CACHE, "facts", th, config)
    ok = os.path.join(base, "OK")
    os.makedirs(os.path.join(CACHE, "facts"), exist_ok=True)
    if os.path.exists(ok):
        try:
            os.utime(os.path.join(CACHE, "facts", th))
        except OSError:
            pass
        return base
    lock_path = os.path.join(CACHE, "facts", "%s.%s.lock" % (th, config))
    with open(lock_path, "w") as lk:
        fcntl.flock(lk, fcntl.LOCK_EX)
        try:
            if not os.path.exists(ok):
                if os.path.isdir(base):
                    shutil.rmtree(base)
                scratch = os.path.realpath(repo) != os.path.realpath(DEFAULT_REPO)
                tdir, tlk = _acquire_target(scratch)
                try:
                    extract(repo, config, target_dir=tdir, out_dir=base)
                finally:
                    fcntl.flock(tlk, fcntl.LOCK_UN)
                    tlk.close()
                with open(ok, "w") as fh:
                    fh.write(th)
                _prune_cache(keep=th)
        finally:
            fcntl.flock(lk, fcntl.LOCK_UN)
    return base


def _prune_cache(keep, max_states=24, min_age_s=3 * 3600):
    """drop the least recently used fact sets beyond max_states, never one touched in the last hours
    (another process may be reading it)"""
    root = os.path.join(CACHE, "facts")
    ents = []
    now = time.time()
    for d in os.listdir(root):
        p = os.path.join(root, d)
        if os.path.isdir(p) and d != keep:
            ents.append((os.path.getmtime(p), p))
        elif d.endswith(".lock") and now - os.path.getmtime(p) > 24 * 3600:
            try:
                os.unlink(p)
            except OSError:
                pass
    ents.sort(reverse=True)
    for mt, p in ents[max_states - 1:]:
        if now - mt > min_age_s:
            shutil.rmtree(p, ignore_errors=True)


# ------------------------------------------------------------------------------------------------
# loading


def pk(place):
    """Stable string key of a place: '3', '3.0', '1.*.2', '5@Some.0'."""
    s = str(place["l"])
    for p in place["p"]:
        if p == "*":
            s += ".*"
        else:
            k = p["k"]
            if k == "f":
                s += ".%d" % p["i"]
            elif k == "d":
                s += "@%s" % p["v"]
            elif k == "i":
                s += "[_%d]" % p["l"]
            elif k == "ci":
                s += "[%s%d]" % ("-" if p["fe"] else "", p["o"])
            elif k == "ss":
                s += "[%d..%s%d]" % (p["from"], "-" if p["fe"] else "", p["to"])
            else:
                s += ".?"
    return s


class Body:
    def __init__(self, j, crate, fn, promoted_index=None):
        self.j = j
        self.crate = crate
        self.fn = fn
        self.promoted_index = promoted_index
        self.blocks = j["blocks"]
        self.locals = j["locals"]
        self.argc = j["argc"]
        self._succ = None
        self._pred = None
        self._names = None

    def ty(self, idx):
        return self.crate.types[idx]

    def local_ty(self, l):
        return self.crate.types[self.locals[l]["t"]]

    def span(self, idx):
        return self.crate.spans[idx]

    def term(self, bb):
        return self.blocks[bb]["t"]

    def stmts(self, bb):
        return self.blocks[bb]["s"]

    @property
    def names(self):
        """user variable name -> place key list"""
        if self._names is None:
            d = {}
            for n in self.j["names"]:
                d.setdefault(n["n"], []).append(n["p"])
            self._names = d
        return self._names

    def local_names(self):
        """local index -> user name (for whole-local debug entries)"""
        out = {}
        for n in self.j["names"]:
            if not n["p"]["p"]:
                out.setdefault(n["p"]["l"], n["n"])
        return out

    def succs(self, bb, unwind=False):
        t = self.blocks[bb]["t"]
        k = t["k"]
        out = []
        if k == "goto":
            out.append(t["t"])
        elif k == "switch":
            for _, b in t["arms"]:
                out.append(b)
            out.append(t["else"])
        elif k in ("drop", "assert"):
            out.append(t["t"])
        elif k == "call":
            if t["t"] is not None:
                out.append(t["t"])
        if unwind and t.get("uw") is not None:
            out.append(t["uw"])
        # dedupe preserving order
        seen = set()
        res = []
        for b in out:
            if b not in seen:
                seen.add(b)
                res.append(b)
        return res

    def succ_map(self):
        if self._succ is None:
            self._succ = [self.succs(i) for i in range(len(self.blocks))]
        return self._succ

    def pred_map(self):
        if self._pred is None:
            pm = [[] for _ in self.blocks]
            for i, ss in enumerate(self.succ_map()):
                for s in ss:
                    pm[s].append(i)
            self._pred = pm
        return self._pred

    def calls(self):
        """yield (bb, terminator) for call terminators in non-cleanup blocks"""
        for i, b in enumerate(self.blocks):
            if b["cleanup"]:
                continue
            t = b["t"]
            if t["k"] in ("call", "tailcall"):
                yield i, t

    def assigns(self):
        """yield (bb, stmt_index, stmt) for assignments in non-cleanup blocks"""
        for i, b in enumerate(self.blocks):
            if b["cleanup"]:
                continue
            for si, s in enumerate(b["s"]):
                if s["k"] == "assign":
                    yield i, si, s


def callee_name(t):
    """Resolved callee qname of a call terminator (falls back to the declared def), or None."""
    f = t["f"]
    if f["k"] != "def":
        return None
    return f.get("r") or f["d"]


def callee_decl(t):
    f = t["f"]
    if f["k"] != "def":
        return None
    return f["d"]


class Fn:
    def __init__(self, j, crate):
        self.j = j
        self.crate = crate
        self.q = j["q"]
        self.name = j.get("name")
        self.kind = j["kind"]
        self.body = Body(j["body"], crate, self)
        self.promoted = [Body(p, crate, self, i) for i, p in enumerate(j["promoted"])]
        self.impl_self = j.get("impl_self")
        self.impl_trait = j.get("impl_trait")
        self.generic = j["generic"]
        self.mac = j.get("mac")

    @property
    def loc(self):
        return self.crate.spans[self.j["sp"]]

    def __repr__(self):
        return "<Fn %s>" % self.q


class Crate:
    def __init__(self, j, path):
        self.j = j
        self.path = path
        self.meta = j["meta"]
        self.name = j["meta"]["crate"]
        self.spans = j["spans"]
        self.types = j["types"]
        self.adts = {a["q"]: a for a in j["adts"]}
        self.impls = j["impls"]
        self.fns = [Fn(f, self) for f in j["fns"]]
        self.mono = j["mono"]
        self.attrs = j["attrs"]


class Facts:
    def __init__(self, directory, override=None, raw=False):
        self.dir = directory
        self.crates = {}
        self.renames = {}
        for dd in ([directory] + ([override] if override else [])):
            texts = {}
            for f in sorted(os.listdir(dd)):
                if f.endswith(".json"):
                    with open(os.path.join(dd, f)) as fh:
                        texts[f] = fh.read()
            if raw:
                parsed = {f: json.loads(t) for f, t in texts.items()}
            else:
                # names of the reference tree for renamed functions / types / variants / fields (rules/renames.py)
                from . import renames
                parsed, rn = renames.normalise(texts)
                for k, v in rn.items():
                    if v:
                        self.renames.setdefault(k, {}).update(v)
            for f, j in parsed.items():
                if not raw:
                    # straight-line helpers introduced after the reference tree are read at their call sites (rules/inline.py)
                    from . import inline
                    try:
                        sp = inline.inline_crate(j)
                    except Exception as e:      # the splice is an aid, never a reason to fail a check
                        sp = []
                        self.renames.setdefault("inline_error", {})[f] = str(e)[:200]
                    if sp:
                        self.renames.setdefault("inlined_helpers", {}).update({"%s <- %s" % (a, b): 1 for a, b in sp})
                c = Crate(j, os.path.join(dd, f))
                key = c.name if not c.meta["target_kind"].startswith("test") else c.name + ":" + c.meta["target_kind"]
                self.crates[key] = c
        self.fns = {}
        self.fn_list = []
        for c in self.crates.values():
            for fn in c.fns:
                self.fns.setdefault(fn.q, []).append(fn)
                self.fn_list.append(fn)
        self.adts = {}
        for c in self.crates.values():
            for q, a in c.adts.items():
                if a.get("local") or q not in self.adts:
                    self.adts[q] = a
                    a["_crate"] = c

    def fn(self, q):
        l = self.fns.get(q)
        if not l:
            raise AnchorMissing("function %s" % q)
        return l[0]

    def is_new_fn(self, q):
        """True for a function that did not exist on the reference tree (tables/known_fns.txt): a helper introduced by a later
        edit.  The engines treat such a function as transparent — its body is read at its call sites — so that extracting
        statements into a helper does not change what a rule sees."""
        known = getattr(Facts, "_known_fns", None)
        if known is None:
            path = os.path.join(os.path.dirname(os.path.dirname(os.path.abspath(__file__))), "tables", "known_fns.txt")
            try:
                known = Facts._known_fns = frozenset(l.strip() for l in open(path) if l.strip())
            except OSError:
                known = Facts._known_fns = frozenset()
        if not known:
            return False
        return q not in known

    def fn_opt(self, q):
        l = self.fns.get(q)
        return l[0] if l else None

    def adt(self, q):
        a = self.adts.get(q)
        if a is None:
            raise AnchorMissing("type %s" % q)
        return a

    def fns_where(self, pred):
        return [f for f in self.fn_list if pred(f)]

    def methods_of(self, self_adt):
        return [f for f in self.fn_list if f.impl_self == self_adt and f.kind == "AssocFn"]

    def closures_of(self, fn):
        pre = fn.q + "::{closure#"
        return [f for f in self.fn_list if f.q.startswith(pre)]

    def variant_by_discr(self, adt_q):
        a = self.adt(adt_q)
        return {v["discr"]: v["n"] for v in a["variants"] if v["discr"] is not None}

    def variants(self, adt_q):
        return [v["n"] for v in self.adt(adt_q)["variants"]]


_FACTS_CACHE = {}


def load(config="default", repo=None, raw=False):
    d = ensure_facts(config, repo)
    if raw:
        return Facts(d, raw=True)
    if d not in _FACTS_CACHE:
        if config == "nocrossterm":
            # only rsjsonnet-front is built in this configuration: the other crates come from the default one
            base = ensure_facts("default", repo)
            _FACTS_CACHE[d] = Facts(base, override=d)
        else:
            _FACTS_CACHE[d] = Facts(d)
    return _FACTS_CACHE[d]
