"""CG — instance-level whole-workspace call graph (from the driver's mono walk) with closure,
fn-pointer and trait-object edges; SCCs, reachability, who-may-call / who-may-construct queries."""
from . import cfg
from .facts import callee_name


class CallGraph:
    def __init__(self, F):
        self.F = F
        self.nodes = {}        # name -> dict(def, local, crate)
        self.succ = {}         # name -> list of (kind, to, site)
        self.by_def = {}       # def qname -> set(names)
        self.vtable_targets = {}   # impl method def -> instances placed in some vtable
        self.reified = {}      # name -> [(target, site)]  (address taken and stored; not a native call)
        address_taken = set()
        indirect_sites = []
        virtual_sites = []
        for cname, c in F.crates.items():
            for n in c.mono["nodes"]:
                name = n["n"]
                cur = self.nodes.get(name)
                if cur is None or (n["local"] and n["e"]):
                    self.nodes[name] = {"def": n["def"], "local": n["local"], "crate": c.name}
                self.by_def.setdefault(n["def"], set()).add(name)
                if n["e"] or name not in self.succ:
                    lst = self.succ.setdefault(name, [])
                for e in n["e"]:
                    site = c.spans[e["sp"]] if "sp" in e else None
                    k = e["k"]
                    if k == "reify":
                        address_taken.add(e["to"])
                        self.nodes.setdefault(e["to"], {"def": e["to_def"], "local": False, "crate": None})
                        self.by_def.setdefault(e["to_def"], set()).add(e["to"])
                        self.reified.setdefault(name, []).append((e["to"], site))
                        continue
                    if k in ("call", "ref", "closure", "vtable"):
                        to = e["to"]
                        if to.startswith("virtual:"):
                            virtual_sites.append((name, to, site))
                            continue
                        if k == "vtable":
                            # placing a method in a vtable is not a call; virtual call sites link to it
                            self.vtable_targets.setdefault(e["to_def"], set()).add(to)
                        else:
                            lst.append((k, to, site))
                        self.nodes.setdefault(to, {"def": e["to_def"], "local": False, "crate": None})
                        self.by_def.setdefault(e["to_def"], set()).add(to)
                    elif k == "indirect":
                        indirect_sites.append((name, e["t"], site))
                    elif k == "unresolved":
                        lst.append(("unresolved", "unresolved:" + e["to_def"], site))
        self.address_taken = address_taken
        # fn-pointer calls: every address-taken function of the workspace
        for name, ty, site in indirect_sites:
            for to in sorted(address_taken):
                self.succ[name].append(("indirect", to, site))
        # trait-object calls: every impl of that trait method in the workspace
        for name, to, site in virtual_sites:
            decl = to[len("virtual:"):].split("[")[0]
            tr, meth = decl.rsplit("::", 1)
            for fn in F.fn_list:
                if fn.impl_trait == tr and fn.name == meth:
                    insts = self.vtable_targets.get(fn.q) or self.by_def.get(fn.q) or ()
                    for inst in insts:
                        self.succ[name].append(("virtual", inst, site))
        for n in list(self.nodes):
            self.succ.setdefault(n, [])

    def succs(self, n):
        return [t for _, t, _ in self.succ.get(n, ())]

    def reachable_from(self, roots):
        seen = set()
        stack = [r for r in roots if r in self.nodes]
        seen.update(stack)
        while stack:
            n = stack.pop()
            for m in self.succs(n):
                if m not in seen:
                    seen.add(m)
                    stack.append(m)
        return seen

    def sccs(self, within=None):
        nodes = sorted(within if within is not None else self.nodes)
        ws = set(nodes)
        comps = cfg.sccs(nodes, lambda n: [m for m in self.succs(n) if m in ws])
        out = []
        for c in comps:
            if len(c) > 1 or (c[0] in self.succs(c[0])):
                out.append(sorted(c))
        return out

    def instances_of(self, def_q):
        return sorted(self.by_def.get(def_q, ()))

    def callers_of_def(self, def_q):
        """set of caller *defs* with a direct call/ref edge to any instance of def_q"""
        targets = self.by_def.get(def_q, set())
        out = set()
        for n, es in self.succ.items():
            for k, t, site in es:
                if t in targets:
                    out.add((self.nodes[n]["def"], k, site))
        return out


def entry_points(F):
    """Public API instances: exported functions of the library crates and the binary's main."""
    roots = []
    for fn in F.fn_list:
        j = fn.j
        if fn.crate.name == "rsjsonnet" and fn.q == "rsjsonnet::main":
            roots.append(fn.q)
        elif j.get("exported") or j.get("reachable_pub"):
            roots.append(fn.q)
    return roots


_CACHE = {}


def get(F):
    if id(F) not in _CACHE:
        _CACHE[id(F)] = CallGraph(F)
    return _CACHE[id(F)]



# ------------------------------------------------------------------------------------------------
# functions that did not exist on the reference tree are transparent: what such a helper does is attributed to the
# (known) functions that call it, so extracting statements into a private helper does not create a new "writer",
# "reader", "constructor" or "caller" in the who-may-X rules

_REV = {}


def _callers_map(F):
    if id(F) in _REV:
        return _REV[id(F)]
    rev = {}
    for fn in F.fn_list:
        for body in [fn.body] + fn.promoted:
            if body is None:
                continue
            for bb, t in body.calls():
                f = t["f"]
                if f.get("k") == "def" and f.get("r"):
                    rev.setdefault(f["r"], set()).add(fn.q)
            for blk in body.blocks:
                for st in blk["s"]:
                    if st["k"] == "assign" and st["rv"]["k"] == "agg" and st["rv"].get("ak") == "closure":
                        rev.setdefault(st["rv"]["d"], set()).add(fn.q)
                    # function items taken as values (`.map(helper)`)
                    if st["k"] == "assign":
                        for x in ([st["rv"].get("x")] if st["rv"].get("x") else []) + list(st["rv"].get("xs", [])):
                            if isinstance(x, dict) and x.get("k") == "const":
                                ty = body.ty(x["t"]) if "t" in x else None
                                if ty and ty.get("k") == "fndef":
                                    rev.setdefault(ty["d"], set()).add(fn.q)
    _REV[id(F)] = rev
    return rev


def known_owners(F, q, _seen=None):
    """{q} for a function of the reference tree; for a new helper, the known functions that reach it through new helpers only
    (the helper itself when nothing calls it)."""
    if not F.is_new_fn(q):
        return {q}
    _seen = _seen if _seen is not None else set()
    if q in _seen:
        return set()
    _seen.add(q)
    rev = _callers_map(F)
    callers = set(rev.get(q, ()))
    if "::{closure#" in q:
        callers.add(q.rsplit("::{closure#", 1)[0])
    out = set()
    for c in callers:
        out |= known_owners(F, c, _seen)
    return out or {q}


def attribute(F, items):
    """rewrite who-may-X results: an item found in a new helper is reported once per known owner of that helper"""
    out = []
    for it in items:
        fn = it[0]
        if not F.is_new_fn(fn.q):
            out.append(it)
            continue
        owners = known_owners(F, fn.q)
        for oq in sorted(owners):
            g = F.fn_opt(oq)
            out.append(((g if g is not None else fn),) + tuple(it[1:]))
    return out


# ------------------------------------------------------------------------------------------------
# def-level queries straight from the MIR bodies (all crates, including generic bodies)


def who_calls(F, callee_q, crates=None, raw=False):
    """[(fn, bb, term)] of call sites whose resolved or declared callee is callee_q."""
    out = []
    for fn in F.fn_list:
        if crates and fn.crate.name not in crates:
            continue
        for body in [fn.body] + fn.promoted:
            for bb, t in body.calls():
                f = t["f"]
                if f["k"] == "def" and (f.get("r") == callee_q or f["d"] == callee_q):
                    out.append((fn, bb, t))
    return out if raw else attribute(F, out)


def who_constructs(F, adt_q, variant=None, crates=None, skip_macros=True, raw=False):
    out = []
    for fn in F.fn_list:
        if crates and fn.crate.name not in crates:
            continue
        for bb, si, s in fn.body.assigns():
            rv = s["rv"]
            if rv["k"] == "agg" and rv["ak"] == "adt" and rv["adt"] == adt_q and (variant is None or rv["v"] == variant):
                if skip_macros and (fn.mac and fn.mac not in ("desugar:QuestionMark",)):
                    continue
                out.append((fn, bb, si, s))
    return out if raw else attribute(F, out)


def who_writes_field(F, adt_q, field, crates=None, raw=False):
    from . import prov
    out = []
    for fn in F.fn_list:
        if crates and fn.crate.name not in crates:
            continue
        for bb, si, s in fn.body.assigns():
            if prov.field_write(F, fn.body, s["p"], adt_q) == field:
                out.append((fn, bb, si, s))
        # &mut borrows of the field count as potential writes
        for bb, si, s in fn.body.assigns():
            rv = s["rv"]
            if rv["k"] in ("ref", "rawptr") and rv.get("m"):
                pl = rv["p"]
                if prov.field_write(F, fn.body, pl, adt_q) == field:
                    out.append((fn, bb, si, s))
    return out if raw else attribute(F, out)


def who_reads_field(F, adt_q, field, crates=None, raw=False):
    from . import prov
    out = []
    for fn in F.fn_list:
        if crates and fn.crate.name not in crates:
            continue
        for bb, si, s in fn.body.assigns():
            rv = s["rv"]
            ops = []
            if rv["k"] == "use":
                ops.append(rv["x"])
            elif rv["k"] in ("ref", "rawptr", "discr"):
                ops.append(rv["p"])
            elif rv["k"] == "binop":
                ops += [rv["a"], rv["b"]]
            elif rv["k"] in ("unop",):
                ops.append(rv["a"])
            elif rv["k"] == "cast":
                ops.append(rv["x"])
            elif rv["k"] == "agg":
                ops += rv["xs"]
            for x in ops:
                if isinstance(x, dict) and "p" in x and x.get("k", "copy") in ("copy", "move") or (isinstance(x, dict) and "l" in x and "k" not in x):
                    if prov.field_of(F, fn.body, x, adt_q) == field and prov.field_write(F, fn.body, x, adt_q) == field:
                        out.append((fn, bb, si, s))
                        break
        for bb, t in fn.body.calls():
            for x in t["xs"]:
                if x["k"] in ("copy", "move") and prov.field_write(F, fn.body, x, adt_q) == field:
                    out.append((fn, bb, None, t))
    return out if raw else attribute(F, out)
