"""C04.R7 — only literals are turned into finished thunks when a thunk is created."""
from . import kwalk
from .facts import AnchorMissing

IREXPR = "rsjsonnet_lang::program::ir::Expr"
LITERAL_KINDS = {"Null", "Bool", "Number", "String", "Array"}      # Array: the empty array literal only (length test)


def rule(F, rep, rid="C04.R7"):
    R = rep.rule(rid, "Program::try_value_from_expr — the shortcut that gives a binding, argument, array item or field a finished "
                 "thunk instead of a pending one — answers Some only for literal expressions (null, booleans, numbers, strings, "
                 "the empty array): any other expression kind is evaluated when its value is asked for, so the errors it can "
                 "raise stay lazy and naming / wrapping it does not change the outcome")
    fn = F.fn("<rsjsonnet_lang::program::Program>::try_value_from_expr")
    rep.fn(fn)
    kinds = [v["n"] for v in F.adt(IREXPR)["variants"]]
    for k in LITERAL_KINDS:
        if k not in kinds:
            raise AnchorMissing("ir::Expr::%s" % k)
    n = 0
    for v in kinds:
        w = kwalk.Walker(F, fn.body, want_ret=True, ret_prefixes=("0",))
        outs = w.run(0, {"1": ("ref", "prog"), "2": ("ref", "expr"), "expr": ("var", IREXPR, v)})
        rep.states += w.states_explored
        res = set()
        for kind, marks, ret in outs:
            if kind != "return":
                res.add("diverge")
                continue
            top = dict(ret or ()).get("0")
            res.add(top[2] if isinstance(top, tuple) and top[0] == "var" else "?")
        n += 1
        if v in LITERAL_KINDS:
            rep.ob(R, "kind|%s" % v, True, {"kind": v, "answers": sorted(res)})
            continue
        ok = res == {"None"}
        rep.ob(R, "kind|%s" % v, ok, {"kind": v, "answers": sorted(res)} if v in ("Unary", "Binary", "Object") else None)
        if not ok:
            rep.violation(R, "try_value_from_expr|%s|eager" % v,
                          "try_value_from_expr can answer %s for an ir::Expr::%s: the expression is computed when the thunk is "
                          "created (or its checks are skipped) instead of when the value is used, so a failing `%s` expression in a "
                          "local, argument, array item or field no longer fails the way it does in place"
                          % (sorted(res), v, v), fn.loc)
    rep.floor(R, n, 20, "ir::Expr kinds")


def rule_strict_flag(F, rep, rid="C04.R8"):
    """Which arguments a call forces is a property of the call expression, not of where it stands."""
    from . import prov
    R = rep.rule(rid, "the `tailstrict` mark of a call reaches the evaluator as written: the flag stored in ir::Expr::Call is the "
                 "flag of the ast call on every path of the analyzer — a flag that is also conditioned on the syntactic position "
                 "makes `f(e) tailstrict` force `e` in one place and not in another, so naming the call with a local (or "
                 "putting it in an array) changes which errors surface")
    n = 0
    for fn in F.fn_list:
        if fn.body is None or "rsjsonnet_lang::program::analyze" not in fn.q:
            continue
        body = fn.body
        P = None
        for bi, blk in enumerate(body.blocks):
            if blk["cleanup"]:
                continue
            for st in blk["s"]:
                if st["k"] == "assign" and st["rv"]["k"] == "agg" and st["rv"].get("adt") == IREXPR and st["rv"].get("v") == "Call" \
                        and "tailstrict" in st["rv"].get("fn", []):
                    x = st["rv"]["xs"][st["rv"]["fn"].index("tailstrict")]
                    P = P or prov.Prov(F, body)
                    rep.fn(fn)
                    o = P.origins_op(x) if x.get("k") != "const" else {("const", x.get("v"))}
                    consts = sorted(str(c[1]) for c in o if c and c[0] == "const")
                    from_ast = any(c and c[0] == "field" and str(c[1]).endswith("ast::Expr") for c in o)
                    n += 1
                    ok = from_ast and not consts
                    rep.ob(R, "%s|Call.tailstrict" % fn.q, ok, {"origins": sorted(map(str, o))})
                    if not ok:
                        rep.violation(R, "%s|Call.tailstrict|position-dependent" % fn.q,
                                      "the analyzer stores `tailstrict` in ir::Expr::Call from %s: besides the flag written in the "
                                      "source, a constant is stored on some path (the flag is dropped where a tail call is not "
                                      "possible), so the same call forces its arguments or not depending on its position"
                                      % sorted(map(str, o)), fn.loc)
    rep.floor(R, n, 1, "constructions of ir::Expr::Call")
