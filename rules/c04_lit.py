"""C04.R7 — only literals are turned into finished thunks when a thunk is created."""
from . import kwalk
from .facts import AnchorMissing

IREXPR = "rsjsonnet_lang::program::ir::Expr"
LITERAL_KINDS = {"Null", "Bool", "Number", "String", "Array"}      # Array: the empty array literal only (length test)


def rule(F, rep, rid="C04.R7"):
    R = rep.rule(rid, "Program::try_value_from_expr — the shortcut that gives a binding, argument, array item or field a finished "
                 "thunk instead of a pending one — answers Some only for literal expressions (null, booleans, numbers, strings, "
                 "the empty array): any other expression kind is evaluated when its value is asked for, so the errors it can "
                 "raise stay lazy and naming / wrapping it does not change the outcome")
    fn = F.fn("<rsjsonnet_lang::program::Program>::try_value_from_expr")
    rep.fn(fn)
    kinds = [v["n"] for v in F.adt(IREXPR)["variants"]]
    for k in LITERAL_KINDS:
        if k not in kinds:
            raise AnchorMissing("ir::Expr::%s" % k)
    n = 0
    for v in kinds:
        w = kwalk.Walker(F, fn.body, want_ret=True, ret_prefixes=("0",))
        outs = w.run(0, {"1": ("ref", "prog"), "2": ("ref", "expr"), "expr": ("var", IREXPR, v)})
        rep.states += w.states_explored
        res = set()
        for kind, marks, ret in outs:
            if kind != "return":
                res.add("diverge")
                continue
            top = dict(ret or ()).get("0")
            res.add(top[2] if isinstance(top, tuple) and top[0] == "var" else "?")
        n += 1
        if v in LITERAL_KINDS:
            rep.ob(R, "kind|%s" % v, True, {"kind": v, "answers": sorted(res)})
            continue
        ok = res == {"None"}
        rep.ob(R, "kind|%s" % v, ok, {"kind": v, "answers": sorted(res)} if v in ("Unary", "Binary", "Object") else None)
        if not ok:
            rep.violation(R, "try_value_from_expr|%s|eager" % v,
                          "try_value_from_expr can answer %s for an ir::Expr::%s: the expression is computed when the thunk is "
                          "created (or its checks are skipped) instead of when the value is used, so a failing `%s` expression in a "
                          "local, argument, array item or field no longer fails the way it does in place"
                          % (sorted(res), v, v), fn.loc)
    rep.floor(R, n, 20, "ir::Expr kinds")
