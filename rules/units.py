"""UNITS — unit inference for integer quantities in string-handling code.

Integer locals of each function are partitioned into unification classes (copies, +, -, comparisons,
int->int casts unify; constants are unit-polymorphic).  Sources label a class:
    Bytes  str::len, String::len, find-family results, char_indices offsets, len_utf8, byte position,
           slice::len of `as_bytes()`
    Chars  Chars::count (also through filter), enumerate index over chars(), char-position results
    User   integers converted from a Jsonnet number (float->int casts, float::try_to_* helpers)
    Trunc  a Bytes quantity that went through min/max/clamp, / or %  (no longer a boundary)
Rules:
    mix        no class carries both Bytes and Chars (contradiction: one variable believed to be two things)
    byte-sink  byte-index sinks (str/String Index<Range*>, split_at, truncate, insert, drain, replace_range)
               never receive Chars, User or Trunc
    char-sink  nth/skip/take on a Chars iterator never receive Bytes
    user-sink  an integer that becomes a Jsonnet number (int->float cast feeding ValueData::Number) is never Bytes
"""
from .facts import callee_name, pk

INT_TYS = ("usize", "u8", "u16", "u32", "u64", "u128", "isize", "i8", "i16", "i32", "i64", "i128")

BYTES_CALLS = (
    "<str>::len", "<alloc::string::String>::len", "<char>::len_utf8",
)
BYTES_OPT_CALLS = (   # Option<usize> results
    "<str>::find", "<str>::rfind",
)
USER_CALLS = (
    "rsjsonnet_lang::float::try_to_usize", "rsjsonnet_lang::float::try_to_usize_exact",
    "rsjsonnet_lang::float::try_to_u32", "rsjsonnet_lang::float::try_to_i32_exact",
    "rsjsonnet_lang::float::try_to_u8_exact",
)
BYTE_SINK_CALLS = {
    # callee -> indexes of integer arguments that are byte positions
    "<str>::split_at": [1], "<alloc::string::String>::truncate": [1], "<alloc::string::String>::insert": [1],
    "<alloc::string::String>::insert_str": [1], "<str>::is_char_boundary": [1], "<alloc::string::String>::split_off": [1],
    "<alloc::string::String>::remove": [1], "<str>::split_at_mut": [1], "<str>::split_at_checked": [1],
}
RANGE_ADTS = ("core::ops::range::Range", "core::ops::range::RangeTo", "core::ops::range::RangeFrom",
              "core::ops::range::RangeInclusive", "core::ops::range::RangeToInclusive")


class UF:
    def __init__(self):
        self.p = {}
        self.labels = {}
        self.why = {}

    def find(self, x):
        self.p.setdefault(x, x)
        while self.p[x] != x:
            self.p[x] = self.p[self.p[x]]
            x = self.p[x]
        return x

    def union(self, a, b):
        ra, rb = self.find(a), self.find(b)
        if ra == rb:
            return
        self.p[ra] = rb
        if ra in self.labels:
            self.labels.setdefault(rb, set()).update(self.labels.pop(ra))
            self.why.setdefault(rb, []).extend(self.why.pop(ra, []))

    def label(self, x, lab, why):
        r = self.find(x)
        self.labels.setdefault(r, set()).add(lab)
        self.why.setdefault(r, []).append((lab, why))

    def labs(self, x):
        return self.labels.get(self.find(x), set())

    def reasons(self, x):
        return self.why.get(self.find(x), [])


def is_int_ty(t):
    return t["k"] == "prim" and t["s"] in INT_TYS


def node_of(body, op):
    """Node key for an integer operand: ('l', n) or ('l', n, '.0') for overflow tuples; None for constants."""
    if op["k"] not in ("copy", "move"):
        return None
    t = body.ty(op["t"])
    if not is_int_ty(t):
        return None
    return ("p", pk(op))


def self_ty_str(body, t):
    f = t["f"]
    if "self" in f:
        return body.ty(f["self"])["s"]
    return ""


class FnUnits:
    def __init__(self, F, fn):
        self.F = F
        self.fn = fn
        self.body = fn.body
        self.uf = UF()
        self.sinks = []     # (kind, node, site, what)
        self.ascii_strs = set()
        self.is_closure = "{closure" in fn.q.rsplit("::", 1)[-1]
        self._build_aliases()
        self.build()

    def n(self, op):
        if op["k"] in ("copy", "move") and op["p"]:
            a = self._alias_node(op)
            if a is not None and is_int_ty(self.body.ty(op["t"])):
                return a
        return node_of(self.body, op)

    def pn(self, place):
        """node of an integer place that is assigned to"""
        a = self._alias_node(place)
        return a if a is not None else ("p", pk(place))

    def _upvar_index(self, place):
        """i when the place is upvar i of this closure body (`_1.i` / `(*_1).i`), else None"""
        if not self.is_closure or place["l"] != 1:
            return None
        pr = [x for x in place["p"]]
        if pr and pr[0] == "*":
            pr = pr[1:]
        if len(pr) >= 1 and pr[0] != "*" and pr[0]["k"] == "f":
            return pr[0]["i"], pr[1:]
        return None

    def _alias_node(self, place):
        """node an integer place stands for when it is reached through a reference: `(*r)` with r = &x is x itself;
        upvar i of a closure (by value or through its reference) is ('up', i)"""
        pr = place["p"]
        if not pr:
            return None
        up = self._upvar_index(place)
        if up is not None:
            i, rest = up
            if rest in ([], ["*"]):
                return ("up", i)
            return None
        if pr == ["*"] and place["l"] in self.alias:
            return self.alias[place["l"]]
        return None

    def _build_aliases(self):
        body = self.body
        self.alias = {}
        for _ in range(4):
            changed = False
            for bb, si, st in body.assigns():
                if st["p"]["p"]:
                    continue
                d = st["p"]["l"]
                if d in self.alias:
                    continue
                rv = st["rv"]
                a = None
                if rv["k"] == "ref":
                    P = rv["p"]
                    if not P["p"] or all(x != "*" for x in P["p"]):
                        # &x / &x.f of integer type
                        dt = body.local_ty(d)
                        if dt["k"] == "ref" and "t" in P and is_int_ty(body.ty(P["t"])):
                            a = self._alias_node(P) or ("p", pk(P))
                    elif P["p"] == ["*"] and P["l"] in self.alias:
                        a = self.alias[P["l"]]
                    else:
                        up = self._upvar_index(P)
                        if up is not None and up[1] == ["*"] and "t" in P and is_int_ty(body.ty(P["t"])):
                            a = ("up", up[0])
                elif rv["k"] == "use" and rv["x"]["k"] in ("copy", "move"):
                    x = rv["x"]
                    if not x["p"] and x["l"] in self.alias:
                        a = self.alias[x["l"]]
                    else:
                        up = self._upvar_index(x)
                        if up is not None and up[1] == []:
                            t = body.ty(x["t"])
                            if t["k"] == "ref":
                                a = ("up", up[0])
                if a is not None:
                    self.alias[d] = a
                    changed = True
            if not changed:
                break

    def build(self):
        body = self.body
        uf = self.uf
        # which locals hold `Chars`-derived iterators (for nth/skip/take sinks and enumerate)
        for bb, si, s in body.assigns():
            rv = s["rv"]
            dst_t = body.ty(s["p"]["t"])
            dn = self.pn(s["p"]) if is_int_ty(dst_t) else None
            k = rv["k"]
            site = body.span(s["sp"])
            if k == "use":
                xn = self.n(rv["x"])
                if dn and xn:
                    uf.union(dn, xn)
                # payload of a tuple yielded by CharIndices / Enumerate<Chars>: handled in calls below
            elif k == "cast":
                ck = rv["ck"]
                xn = self.n(rv["x"])
                if ck == "IntToInt" and dn and xn:
                    uf.union(dn, xn)
                elif ck == "FloatToInt" and dn:
                    uf.label(dn, "User", "float->int cast at %s" % site)
                elif ck == "IntToFloat" and xn:
                    self.sinks.append(("user", xn, site, "int->float cast"))
            elif k == "binop":
                op = rv["op"]
                an, bn = self.n(rv["a"]), self.n(rv["b"])
                base = op.replace("WithOverflow", "").replace("Unchecked", "")
                if base in ("Add", "Sub"):
                    res = ("p", pk(s["p"]) + ".0") if "WithOverflow" in op else dn
                    for x in (an, bn):
                        if x and res:
                            uf.union(res, x)
                    if an and bn:
                        uf.union(an, bn)
                elif base in ("Lt", "Le", "Gt", "Ge", "Eq", "Ne"):
                    if an and bn:
                        uf.union(an, bn)
                elif base in ("Div", "Rem", "Mul", "Shr", "Shl"):
                    res = ("p", pk(s["p"]) + ".0") if "WithOverflow" in op else dn
                    if res:
                        for x in (an, bn):
                            if x and base in ("Div", "Rem", "Shr"):
                                self.sinks.append(("derive-trunc", (res, x), site, base))
            elif k == "agg":
                if rv["ak"] == "tuple" and not s["p"]["p"]:
                    # (a, b): the fields of the tuple are the operands
                    for i, x in enumerate(rv["xs"]):
                        xn = self.n(x)
                        if xn:
                            uf.union(("p", "%s.%d" % (pk(s["p"]), i)), xn)
        for bb, t in body.calls():
            name = callee_name(t) or ""
            decl = t["f"].get("d", "") if t["f"]["k"] == "def" else ""
            dst = t["dst"]
            dty = body.ty(dst["t"])
            dn = ("p", pk(dst)) if is_int_ty(dty) else None
            site = body.span(t["sp"])
            xs = t["xs"]
            sts = self_ty_str(body, t)
            if name in BYTES_CALLS and dn:
                if not self._ascii_known(xs[0]):
                    uf.label(dn, "Bytes", "%s at %s" % (name, site))
            elif name in ("<[T]>::len",) and dn and xs and self._is_as_bytes(xs[0]):
                uf.label(dn, "Bytes", "as_bytes().len() at %s" % site)
            elif name in BYTES_OPT_CALLS:
                uf.label(("p", pk(dst) + "@Some.0"), "Bytes", "%s at %s" % (name, site))
            elif name in USER_CALLS:
                uf.label(("p", pk(dst) + "@Some.0"), "User", "%s at %s" % (name, site))
            elif decl.endswith("Iterator::count") or name.endswith("Iterator>::count"):
                if "Chars" in sts and dn:
                    uf.label(dn, "Chars", "chars().count() at %s" % site)
                elif "Bytes" in sts and dn:
                    uf.label(dn, "Bytes", "bytes().count() at %s" % site)
            elif decl.endswith("Iterator::position") or name.endswith("Iterator>::position"):
                lab = "Chars" if "Chars" in sts else ("Bytes" if "Bytes" in sts or "u8" in sts else None)
                if lab:
                    uf.label(("p", pk(dst) + "@Some.0"), lab, "position() over %s at %s" % (sts[:40], site))
            elif name.endswith("Iterator>::next") or name.endswith("DoubleEndedIterator>::next_back"):
                if "CharIndices" in sts:
                    uf.label(("p", pk(dst) + "@Some.0.0"), "Bytes", "char_indices() offset at %s" % site)
                elif "Enumerate" in sts and "Chars" in sts and "CharIndices" not in sts:
                    uf.label(("p", pk(dst) + "@Some.0.0"), "Chars", "chars().enumerate() index at %s" % site)
                elif "MatchIndices" in sts:
                    uf.label(("p", pk(dst) + "@Some.0.0"), "Bytes", "match_indices() offset at %s" % site)
            elif name in ("core::cmp::Ord::min", "core::cmp::Ord::max", "core::cmp::min", "core::cmp::max",
                          "<usize as core::cmp::Ord>::min", "<usize as core::cmp::Ord>::max", "core::cmp::Ord::clamp",
                          "<usize as core::cmp::Ord>::clamp"):
                if dn:
                    for x in xs:
                        xn = self.n(x)
                        if xn:
                            self.sinks.append(("derive-trunc", (dn, xn), site, name.rsplit("::", 1)[1]))
            elif name in ("<usize>::saturating_sub", "<usize>::wrapping_sub", "<usize>::checked_sub",
                          "<usize>::saturating_add", "<usize>::checked_add"):
                tgt = dn if dn else ("p", pk(dst) + "@Some.0")
                for x in xs:
                    xn = self.n(x)
                    if xn:
                        uf.union(tgt, xn)
            # sinks
            if name in BYTE_SINK_CALLS:
                for i in BYTE_SINK_CALLS[name]:
                    xn = self.n(xs[i]) if i < len(xs) else None
                    if xn:
                        self.sinks.append(("byte", xn, site, name))
            if (name.endswith("core::ops::index::Index>::index") or name.endswith("core::ops::index::IndexMut>::index_mut")
                    or name in ("<str>::get", "<alloc::string::String>::drain", "<alloc::string::String>::replace_range")) \
                    and ("str" in sts.split("<")[0] or sts in ("str", "std::string::String", "alloc::string::String") or name.startswith("<str>") or name.startswith("<alloc::string::String>")):
                # the range argument
                if len(xs) >= 2:
                    for rn in self._range_operands(xs[1]):
                        self.sinks.append(("byte", rn, site, "string index/range"))
            if (decl.endswith("Iterator::nth") or decl.endswith("Iterator::skip") or decl.endswith("Iterator::take")
                    or name.endswith("Iterator>::nth") or name.endswith("Iterator>::skip") or name.endswith("Iterator>::take")):
                if "Chars" in sts and "CharIndices" not in sts and len(xs) >= 2:
                    xn = self.n(xs[1])
                    if xn:
                        self.sinks.append(("char", xn, site, name.rsplit("::", 1)[1]))
        # second pass: derived truncations (needs the labels of the operands)
        changed = True
        rounds = 0
        while changed and rounds < 5:
            changed = False
            rounds += 1
            for kind, node, site, what in self.sinks:
                if kind == "derive-trunc":
                    res, x = node
                    if "Bytes" in uf.labs(x) or "Trunc" in uf.labs(x):
                        if "Trunc" not in uf.labs(res):
                            uf.label(res, "Trunc", "%s of a byte quantity at %s" % (what, site))
                            changed = True

    def _def_calls(self, op, depth=0):
        """callee names producing the operand (through copies/refs/derefs), best effort"""
        body = self.body
        out = set()
        if op["k"] not in ("copy", "move") or depth > 6:
            return out
        l = op["l"]
        for bb, t in body.calls():
            if t["dst"]["l"] == l and not t["dst"]["p"]:
                out.add(callee_name(t) or "")
                n = callee_name(t) or ""
                if n.endswith("Deref>::deref") or n.endswith("::as_str") or n.endswith("AsRef>::as_ref") or n.endswith("Borrow>::borrow"):
                    out |= self._def_calls(t["xs"][0], depth + 1)
        for bb, si, s in body.assigns():
            if s["p"]["l"] == l and not s["p"]["p"]:
                rv = s["rv"]
                if rv["k"] == "use":
                    out |= self._def_calls(rv["x"], depth + 1)
                elif rv["k"] == "ref":
                    x = dict(rv["p"])
                    x["k"] = "copy"
                    out |= self._def_calls(x, depth + 1)
        return out

    def _ascii_known(self, op):
        """the string whose len() is taken was produced by numeric formatting (ASCII only)"""
        calls = self._def_calls(op)
        return any(c in ("alloc::fmt::format", "<T as alloc::string::ToString>::to_string", "alloc::fmt::format::format_inner")
                   or c.startswith("rsjsonnet_lang::program::eval::format::render_") for c in calls)

    def _is_as_bytes(self, op):
        return any(c in ("<str>::as_bytes", "<alloc::string::String>::as_bytes") for c in self._def_calls(op))

    def _range_operands(self, op):
        body = self.body
        out = []
        if op["k"] not in ("copy", "move"):
            return out
        l = op["l"]
        for bb, si, s in body.assigns():
            if s["p"]["l"] == l and not s["p"]["p"]:
                rv = s["rv"]
                if rv["k"] == "agg" and rv["ak"] == "adt" and rv["adt"] in RANGE_ADTS:
                    for x in rv["xs"]:
                        xn = self.n(x)
                        if xn:
                            out.append(xn)
                elif rv["k"] == "use":
                    out += self._range_operands(rv["x"])
        return out


def analyse(F, crates=("rsjsonnet_lang",)):
    out = []
    for fn in F.fn_list:
        if fn.crate.name not in crates or fn.mac:
            continue
        b = fn.body
        # only functions that touch strings
        touches = False
        for bb, t in b.calls():
            n = callee_name(t) or ""
            if n.startswith("<str>::") or n.startswith("<alloc::string::String>::") or "core::str::" in n:
                touches = True
                break
        if touches:
            out.append(FnUnits(F, fn))
    return out


OPTION_HOF = ("<core::option::Option>::map", "<core::option::Option>::and_then", "<core::option::Option>::map_or",
              "<core::option::Option>::is_some_and", "<core::option::Option>::filter", "<core::option::Option>::map_or_else",
              "<core::option::Option>::inspect", "<core::option::Option>::is_none_or")


def link_closures(F, fus):
    """Labels of an Option payload flow into the first parameter of the closure it is mapped with."""
    by_q = {fu.fn.q: fu for fu in fus}
    # closures of analysed functions that were skipped (no string call inside) are analysed on demand
    changed = False
    for fu in list(fus):
        body = fu.body
        for bb, t in body.calls():
            name = callee_name(t) or ""
            if name not in OPTION_HOF:
                continue
            xs = t["xs"]
            clo = None
            for x in xs[1:]:
                if "t" in x:
                    ty = body.ty(x["t"])
                    if ty["k"] == "closure":
                        clo = ty["d"]
            if clo is None or xs[0]["k"] not in ("copy", "move"):
                continue
            labs = fu.uf.labs(("p", pk(xs[0]) + "@Some.0"))
            if not labs:
                continue
            tgt = by_q.get(clo)
            if tgt is None:
                g = F.fn_opt(clo)
                if g is None:
                    continue
                tgt = FnUnits(F, g)
                by_q[clo] = tgt
                fus.append(tgt)
            node = ("p", "2")
            for lab in labs:
                if lab not in tgt.uf.labs(node):
                    why = [w[1] for w in fu.uf.reasons(("p", pk(xs[0]) + "@Some.0")) if w[0] == lab][:1]
                    tgt.uf.label(node, lab, "closure parameter fed by " + (why[0] if why else name))
                    changed = True
    # recompute truncation derivations in closures that received labels
    for fu in fus:
        for kind, node, site, what in fu.sinks:
            if kind == "derive-trunc":
                res, x = node
                if ("Bytes" in fu.uf.labs(x) or "Trunc" in fu.uf.labs(x)) and "Trunc" not in fu.uf.labs(res):
                    fu.uf.label(res, "Trunc", "%s of a byte quantity at %s" % (what, site))
    return fus


def link_upvars(F, fus):
    """Labels flow between an integer local captured by a closure (by value or by reference) and the closure body's upvar."""
    by_q = {fu.fn.q: fu for fu in fus}
    for _ in range(4):
        changed = False
        for fu in list(fus):
            body = fu.body
            for bb, si, st in body.assigns():
                rv = st["rv"]
                if rv["k"] != "agg" or rv["ak"] != "closure":
                    continue
                pairs = []
                for i, x in enumerate(rv["xs"]):
                    if x["k"] not in ("copy", "move"):
                        continue
                    nd = None
                    t = body.ty(x["t"])
                    if is_int_ty(t):
                        nd = fu.n(x)
                    elif t["k"] == "ref" and not x["p"] and x["l"] in fu.alias:
                        nd = fu.alias[x["l"]]
                    if nd is not None:
                        pairs.append((i, nd))
                if not pairs:
                    continue
                tgt = by_q.get(rv["d"])
                if tgt is None:
                    g = F.fn_opt(rv["d"])
                    if g is None or g.body is None:
                        continue
                    tgt = FnUnits(F, g)
                    by_q[rv["d"]] = tgt
                    fus.append(tgt)
                for i, nd in pairs:
                    un = ("up", i)
                    for a, an, b, bn in ((fu, nd, tgt, un), (tgt, un, fu, nd)):
                        for lab in a.uf.labs(an) & {"Bytes", "Chars", "User"}:
                            if lab not in b.uf.labs(bn):
                                why = [w[1] for w in a.uf.reasons(an) if w[0] == lab][:1]
                                b.uf.label(bn, lab, "captured variable: %s" % (why[0] if why else "?"))
                                changed = True
        if not changed:
            break
    for fu in fus:
        for kind, node, site, what in fu.sinks:
            if kind == "derive-trunc":
                res, x = node
                if ("Bytes" in fu.uf.labs(x) or "Trunc" in fu.uf.labs(x)) and "Trunc" not in fu.uf.labs(res):
                    fu.uf.label(res, "Trunc", "%s of a byte quantity at %s" % (what, site))
    return fus


def _ret_int_nodes(fu):
    """nodes of the integer operands that make up the callee's return value (through tuple / Ok / Some wrappers)"""
    body = fu.body
    out = []
    seen = set()
    work = [0]
    while work:
        l = work.pop()
        if l in seen:
            continue
        seen.add(l)
        for bb, si, st in body.assigns():
            if st["p"]["l"] != l or st["p"]["p"]:
                continue
            rv = st["rv"]
            if rv["k"] == "agg":
                for x in rv["xs"]:
                    if x["k"] in ("copy", "move"):
                        if is_int_ty(body.ty(x["t"])):
                            nd = node_of(body, x)
                            if nd:
                                out.append(nd)
                        elif not x["p"]:
                            work.append(x["l"])
            elif rv["k"] == "use" and rv["x"]["k"] in ("copy", "move"):
                x = rv["x"]
                if is_int_ty(body.ty(x["t"])):
                    nd = node_of(body, x)
                    if nd:
                        out.append(nd)
                elif not x["p"]:
                    work.append(x["l"])
    return out


def link_calls(F, fus):
    """Context-insensitive flow of unit labels through calls of the crate's own functions: a labelled integer argument
    labels the callee's parameter; the labels of the callee's returned integers label every integer of the caller that
    derives from the call result."""
    from . import prov
    by_q = {fu.fn.q: fu for fu in fus}
    for _ in range(3):
        changed = False
        for fu in list(fus):
            body = fu.body
            P = None
            for bb, t in body.calls():
                f = t["f"]
                if f["k"] != "def" or not f.get("rlocal"):
                    continue
                name = callee_name(t) or ""
                if "{closure" in name:
                    continue
                g = F.fn_opt(name)
                if g is None or g.crate.name != fu.fn.crate.name:
                    continue
                iargs = [(i, node_of(body, x)) for i, x in enumerate(t["xs"])
                         if x["k"] in ("copy", "move") and is_int_ty(body.ty(x["t"]))]
                iargs = [(i, nd) for i, nd in iargs if nd]
                if not iargs:
                    continue
                tgt = by_q.get(name)
                passed = False
                for i, nd in iargs:
                    labs = fu.uf.labs(nd) & {"Bytes", "Chars"}
                    if not labs:
                        continue
                    if tgt is None:
                        tgt = FnUnits(F, g)
                        by_q[name] = tgt
                        fus.append(tgt)
                    pn = ("p", str(i + 1))
                    for lab in labs:
                        if lab not in tgt.uf.labs(pn):
                            why = [w[1] for w in fu.uf.reasons(nd) if w[0] == lab][:1]
                            tgt.uf.label(pn, lab, "argument of %s: %s" % (fu.fn.q.rsplit("::", 1)[1], why[0] if why else "?"))
                            changed = True
                    passed = True
                if tgt is None:
                    continue
                # labels of the returned integers flow to what the caller derives from the result
                rl = {}
                for rn in _ret_int_nodes(tgt):
                    for lab in tgt.uf.labs(rn) & {"Bytes", "Chars"}:
                        rl.setdefault(lab, [w[1] for w in tgt.uf.reasons(rn) if w[0] == lab][:1])
                if not rl:
                    continue
                if P is None:
                    P = prov.Prov(F, body)
                for l in range(len(body.locals)):
                    if not is_int_ty(body.local_ty(l)):
                        continue
                    org = P._origins_local(l, True, set())
                    if any(o[0] == "call" and o[1] == name for o in org):
                        nd = ("p", str(l))
                        for lab, why in rl.items():
                            if lab not in fu.uf.labs(nd):
                                fu.uf.label(nd, lab, "result of %s: %s" % (name.rsplit("::", 1)[1], why[0] if why else "?"))
                                changed = True
        if not changed:
            break
    for fu in fus:
        for kind, node, site, what in fu.sinks:
            if kind == "derive-trunc":
                res, x = node
                if ("Bytes" in fu.uf.labs(x) or "Trunc" in fu.uf.labs(x)) and "Trunc" not in fu.uf.labs(res):
                    fu.uf.label(res, "Trunc", "%s of a byte quantity at %s" % (what, site))
    return fus


_CACHE = {}


def get(F):
    if id(F) not in _CACHE:
        _CACHE[id(F)] = link_upvars(F, link_calls(F, link_upvars(F, link_closures(F, analyse(F)))))
    return _CACHE[id(F)]


def rule_mix(F, rep, rid):
    R = rep.rule(rid, "no integer quantity is used both as a byte length/offset and as a code-point count "
                 "(contradiction rule over unification classes); strings produced by numeric formatting are "
                 "ASCII and their len() is unit-free")
    n = 0
    for fu in get(F):
        rep.fn(fu.fn)
        roots = {}
        for r, labs in fu.uf.labels.items():
            roots[fu.uf.find(r)] = labs
        for r, labs in roots.items():
            if not ({"Bytes", "Chars"} & labs):
                continue
            n += 1
            ok = not ({"Bytes", "Chars"} <= labs)
            why = fu.uf.why.get(r, [])
            rep.ob(R, "%s|class%s" % (fu.fn.q, r[1]), ok, {"fn": fu.fn.q, "labels": sorted(labs), "sources": [w[1] for w in why][:4]} if not ok or n < 3 else None)
            if not ok:
                b = [w[1] for w in why if w[0] == "Bytes"][:2]
                c = [w[1] for w in why if w[0] == "Chars"][:2]
                rep.violation(R, "%s|bytes-vs-chars" % fu.fn.q,
                              "in %s one quantity is related (by comparison/arithmetic) both to a byte length (%s) and to a "
                              "code-point count (%s): on non-ASCII text the two differ" % (fu.fn.q.rsplit("::", 1)[1], "; ".join(b), "; ".join(c)),
                              (c or b or [fu.fn.loc])[0].rsplit(" at ", 1)[-1])
    rep.floor(R, n, 10, "labelled byte/char quantities")


def rule_byte_index(F, rep, rid):
    R = rep.rule(rid, "every byte index into a string (slice bounds, split_at, truncate, insert, drain) is a byte "
                 "quantity that was not truncated (min/max/clamp, /, %), is not a code-point count and is not a number "
                 "supplied by the program: such an index can land inside a multi-byte character and panic")
    n = 0
    for fu in get(F):
        for kind, node, site, what in fu.sinks:
            if kind != "byte":
                continue
            n += 1
            labs = fu.uf.labs(node)
            bad = labs & {"Chars", "User", "Trunc"}
            ok = not bad
            rep.ob(R, "%s|byte-sink@%s" % (fu.fn.q, site), ok, {"fn": fu.fn.q, "site": site, "sink": what, "labels": sorted(labs)} if not ok or n < 3 else None)
            if not ok:
                rs = [w[1] for w in fu.uf.reasons(node) if w[0] in bad][:2]
                rep.violation(R, "%s|byte-index|%s" % (fu.fn.q, "+".join(sorted(bad))),
                              "%s uses a %s quantity as a byte index (%s): %s" % (fu.fn.q.rsplit("::", 1)[1], "/".join(sorted(bad)), what, "; ".join(rs)),
                              site)
    rep.floor(R, n, 8, "byte-index sinks")


def rule_char_and_user(F, rep, rid):
    R = rep.rule(rid, "code-point positions (nth/skip/take over chars()) never receive byte quantities, and an integer "
                 "that becomes a Jsonnet number is never a byte offset/length of a string (positions and lengths are "
                 "reported in code points)")
    n = 0
    for fu in get(F):
        for kind, node, site, what in fu.sinks:
            if kind not in ("char", "user"):
                continue
            labs = fu.uf.labs(node)
            if kind == "user" and not labs:
                continue
            n += 1
            ok = "Bytes" not in labs
            rep.ob(R, "%s|%s-sink@%s" % (fu.fn.q, kind, site), ok, {"fn": fu.fn.q, "site": site, "sink": what, "labels": sorted(labs)} if not ok or n < 4 else None)
            if not ok:
                rs = [w[1] for w in fu.uf.reasons(node) if w[0] == "Bytes"][:2]
                rep.violation(R, "%s|%s-sink-bytes" % (fu.fn.q, kind),
                              "%s passes a byte quantity (%s) to %s" % (fu.fn.q.rsplit("::", 1)[1], "; ".join(rs),
                                                                         "a code-point position (%s)" % what if kind == "char" else "a Jsonnet number"),
                              site)
    rep.floor(R, n, 5, "char-position / user-number sinks")
