"""C03 — garbage collection is invisible to programs and exact about reachability.

The collector's correctness splits into (i) the tracing contract of every heap type, (ii) the
rooting discipline, (iii) the count/mark/sweep algorithm.  Decided (structural) clauses:
  R1  every in-heap handle is traced exactly once on the path of its variant (per GcTrace impl)
  R2  nothing in the heap pins (GcView) or shares (Rc/&) in-heap handles
  R3  closed world: the handle/collector types are crate-private, GcBox is built only by the
      allocator, its counters are written only inside the gc module, every GcTrace impl is analysed
  R4  the sweep restores the per-collection state (visits = 0, mark = false) of every survivor
  R5  collections are triggered only between evaluator steps / from the public API
Not decided: schedule-independence of outcomes and the mark/queue algorithm itself (behavioural).
"""
from . import cg, ty, kwalk, prov, cfg
from .facts import callee_name

EXPLANATION = (
    "Static analysis: the ownership graph of every type implementing GcTrace yields one obligation per "
    "(type, variant, field) whose type owns a Gc handle; each trace() body is walked once per variant and "
    "on every path the trace/visit call sites are attributed to the self-field they originate from "
    "(origin analysis through borrow/deref/iterator calls); exactly one site per obligation is required. "
    "Type-graph reachability excludes GcView/Rc/& of handles inside the heap; visibility and "
    "who-may-construct/write facts close the world."
)

GC = "rsjsonnet_lang::gc::Gc"
GCVIEW = "rsjsonnet_lang::gc::GcView"
GCBOX = "rsjsonnet_lang::gc::GcBox"
GCCTX = "rsjsonnet_lang::gc::GcContext"
TRACE = "rsjsonnet_lang::gc::GcTrace"
TRACE_M = "rsjsonnet_lang::gc::GcTrace::trace"
VISIT_M = "rsjsonnet_lang::gc::GcTraceCtx::visit_obj"
PROGRAM = "rsjsonnet_lang::program::Program"


def is_gc(term):
    return term[0] == "adt" and term[1] == GC


def owns_gc(F, term):
    return is_gc(term) or ty.find_owned(F, term, is_gc) is not None


def trace_impls(F):
    out = []
    for c in F.crates.values():
        for i in c.impls:
            if i.get("trait") == TRACE:
                m = [it for it in i["items"] if it["name"] == "trace"]
                out.append((c, i, m[0]["q"] if m else None))
    return out


def rule_r1(F, rep):
    R = rep.rule("C03.R1", "every field of a heap type that owns a Gc handle is forwarded to the tracer by exactly "
                 "one call site on every path of its variant (a missing trace leaks cycles through that edge; a "
                 "double trace over-counts references and lets a live root be reclaimed)")
    impls = trace_impls(F)
    n_ob = 0
    for c, imp, mq in impls:
        self_q = imp["self"]
        fn = F.fn_opt(mq) if mq else None
        if fn is None:
            rep.violation(R, "%s|no-trace-method" % self_q, "impl GcTrace for %s has no trace body" % self_q)
            continue
        rep.fn(fn)
        body = fn.body
        a = F.adts.get(self_q)
        P = prov.Prov(F, body)
        P.variant_fields = True
        # call sites forwarding to the tracer
        sites = []
        for bb, t in body.calls():
            f = t["f"]
            if f["k"] != "def":
                continue
            if f["d"] in (TRACE_M, VISIT_M) or (f.get("r") or "").endswith(" as %s>::trace" % TRACE):
                recv = t["xs"][0] if f["d"] != VISIT_M else t["xs"][1]
                org = P.origins_op(recv)
                sites.append((bb, t, org))
        # the same inside a closure handed to an iterator adapter (`self.iter().for_each(|x| x.trace(ctx))`): the site counts for
        # the parent, with the origin of what the adapter iterates over
        for clo in F.closures_of(fn):
            Pc = None
            for cbb, ct in clo.body.calls():
                f = ct["f"]
                if f["k"] != "def":
                    continue
                if f["d"] in (TRACE_M, VISIT_M) or (f.get("r") or "").endswith(" as %s>::trace" % TRACE):
                    recv = ct["xs"][0] if f["d"] != VISIT_M else ct["xs"][1]
                    Pc = Pc or prov.Prov(F, clo.body)
                    corg = Pc.origins_op(recv)
                    if not (corg and all(o[0] == "arg" and o[1] == 2 for o in corg)):
                        sites.append((cbb, ct, {("closure-capture",)}))
                        continue
                    for pbb, pt in body.calls():
                        if any("t" in x and body.ty(x["t"]).get("k") == "closure" and body.ty(x["t"]).get("d") == clo.q for x in pt["xs"]):
                            pn = callee_name(pt) or ""
                            if pn.endswith("::for_each") or pn.endswith("::map") or pn.endswith("::for_each_mut"):
                                sites.append((pbb, pt, P.origins_op(pt["xs"][0])))
                            else:
                                sites.append((pbb, pt, {("adapter", pn)}))
        # loop structure: blocks inside a natural loop that polls an iterator
        succ = body.succ_map()
        pred = body.pred_map()
        loop_blocks = set()
        for tail, head in cfg.back_edges(succ, 0):
            lp = cfg.natural_loop(succ, pred, tail, head)
            if any(body.blocks[b]["t"]["k"] == "call" and (callee_name(body.blocks[b]["t"]) or "").endswith("Iterator>::next")
                   for b in lp):
                loop_blocks |= lp
        iter_sites = []
        for bb, t in body.calls():
            n = callee_name(t) or ""
            if n.endswith("::values") or n.endswith("::iter") or n.endswith("IntoIterator>::into_iter"):
                org = P.origins_op(t["xs"][0])
                flds = sorted({o[2] for o in org if o[0] == "field" and o[1] == self_q})
                if flds and bb not in loop_blocks:
                    # adapter chains (`values()` then `into_iter()`): only the first set-up call counts
                    x = t["xs"][0]
                    chained = False
                    if x["k"] in ("copy", "move") and not x["p"]:
                        for d in P.defs.get(x["l"], []):
                            if d[0] == "call":
                                n0 = callee_name(d[3]) or ""
                                if n0.endswith("::values") or n0.endswith("::iter") or n0.endswith("IntoIterator>::into_iter"):
                                    chained = True
                    if not chained:
                        iter_sites.append((bb, flds))
        if a is None or not a.get("local"):
            # container impls (Option, RefCell, OnceCell, Box, [T], Vec) and Gc itself
            n_ob += 1
            ok = len(sites) == 1
            if ok:
                org = sites[0][2]
                ok = bool(org) and all(o[0] == "arg" and o[1] == 1 or (o[0] == "field" and o[1] == self_q) for o in org)
            rep.ob(R, "container|%s" % self_q, ok, {"impl": imp["q"], "forwarding_sites": len(sites),
                                                    "origins": [sorted(map(str, s[2])) for s in sites]})
            if not ok:
                rep.violation(R, "%s|forwarding" % imp["q"], "container impl %s forwards its content through %d call "
                              "site(s) with origins %s; exactly one site fed from `self` is required"
                              % (imp["q"], len(sites), [sorted(map(str, s[2])) for s in sites]), fn.loc)
            continue
        if self_q == GC:
            n_ob += 1
            ok = len(sites) == 1 and sites[0][1]["f"]["d"] == VISIT_M
            rep.ob(R, "Gc|visit_obj", ok)
            if not ok:
                rep.violation(R, "%s|visit" % imp["q"], "Gc::trace must visit itself exactly once", fn.loc)
            continue
        # local ADT: obligations per (variant, field)
        tparams = a["tparams"]
        root = ("adt", self_q, tuple(("param", n) for n in tparams))
        is_enum = a["kind"] == "enum"
        self_l = 1
        for v in a["variants"]:
            obligations = []
            for fi, f in enumerate(v["fields"]):
                ft = ty.resolve(a["_crate"], f["t"], {})
                if owns_gc(F, ft):
                    obligations.append("%s.%s" % (v["n"], f["n"]) if is_enum else f["n"])
            env = {}
            if is_enum:
                env["%d.*" % self_l] = ("var", self_q, v["n"])

            def on_term(w, bb, t, e):
                for sbb, st, org in sites:
                    if sbb == bb:
                        flds = sorted({o[2] for o in org if o[0] == "field" and o[1] == self_q})
                        other = sorted(str(o) for o in org if not (o[0] == "field" and o[1] == self_q))
                        return ("trace", bb, tuple(flds), tuple(other), bb in loop_blocks)
                for ibb, flds in iter_sites:
                    if ibb == bb:
                        return ("iter", bb, tuple(flds))
                return None
            w = kwalk.Walker(F, body, on_term=on_term, ordered_marks=True, dedupe_marks=True)
            outs = w.run(0, env)
            rep.states += w.states_explored
            for ob in obligations:
                n_ob += 1
                counts = set()
                for kind, marks, _ in outs:
                    if kind != "return":
                        continue
                    direct = {m[1] for m in marks if m[0] == "trace" and ob in m[2] and not m[4]}
                    looped = {m[1] for m in marks if m[0] == "trace" and ob in m[2] and m[4]}
                    iters = {m[1] for m in marks if m[0] == "iter" and ob in m[2]}
                    if looped or (iters and not direct):
                        # a per-element loop over the field: one iteration set-up, at most one site in the body
                        # (zero iterations on an empty container)
                        c = 1 if (len(iters) == 1 and len(looped) <= 1 and not direct) else (len(iters) + len(looped) + len(direct) + 10)
                        if len(iters) == 1 and not looped and not direct:
                            c = "loop-without-trace"
                        counts.add(c)
                    else:
                        counts.add(len(direct))
                if "loop-without-trace" in counts:
                    # acceptable only if some path of the same walk does trace inside the loop
                    counts.discard("loop-without-trace")
                    if 1 not in counts:
                        counts.add(0)
                ok = counts == {1}
                rep.ob(R, "%s|%s" % (self_q, ob), ok, {"type": self_q, "field": ob, "trace_sites_per_path": sorted(counts)})
                if not ok:
                    what = "never traced" if counts == {0} else ("traced on some paths only" if 0 in counts else "traced %s times" % sorted(counts))
                    rep.violation(R, "%s|%s" % (self_q, ob),
                                  "in-heap handle(s) in %s::%s are %s by <%s as GcTrace>::trace (must be exactly once per "
                                  "path): %s" % (self_q.rsplit("::", 1)[1], ob, what, self_q.rsplit("::", 1)[1],
                                                 "cyclic garbage through this edge is never reclaimed" if 0 in counts else
                                                 "the reference count is over-estimated and a live root can be reclaimed"), fn.loc)
            # sites whose origin is not a field of this variant at all (e.g. tracing something else twice)
            for kind, marks, _ in outs:
                for m in marks:
                    if m[0] == "trace" and not m[2]:
                        rep.violation(R, "%s|%s|foreign-trace" % (self_q, v["n"]), "trace site with origin %s is not "
                                      "a field of self" % (m[3],), fn.loc)
    rep.floor(R, n_ob, 20, "trace obligations")
    rep.floor(R, len(impls), 18, "GcTrace impls")


def rule_r2(F, rep):
    R = rep.rule("C03.R2", "no heap type owns a strong view (GcView) — a permanent root that leaks every cycle through "
                 "it — and no in-heap handle is reachable through shared ownership (Rc, Arc) or a borrow, which would "
                 "be traced once per owner")
    for c, imp, mq in trace_impls(F):
        a = F.adts.get(imp["self"])
        if a is None or not a.get("local") or imp["self"] in (GC,):
            continue
        root = ty.adt_term(F, imp["self"])
        pv = ty.find_owned(F, root, lambda t: t[0] == "adt" and t[1] == GCVIEW)
        ok1 = pv is None
        # shared ownership / borrows of something that owns a Gc
        def shared(t):
            if t[0] == "adt" and t[1] in ("alloc::rc::Rc", "alloc::sync::Arc"):
                return any(owns_gc(F, x) for x in t[2])
            if t[0] in ("ref", "ptr"):
                return owns_gc(F, t[1])
            return False
        ps = ty.find_owned(F, root, shared)
        ok2 = ps is None
        rep.ob(R, "no-view|%s" % imp["self"], ok1, {"type": imp["self"]})
        rep.ob(R, "no-shared|%s" % imp["self"], ok2)
        if not ok1:
            rep.violation(R, "%s|owns-GcView" % imp["self"], "heap type %s owns a GcView through %s: the viewed object "
                          "is a permanent root" % (imp["self"], " -> ".join(pv)))
        if not ok2:
            rep.violation(R, "%s|shares-Gc" % imp["self"], "heap type %s reaches a Gc handle through shared ownership or "
                          "a borrow: %s" % (imp["self"], " -> ".join(ps)))


def rule_r3(F, rep):
    R = rep.rule("C03.R3", "closed world: Gc/GcView/GcContext are crate-private, GcBox is constructed only by the "
                 "allocator, its visits/mark cells are written only inside the gc module, and the set of GcTrace "
                 "impls analysed is complete")
    for q in (GC, GCVIEW, GCCTX, GCBOX):
        a = F.adt(q)
        ok = not a.get("exported") and not a.get("reachable_pub") and a.get("vis") != "pub"
        rep.ob(R, "private|%s" % q, ok, {"type": q, "vis": a.get("vis")})
        if not ok:
            rep.violation(R, "%s|visible" % q, "%s is visible outside the crate: handles can be forged / trace impls "
                          "added outside the analysed set" % q)
        for f in a["variants"][0]["fields"]:
            okf = str(f.get("vis", "")).startswith("in:rsjsonnet_lang::gc")
            rep.ob(R, "field-private|%s.%s" % (q, f["n"]), okf)
            if not okf:
                rep.violation(R, "%s.%s|field-visible" % (q, f["n"]), "field %s.%s is accessible outside the gc module" % (q, f["n"]))
    sites = cg.who_constructs(F, GCBOX)
    for fn, bb, si, s in sites:
        ok = fn.q in ("<%s>::alloc" % GCCTX, "<%s>::alloc_view" % GCCTX)
        rep.ob(R, "construct-GcBox|%s" % fn.q, ok)
        if not ok:
            rep.violation(R, "%s|constructs-GcBox" % fn.q, "GcBox constructed outside GcContext::alloc/alloc_view", fn.body.span(s["sp"]))
    rep.floor(R, len(sites), 2, "GcBox construction sites")
    # Cell::set on visits / mark
    n = 0
    for fn in F.fn_list:
        if fn.crate.name != "rsjsonnet_lang":
            continue
        P = None
        for bb, t in fn.body.calls():
            if (callee_name(t) or "") != "<core::cell::Cell>::set":
                continue
            P = P or prov.Prov(F, fn.body)
            org = P.origins_op(t["xs"][0])
            for o in org:
                if o[0] == "field" and o[1] == GCBOX and o[2] in ("visits", "mark"):
                    n += 1
                    ok = fn.q.startswith("<rsjsonnet_lang::gc::") or fn.q.startswith("rsjsonnet_lang::gc::")
                    rep.ob(R, "write|GcBox.%s|%s" % (o[2], fn.q), ok, {"fn": fn.q, "field": o[2]})
                    if not ok:
                        rep.violation(R, "%s|writes|GcBox.%s" % (fn.q, o[2]), "GcBox.%s written outside the gc module" % o[2],
                                      fn.body.span(t["sp"]))
    rep.floor(R, n, 5, "writes of GcBox.visits/mark")
    # all impls of GcTrace live in rsjsonnet_lang
    for c, imp, mq in trace_impls(F):
        ok = c.name == "rsjsonnet_lang"
        rep.ob(R, "impl-local|%s" % imp["q"], ok)
        if not ok:
            rep.violation(R, "%s|foreign-impl" % imp["q"], "GcTrace implemented outside rsjsonnet_lang")


def _with_new_callees(F, fn):
    """fn and, transitively, the local functions it calls that did not exist on the reference tree (extracted helpers)"""
    out, work = [fn], [fn]
    seen = {fn.q}
    while work:
        g = work.pop()
        for bb, t in g.body.calls():
            f = t["f"]
            q = f.get("r") if f.get("rlocal") else None
            if q and q not in seen and F.is_new_fn(q):
                h = F.fn_opt(q)
                if h is not None and h.body is not None:
                    seen.add(q)
                    out.append(h)
                    work.append(h)
    return out


def _const_value(P, x, depth=0):
    """The compile-time value an operand carries: ("const", v) for a literal, ("var", adt, variant) for a field-less enum
    variant built in place; None when it is not a single constant."""
    if x["k"] == "const":
        return ("const", x["v"]) if "v" in x and not isinstance(x["v"], (dict, list)) else None
    if x["k"] not in ("copy", "move") or x["p"] or depth > 4:
        return None
    ds = P.defs.get(x["l"], [])
    if len(ds) != 1 or ds[0][0] != "assign":
        return None
    rv = ds[0][3]["rv"]
    if rv["k"] == "use":
        return _const_value(P, rv["x"], depth + 1)
    if rv["k"] == "agg" and rv.get("ak") == "adt" and not rv.get("xs"):
        return ("var", rv["adt"], rv["v"])
    return None


def _gcbox_initial_state(F):
    """{field: value} the allocator stores in the visits / mark cells of a fresh GcBox"""
    init = {}
    for fn, bb, si, s in cg.who_constructs(F, GCBOX, raw=True):
        body = fn.body
        P = prov.Prov(F, body)
        rv = s["rv"]
        # operands of a struct aggregate stand in declaration order: name them through the ADT definition (whose field names are
        # those of the reference tree even when the source renamed them)
        decl = [f["n"] for f in F.adt(GCBOX)["variants"][0]["fields"]]
        if len(decl) != len(rv["xs"]):
            raise kwalk.WalkLimit("GcBox aggregate in %s does not match the type's field list" % fn.q)
        for name, x in zip(decl, rv["xs"]):
            if name not in ("visits", "mark"):
                continue
            v = None
            if x["k"] in ("copy", "move") and not x["p"]:
                ds = P.defs.get(x["l"], [])
                if len(ds) == 1 and ds[0][0] == "call" and (callee_name(ds[0][3]) or "") == "<core::cell::Cell>::new":
                    v = _const_value(P, ds[0][3]["xs"][0])
            if v is None:
                raise kwalk.WalkLimit("the initial value of GcBox.%s in %s is not a constant" % (name, fn.q))
            init.setdefault(name, set()).add(v)
    for name in ("visits", "mark"):
        if len(init.get(name, ())) != 1:
            raise kwalk.WalkLimit("GcBox.%s has no unique initial value (%s)" % (name, sorted(map(str, init.get(name, ())))))
    return {k: next(iter(v)) for k, v in init.items()}


def _reset_sites(F, fn, init, reset_blocks, must_reset):
    """Blocks of fn whose terminator writes the initial value back into GcBox.visits / GcBox.mark: a `Cell::set` on the field,
    or a call of a helper (new function) that does so on every path to its return."""
    body = fn.body
    P = prov.Prov(F, body)
    resets = {"visits": [], "mark": []}
    for bb, t in body.calls():
        f = t["f"]
        if (callee_name(t) or "") == "<core::cell::Cell>::set":
            val = _const_value(P, t["xs"][1])
            if val is None:
                continue
            for o in P.origins_op(t["xs"][0]):
                if o[0] == "field" and o[1] == GCBOX and o[2] in resets and val == init[o[2]] and (val[0] != "const" or val[1] == 0):
                    if bb not in resets[o[2]]:
                        resets[o[2]].append(bb)
        elif f.get("rlocal") and f.get("r") in must_reset and f["r"] != fn.q:
            for k in must_reset[f["r"]]:
                if bb not in resets[k]:
                    resets[k].append(bb)
    reset_blocks[fn.q] = resets
    succ = body.succ_map()
    rets = {i for i, b in enumerate(body.blocks) if b["t"]["k"] == "return"}
    must = set()
    for k, bbs in resets.items():
        if bbs and not (cfg.reachable(succ, [0], blocked_nodes=bbs) & rets):
            must.add(k)
    must_reset[fn.q] = must


def rule_r4(F, rep):
    R = rep.rule("C03.R4", "the sweep resets visits to 0 and mark to false for every surviving object, and visits is "
                 "only incremented by the counting visitor, mark only set by gc() and the marking visitor")
    gc = F.fn("<%s>::gc" % GCCTX)
    rep.fn(gc)
    # the per-collection state of an object is what the allocator gives a fresh GcBox: "reset" means "written back to that value"
    # (0 / false today; the unit variant of a two-state enum if the flag is given a named type)
    init = _gcbox_initial_state(F)
    # gc() together with the helpers it was split into (functions that did not exist on the reference tree)
    fns = _with_new_callees(F, gc)
    reset_blocks = {}      # fn.q -> {field: [bb]}   blocks whose terminator resets the field (directly or through a helper)
    must_reset = {}        # fn.q -> {field}          fields reset on every returning path of the helper
    for fn in reversed(fns):
        _reset_sites(F, fn, init, reset_blocks, must_reset)
    for fn in fns:       # a helper that calls a helper summarised later in the order
        _reset_sites(F, fn, init, reset_blocks, must_reset)
    # a straight-line pair: one reset dominates the other with no branch in between that skips it
    pair = False
    seen_sites = {"visits": [], "mark": []}
    for fn in fns:
        body = fn.body
        resets = reset_blocks[fn.q]
        for k in seen_sites:
            seen_sites[k] += ["%s:bb%d" % (fn.q, b) for b in resets[k]] if fn is not gc else list(resets[k])
        succ = body.succ_map()
        dom = cfg.dominators(succ, 0)
        for vb in resets["visits"]:
            for mb in resets["mark"]:
                if vb == mb:
                    pair = True      # one helper call that resets both on all of its paths
                    continue
                a, b = (vb, mb) if vb in dom.get(mb, ()) else ((mb, vb) if mb in dom.get(vb, ()) else (None, None))
                if a is None:
                    continue
                # every path from a reaches b before leaving: b post-dominates a on non-unwind edges
                r = cfg.reachable(succ, [a], blocked_nodes=[b])
                exits = [x for x in r if body.blocks[x]["t"]["k"] == "return" or a in succ[x] and x != a]
                if not exits:
                    pair = True
    rep.ob(R, "sweep-reset", pair, {"visits_reset_blocks": seen_sites["visits"], "mark_reset_blocks": seen_sites["mark"]})
    if not pair:
        rep.violation(R, "%s|sweep-reset" % gc.q, "the sweep does not reset both visits (0) and mark (false) on the "
                      "retain path: stale counts/marks leak into the next collection", gc.loc)
    # writers of visits / mark elsewhere in the gc module: by function
    writers = {"visits": set(), "mark": set()}
    for fn in F.fn_list:
        if not (fn.q.startswith("<rsjsonnet_lang::gc::") or fn.q.startswith("rsjsonnet_lang::gc::")):
            continue
        P2 = prov.Prov(F, fn.body)
        for bb, t in fn.body.calls():
            if (callee_name(t) or "") == "<core::cell::Cell>::set":
                for o in P2.origins_op(t["xs"][0]):
                    if o[0] == "field" and o[1] == GCBOX and o[2] in writers:
                        writers[o[2]] |= cg.known_owners(F, fn.q)
    exp_v = {"<%s>::gc" % GCCTX, "<rsjsonnet_lang::gc::GcCountCtx as rsjsonnet_lang::gc::GcTraceCtx>::visit_obj"}
    exp_m = {"<%s>::gc" % GCCTX, "<rsjsonnet_lang::gc::GcMarkCtx as rsjsonnet_lang::gc::GcTraceCtx>::visit_obj"}
    okv = writers["visits"] <= exp_v and len(writers["visits"]) == 2
    okm = writers["mark"] <= exp_m and len(writers["mark"]) == 2
    rep.ob(R, "writers|visits", okv, {"writers": sorted(writers["visits"])})
    rep.ob(R, "writers|mark", okm, {"writers": sorted(writers["mark"])})
    if not okv:
        rep.violation(R, "GcBox.visits|writers", "visits is written by %s" % sorted(writers["visits"]))
    if not okm:
        rep.violation(R, "GcBox.mark|writers", "mark is written by %s" % sorted(writers["mark"]))


def rule_r5(F, rep):
    R = rep.rule("C03.R5", "a collection can only start between evaluator steps, while loading the stdlib, or from "
                 "the public API — never from inside a handler that holds borrows of heap cells")
    allowed = {
        "<%s>::maybe_gc" % PROGRAM: {"<rsjsonnet_lang::program::eval::Evaluator>::run", "<%s>::load_stdlib" % PROGRAM},
        "<%s>::gc" % PROGRAM: {"<%s>::maybe_gc" % PROGRAM},
        "<%s>::gc" % GCCTX: {"<%s>::gc" % PROGRAM},
    }
    for callee, owners in allowed.items():
        callers = {fn.q for fn, bb, t in cg.who_calls(F, callee, crates=("rsjsonnet_lang",))}
        ok = callers <= owners
        rep.ob(R, "callers|%s" % callee, ok, {"callee": callee, "callers": sorted(callers)})
        if not ok:
            rep.violation(R, "%s|callers" % callee, "%s is called from %s (allowed: %s)" % (callee, sorted(callers - owners), sorted(owners)))
    # in `run` the call sits after the `match`, i.e. not inside any arm: it is the loop's last call before the back edge
    run = F.fn("<rsjsonnet_lang::program::eval::Evaluator>::run")
    body = run.body
    sites = [bb for bb, t in body.calls() if (callee_name(t) or "") == "<%s>::maybe_gc" % PROGRAM]
    ok = len(sites) == 1
    rep.ob(R, "run|single-collection-point", ok)
    if not ok:
        rep.violation(R, "run|collection-points", "Evaluator::run has %d collection points (expected exactly one, after the step)" % len(sites), run.loc)


def run(F, rep, tier):
    rep.attempt(rule_r1, F, rep)
    rep.attempt(rule_r2, F, rep)
    rep.attempt(rule_r3, F, rep)
    rep.attempt(rule_r4, F, rep)
    rep.attempt(rule_r5, F, rep)
    rep.assume("the count/mark/sweep algorithm of GcContext::gc itself (root identification by weak-count vs visits) "
               "and schedule-independence of outcomes are behavioural and stay with the repository's unit tests")
    return EXPLANATION
