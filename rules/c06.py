"""C06 — numbers are always finite doubles, read and printed exactly.

Decided clauses (correct rounding / shortest round-trip are delegated to std and NOT decided):
  R1  finiteness typestate: every f64 that becomes a Jsonnet number (`ValueData::Number(x)`) is Finite
      on every CFG path — by definition (finite literal, integer->float conversion, finite-preserving
      std call on Finite operands, payload of an existing number) or because the construction is
      dominated by a finiteness gate (check_number_value(x)?, x.is_finite(), classify()).
      Interprocedural: f64 parameters / State payload fields are Finite iff every call /
      construction site passes Finite (optimistic fixpoint); return summaries for wrappers of f64.
  R2  the comparison's `partial_cmp().unwrap()` only ever sees number payloads (so R1 makes it total)
  R3  text -> f64 only through <f64 as FromStr> (one correctly-rounded conversion), f64 -> text for
      values only through Display
"""
from . import kwalk, cfg, prov, cg
from .facts import callee_name, pk

EXPLANATION = (
    "Static analysis of MIR: a path-sensitive abstract interpretation (lattice Finite/Unknown per f64 "
    "place, gates refine on branch edges) of every function of rsjsonnet-lang that handles f64 values, "
    "with interprocedural assumptions for f64 parameters, State payload fields and return summaries "
    "iterated to a fixpoint; every `ValueData::Number(x)` construction is an obligation."
)

KEEP_ADTS = ("core::result::Result", "core::option::Option", "core::ops::control_flow::ControlFlow",
             "core::num::FpCategory")
FIN = ("fin",)
NZ = ("nz",)
FINNZ = ("finnz",)
VALUE = "rsjsonnet_lang::program::data::ValueData"
STATE = "rsjsonnet_lang::program::eval::state::State"
EVAL = "rsjsonnet_lang::program::eval::Evaluator"

# std functions that map Finite operands to Finite results (one line of reason each)
FINITE_PRESERVING = {
    "<f64>::floor": "|floor(x)| <= |x|+1, finite for finite x",
    "<f64>::ceil": "finite for finite x",
    "<f64>::trunc": "|trunc(x)| <= |x|",
    "<f64>::round": "finite for finite x",
    "<f64>::abs": "|x| finite",
    "<f64>::copysign": "magnitude of first operand",
    "<f64>::min": "one of two finite operands",
    "<f64>::max": "one of two finite operands",
    "<f64>::clamp": "within finite bounds",
    "<f64>::fract": "|fract(x)| < 1",
    "<f64>::signum": "+-1 for finite x",
    "<f64>::rem_euclid": None,   # not preserved in general (kept Unknown)
}
AXIOMS = {
    # callee -> {subkey: reason}
    "rsjsonnet_lang::float::frexp": {".0": "mantissa: exponent field forced to 0x3FE (or value is +-0), hence finite"},
}


def const_is_finite_float(c):
    b = c.get("bits")
    if b is None:
        return False
    # f64 only (f32 constants do not occur as numbers)
    exp = (b >> 52) & 0x7FF
    return exp != 0x7FF


def is_f64(t):
    return t["k"] == "prim" and t["s"] == "f64"


def is_int(t):
    return t["k"] == "prim" and t["s"] in ("u8", "u16", "u32", "u64", "usize", "i8", "i16", "i32", "i64", "isize", "u128", "i128")


class FinWalker(kwalk.Walker):
    """Walker whose environment carries FIN for f64 places known to be finite."""

    def __init__(self, F, body, ctx, **kw):
        super().__init__(F, body, **kw)
        self.ctx = ctx

    # reading the payload of an existing number is finite by the invariant being proved (induction)
    def val(self, env, op):
        if op["k"] == "const":
            t = self.body.ty(op["t"])
            if is_f64(t):
                return FIN if const_is_finite_float(op) else None
            return super().val(env, op)
        v = super().val(env, op)
        if v == FINNZ and False:
            return FIN
        if isinstance(v, tuple) and v and v[0] == "alias":
            rv = env.get(v[1])
            return FIN if rv == FIN else v
        if v is None and op["k"] in ("copy", "move") and self._is_number_payload(op):
            return FIN
        return v

    def _is_number_payload(self, place):
        ps = place["p"]
        if len(ps) < 2:
            return False
        tys = prov.place_types(self.body, place)
        for i in range(len(ps) - 1):
            p, q = ps[i], ps[i + 1]
            if p != "*" and p["k"] == "d" and p["v"] == "Number" and q != "*" and q["k"] == "f" and q["i"] == 0:
                base = tys[i]
                if base["k"] == "adt" and base["d"] == VALUE and i + 2 == len(ps):
                    return True
        return False

    def assign(self, env, dst_place, rv):
        k = rv["k"]
        body = self.body
        dty = body.ty(dst_place["t"])
        if is_f64(dty):
            dst = self.norm(env, dst_place)
            if k == "use":
                v = self.val(env, rv["x"])
                src = self.norm(env, rv["x"]) if rv["x"]["k"] in ("copy", "move") else None
                env.kill(dst)
                if v == FIN or v == FINNZ:
                    env[dst] = v
                elif isinstance(v, tuple) and v and v[0] == "alias":
                    env[dst] = v
                elif src is not None and src != dst:
                    env[dst] = ("alias", src)
                return
            if k == "cast":
                ck = rv["ck"]
                env.kill(dst)
                if ck == "IntToFloat":
                    a = self.val(env, rv["x"])
                    if isinstance(a, tuple) and a and a[0] == "len" and env.get("#nzlen:" + a[1]) == NZ:
                        env[dst] = FINNZ
                    else:
                        env[dst] = FIN
                elif ck == "FloatToFloat" and self.val(env, rv["x"]) == FIN:
                    env[dst] = FIN
                return
            if k == "unop":
                v = self.val(env, rv["a"])
                env.kill(dst)
                if rv["op"] == "Neg" and v == FIN:
                    env[dst] = FIN
                return
            if k == "binop":
                a = self.val(env, rv["a"])
                b = self.val(env, rv["b"])
                env.kill(dst)
                # finite / non-zero count is finite (|q| <= |a|)
                if rv["op"] == "Div" and a in (FIN, FINNZ) and b == FINNZ:
                    env[dst] = FIN
                return
            if k == "cast" and False:
                pass
        if k == "binop":
            op = rv["op"]
            if op in ("AddWithOverflow", "Add"):
                # unsigned x + k (k >= 1) is non-zero: after the overflow assert in a debug build; in a build
                # without overflow checks (plain `Add`) under the assumption that a usize element counter of an
                # in-memory collection never wraps (no collection holds usize::MAX elements)
                bt = body.ty(rv["a"]["t"])["s"] if "t" in rv["a"] else ""
                bc = rv["b"]
                if (bt in ("usize", "u32", "u64", "u16", "u8") if op == "AddWithOverflow" else bt == "usize") \
                        and bc.get("k") == "const" and isinstance(bc.get("v"), int) and bc["v"] >= 1:
                    dst = self.norm(env, dst_place)
                    env.kill(dst)
                    env[dst + (".0" if op == "AddWithOverflow" else "")] = NZ
                    if op == "Add":
                        self.ctx.used_nowrap = True
                    return
            if op == "Eq":
                a = self.val(env, rv["a"])
                b = self.val(env, rv["b"])
                for p_, q_ in ((a, b), (b, a)):
                    if p_ == NZ and isinstance(q_, tuple) and q_ and q_[0] == "len":
                        dst = self.norm(env, dst_place)
                        env.kill(dst)
                        env[dst] = ("eqlen", q_[1])
                        return
        if k == "cast" and rv["ck"] == "IntToFloat":
            a = self.val(env, rv["x"])
            if isinstance(a, tuple) and a and a[0] == "len" and env.get("#nzlen:" + a[1]) == NZ:
                dst = self.norm(env, dst_place)
                env.kill(dst)
                env[dst] = FINNZ
                return
        if k == "use" and not is_f64(dty):
            v0 = self.val(env, rv["x"]) if rv["x"]["k"] in ("copy", "move") else None
            if v0 == NZ or (isinstance(v0, tuple) and v0 and v0[0] in ("len", "eqlen")):
                dst = self.norm(env, dst_place)
                env.kill(dst)
                env[dst] = v0
                return
        if k == "unop" and rv["op"] == "Not":
            a = self.val(env, rv["a"])
            if isinstance(a, tuple) and a and a[0] in ("isfin", "notfin"):
                dst = self.norm(env, dst_place)
                env.kill(dst)
                env[dst] = ("notfin" if a[0] == "isfin" else "isfin", a[1])
                return
        if k == "agg" and rv["ak"] == "adt":
            self.ctx.on_aggregate(self, env, dst_place, rv)
        super().assign(env, dst_place, rv)
        # keep the environment small: only facts that matter for finiteness survive
        d = self.norm(env, dst_place)
        v = env.get(d)
        if isinstance(v, tuple) and v:
            if v[0] in ("str", "const", "fn"):
                del env[d]
            elif v[0] == "var" and v[1] not in KEEP_ADTS:
                del env[d]
            elif v[0] == "ref":
                t = self.body.ty(dst_place["t"])
                if "f64" not in t["s"]:
                    del env[d]

    # gates: refine when branching on a gate's result
    def step_switch(self, t, env):
        x = t["x"]
        v = self.val(env, x)
        if isinstance(v, tuple) and v and v[0] == "eqlen":
            out = []
            for av, b in t["arms"]:
                e2 = kwalk.Env(env)
                if av:
                    e2["#nzlen:" + v[1]] = NZ
                out.append((b, e2))
            e3 = kwalk.Env(env)
            if [a for a, _ in t["arms"]] == [0]:
                e3["#nzlen:" + v[1]] = NZ
            out.append((t["else"], e3))
            return out
        if isinstance(v, tuple) and v and v[0] in ("isfin", "notfin"):
            out = []
            for av, b in t["arms"]:
                e2 = kwalk.Env(env)
                truth = bool(av)
                if (v[0] == "isfin") == truth:
                    e2[v[1]] = FIN
                out.append((b, e2))
            e3 = kwalk.Env(env)
            # otherwise == "true" when the only arm is 0
            if [a for a, _ in t["arms"]] == [0]:
                if v[0] == "isfin":
                    e3[v[1]] = FIN
            out.append((t["else"], e3))
            return out
        if isinstance(v, tuple) and v and v[0] == "discr":
            src = v[1]
            cur = env.get(src)
            if isinstance(cur, tuple) and cur and cur[0] in ("gatebranch", "classify"):
                key = self.place_key_of_operand(env, x)
                if key is not None:
                    env.pop(key, None)
                out = []
                for av, b in t["arms"]:
                    e2 = kwalk.Env(env)
                    name = self.variant_of_discr(v[2], av) if v[2] else None
                    if cur[0] == "gatebranch" and name == "Continue":
                        e2[cur[1]] = FIN
                    if cur[0] == "classify" and name in ("Zero", "Subnormal", "Normal"):
                        e2[cur[1]] = FIN
                    out.append((b, e2))
                e3 = kwalk.Env(env)
                names = {self.variant_of_discr(v[2], av) for av, _ in t["arms"]} if v[2] else set()
                if cur[0] == "classify" and {"Nan", "Infinite"} <= names:
                    e3[cur[1]] = FIN
                out.append((t["else"], e3))
                return out
        return super().step_switch(t, env)


class Ctx:
    """Interprocedural assumptions and results."""

    def __init__(self, F, rep):
        self.F = F
        self.rep = rep
        self.param_nonfin = {}    # (fn q, local) -> witness caller
        self.payload_nonfin = {}  # (State variant, field idx) -> witness
        self.summaries = {}       # fn q -> set of subkeys of _0 that are FIN on all return paths
        self.sinks = {}           # (fn q, site span) -> ok bool
        self.sink_detail = {}
        self.changed = False
        self.cur = None
        self.boundary = set()
        self.used_nowrap = False
        self._prov = {}

    def prov_of(self, fn):
        if fn.q not in self._prov:
            self._prov[fn.q] = prov.Prov(self.F, fn.body)
        return self._prov[fn.q]

    def on_aggregate(self, w, env, dst_place, rv):
        fn = self.cur
        if rv["adt"] == VALUE and rv["v"] == "Number":
            v = w.val(env, rv["xs"][0])
            ok = v in (FIN, FINNZ)
            if not ok and (fn.j.get("exported") or fn.j.get("reachable_pub")):
                # library boundary: a public constructor taking the f64 directly from its caller
                x = rv["xs"][0]
                if x["k"] in ("copy", "move"):
                    org = prov.Prov(self.F, fn.body).origins_op(x)
                    if org and all(o[0] == "arg" for o in org):
                        self.boundary.add(fn.q)
                        return
            key = (fn.q, self._site)
            self.sinks[key] = self.sinks.get(key, True) and ok
            if not ok:
                self.sink_detail[key] = w.norm(env, rv["xs"][0]) if rv["xs"][0]["k"] != "const" else "const"
        elif rv["adt"] == STATE:
            a = self.F.adts[STATE]
            for vv in a["variants"]:
                if vv["n"] == rv["v"]:
                    for i, f in enumerate(vv["fields"]):
                        ft = a["_crate"].types[f["t"]]
                        if is_f64(ft) and i < len(rv["xs"]):
                            if w.val(env, rv["xs"][i]) != FIN:
                                k = (rv["v"], i)
                                if k not in self.payload_nonfin:
                                    self.payload_nonfin[k] = (fn.q, self._site)
                                    self.changed = True


SMART_INTERNAL = ("alloc::boxed::Box", "core::ptr::unique::Unique", "core::ptr::non_null::NonNull")


def root_arg(F, body, P, op, depth=0):
    """The argument local an operand is a (smart-pointer) view of: follows copies, references, derefs,
    pointer casts, Deref::deref calls and the internal fields of Box; None if anything else is involved."""
    if depth > 12 or op["k"] not in ("copy", "move"):
        return None
    tys = prov.place_types(body, op)
    for i, p in enumerate(op["p"]):
        if p == "*":
            continue
        if p["k"] == "f" and tys[i]["k"] == "adt" and tys[i]["d"] in SMART_INTERNAL:
            continue
        return None
    l = op["l"]
    ds = [d for d in P.defs.get(l, []) if d[0] != "partial"]
    if 1 <= l <= body.argc and not ds:
        return l
    if len(ds) != 1:
        return None
    d = ds[0]
    if d[0] == "call":
        t = d[3]
        n = callee_name(t) or ""
        if n.endswith("core::ops::deref::Deref>::deref") and t["xs"]:
            return root_arg(F, body, P, t["xs"][0], depth + 1)
        return None
    rv = d[3]["rv"]
    if rv["k"] in ("use", "cast"):
        return root_arg(F, body, P, rv["x"], depth + 1)
    if rv["k"] in ("ref", "rawptr"):
        x = dict(rv["p"])
        x["k"] = "copy"
        return root_arg(F, body, P, x, depth + 1)
    return None


def root_key(w, e, op):
    key = w.place_key_of_operand(e, op)
    if key is None:
        return None
    v = e.get(key)
    hops = 0
    while isinstance(v, tuple) and v and v[0] == "alias" and hops < 8:
        key = v[1]
        v = e.get(key)
        hops += 1
    return key


def analyse_fn(F, rep, ctx, fn):
    body = fn.body
    ctx.cur = fn
    env = {}
    # f64 parameters: Finite unless some call site is known to pass a non-finite value
    exported = fn.j.get("exported") or fn.j.get("reachable_pub")
    for l in range(1, body.argc + 1):
        t = body.local_ty(l)
        if is_f64(t):
            if exported:
                continue   # library boundary: callers are outside the workspace
            if (fn.q, l) not in ctx.param_nonfin:
                env[str(l)] = FIN

    def on_stmt(w, bb, idx, s, e):
        ctx._site = body.span(s["sp"]) if "sp" in s else "?"
        return None

    def call_result(w, bb, t, e, args):
        n = callee_name(t) or ""
        dst = w.norm(e, t["dst"])
        dty = w.body.ty(t["dst"]["t"])
        xs = t["xs"]
        # record f64 arguments passed to local functions
        g = F.fn_opt(n)
        if g is not None:
            for i, x in enumerate(xs):
                if "t" in x and is_f64(w.body.ty(x["t"])) and args[i] != FIN:
                    k = (g.q, i + 1)
                    if k not in ctx.param_nonfin:
                        ctx.param_nonfin[k] = (fn.q, body.span(t["sp"]))
                        ctx.changed = True
        # gates
        if n == "<%s>::check_number_value" % EVAL:
            key = root_key(w, e, xs[1])
            if key is not None:
                return ("gate", key)
            return None
        if n == "<f64>::is_finite":
            key = root_key(w, e, xs[0])
            if key is not None:
                return ("isfin", key)
            return None
        if n == "<f64>::classify":
            key = root_key(w, e, xs[0])
            if key is not None:
                return ("classify", key)
            return None
        if n.endswith("core::ops::try_trait::Try>::branch"):
            a = args[0]
            if isinstance(a, tuple) and a and a[0] == "gate":
                return ("gatebranch", a[1])
            src = w.place_key_of_operand(e, xs[0])
            if src is not None:
                for variant in ("Ok", "Some"):
                    pre = "%s@%s.0" % (src, variant)
                    for k2, v2 in list(e.items()):
                        if kwalk._prefix_match(k2, pre):
                            e["%s@Continue.0%s" % (dst, k2[len(pre):])] = v2
            return None
        if n in ("<[T]>::len", "<alloc::vec::Vec>::len") and xs and xs[0]["k"] in ("copy", "move"):
            P = ctx.prov_of(fn)
            r = root_arg(F, body, P, xs[0])
            if r is not None:
                return ("len", "arg%d" % r)
            return None
        if n.endswith("core::ops::try_trait::FromResidual>::from_residual"):
            return ("var", "core::result::Result", "Err")
        conv = {"<core::result::Result>::map_err": ("Ok", "Ok"), "<core::result::Result>::ok": ("Ok", "Some"),
                "<core::option::Option>::ok_or": ("Some", "Ok"), "<core::option::Option>::ok_or_else": ("Some", "Ok"),
                "<core::option::Option>::filter": ("Some", "Some"), "<core::result::Result>::or_else": None}
        if n in conv and conv[n]:
            a, b = conv[n]
            src = w.place_key_of_operand(e, xs[0])
            if src is not None:
                pre = "%s@%s.0" % (src, a)
                for k2, v2 in list(e.items()):
                    if kwalk._prefix_match(k2, pre):
                        e["%s@%s.0%s" % (dst, b, k2[len(pre):])] = v2
            return None
        if n in ("<core::option::Option>::unwrap", "<core::option::Option>::expect", "<core::result::Result>::unwrap",
                 "<core::result::Result>::expect", "<core::option::Option>::unwrap_or_default"):
            src = w.place_key_of_operand(e, xs[0])
            if src is not None:
                for variant in ("Ok", "Some"):
                    pre = "%s@%s.0" % (src, variant)
                    for k2, v2 in list(e.items()):
                        if kwalk._prefix_match(k2, pre):
                            e[dst + k2[len(pre):]] = v2
            return e.get(dst)
        if n == "<core::option::Option>::unwrap_or":
            src = w.place_key_of_operand(e, xs[0])
            if src is not None and e.get(src + "@Some.0") == FIN and args[1] == FIN:
                return FIN
            return None
        if is_f64(dty):
            if n in FINITE_PRESERVING and FINITE_PRESERVING[n] is not None:
                if all(a == FIN for a, x in zip(args, xs) if "t" in x and is_f64(w.body.ty(x["t"])) or a == FIN) and \
                        all(a == FIN for a in args):
                    return FIN
                return None
            if n.endswith("core::convert::From>::from") or n.endswith("core::convert::Into>::into"):
                at = w.body.ty(xs[0]["t"]) if "t" in xs[0] else None
                if at is not None and is_int(at):
                    return FIN
                if args and args[0] == FIN:
                    return FIN
                return None
            if n.endswith("core::clone::Clone>::clone") and args:
                a = args[0]
                if isinstance(a, tuple) and a[0] == "ref" and e.get(a[1]) == FIN:
                    return FIN
        if n in AXIOMS:
            for sub in AXIOMS[n]:
                e[dst + sub] = FIN
            return None
        s = ctx.summaries.get(n)
        if s:
            for sub in s:
                e[dst + sub] = FIN
            return e.get(dst)
        return None

    w = FinWalker(F, body, ctx, on_stmt=on_stmt, call_result=call_result, want_ret=True, max_states=600000,
                  refine=False, keep_ints=False)
    # payload assumption for `run`: f64 fields of the popped State are Finite unless refuted
    outs = w.run(0, env)
    rep.states += w.states_explored
    # return summary: subkeys of _0 that are FIN on every non-error return
    rets = []
    for kind, marks, ret in outs:
        if kind != "return":
            continue
        d = dict(ret or ())
        top = d.get("0")
        if isinstance(top, tuple) and top and top[0] == "var" and top[2] in ("Err", "None"):
            continue
        fin = {k[1:] for k, v in d.items() if v == FIN}
        variants = [(k[1:], v[2]) for k, v in d.items() if isinstance(v, tuple) and v and v[0] == "var"]
        rets.append((fin, variants))
    cand = set()
    for fin, _ in rets:
        cand |= fin
    subs = set()
    for k in cand:
        ok = True
        for fin, variants in rets:
            if k in fin:
                continue
            # vacuous when an enclosing enum value is known to be another variant
            vac = any(k.startswith(K + "@") and not k.startswith(K + "@" + V + ".") for K, V in variants)
            if not vac:
                ok = False
                break
        if ok:
            subs.add(k)
    new = subs or set()
    if ctx.summaries.get(fn.q) != new:
        # summaries only ever shrink after the first round; treat any change as progress
        ctx.summaries[fn.q] = new
        ctx.changed = True


def state_payload_injector(F, ctx):
    """after_stmt hook for `run`: reading an f64 payload field of the popped state yields FIN unless refuted."""
    a = F.adts[STATE]
    f64_fields = {}
    for v in a["variants"]:
        for i, f in enumerate(v["fields"]):
            if is_f64(a["_crate"].types[f["t"]]):
                f64_fields[(v["n"], i)] = True
    return f64_fields


def rule_r1(F, rep):
    R = rep.rule("C06.R1", "every f64 that becomes a Jsonnet number is finite on every path (definition or "
                 "dominating finiteness gate); no operator or builtin can yield NaN or an infinity as a value")
    ctx = Ctx(F, rep)
    fns = []
    for fn in F.fn_list:
        if fn.crate.name != "rsjsonnet_lang" or fn.mac:
            continue
        b = fn.body
        if any(is_f64(b.ty(l["t"])) or "f64" in b.ty(l["t"])["s"] for l in b.locals):
            fns.append(fn)
    rep.fn(*fns)
    f64_payload = state_payload_injector(F, ctx)

    # State payload reads inside `run`: handled by treating `(_state as V).i` reads of f64 type as FIN
    # unless (V, i) is refuted — implemented by patching FinWalker.val through ctx
    orig_is_payload = FinWalker._is_number_payload

    def is_payload(self, place):
        if orig_is_payload(self, place):
            return True
        ps = place["p"]
        if len(ps) >= 2:
            tys = prov.place_types(self.body, place)
            p, q = ps[-2], ps[-1]
            if p != "*" and p["k"] == "d" and q != "*" and q["k"] == "f":
                base = tys[len(ps) - 2]
                if base["k"] == "adt" and base["d"] == STATE and (p["v"], q["i"]) in f64_payload:
                    return (p["v"], q["i"]) not in ctx.payload_nonfin
        return False
    FinWalker._is_number_payload = is_payload
    try:
        rounds = 0
        while True:
            rounds += 1
            ctx.changed = False
            ctx.sinks = {}
            ctx.sink_detail = {}
            for fn in fns:
                analyse_fn(F, rep, ctx, fn)
            if not ctx.changed or rounds >= 8:
                break
    finally:
        FinWalker._is_number_payload = orig_is_payload
    rep.note("C06.R1 fixpoint reached after %d round(s); refuted parameter assumptions: %d, refuted payload "
             "assumptions: %d" % (rounds, len(ctx.param_nonfin), len(ctx.payload_nonfin)))
    bad_fns = {}
    for (q, site), ok in sorted(ctx.sinks.items()):
        rep.ob(R, "%s|Number@%s" % (q, site), ok, {"fn": q, "site": site, "finite": ok} if not ok or q.endswith("do_binary_op") else None)
        if not ok:
            bad_fns.setdefault(q, []).append(site)
    for q, sites in bad_fns.items():
        why = ""
        # explain through refuted assumptions
        for (fq, l), (caller, csite) in ctx.param_nonfin.items():
            if fq == q:
                why += " (parameter _%d receives a non-finite-checked value from %s at %s)" % (l, caller, csite)
        for (v, i), (mk, msite) in ctx.payload_nonfin.items():
            if mk == q:
                why += " (stores an unchecked f64 into State::%s field %d at %s)" % (v, i, msite)
        rep.violation(R, "%s|ValueData::Number" % q,
                      "%s builds a number from an f64 that is not known finite on some path at %s%s; an arithmetic "
                      "result needs a finiteness gate (check_number_value / is_finite) before it becomes a value"
                      % (q, ", ".join(sites[:3]), why), sites[0])
    rep.floor(R, len(ctx.sinks), 45, "number construction sites")
    rep.trust("std axioms: " + "; ".join("%s (%s)" % (k, v) for k, v in FINITE_PRESERVING.items() if v))
    rep.trust("axiom: float::frexp mantissa is finite (" + AXIOMS["rsjsonnet_lang::float::frexp"][".0"] + ")")
    rep.assume("public constructors taking an f64 straight from the embedding application are the library boundary "
               "and not checked: %s" % sorted(ctx.boundary))
    if ctx.used_nowrap:
        rep.assume("overflow checks are off in this build configuration: `index + 1` on a usize element counter is taken "
                   "to be non-zero (no in-memory collection holds usize::MAX elements)")
    return ctx


def rule_r2(F, rep):
    R = rep.rule("C06.R2", "`partial_cmp().unwrap()` on floats is applied only to payloads of existing numbers, "
                 "so the no-NaN invariant of R1 makes it total")
    n = 0
    for fn in F.fn_list:
        if fn.crate.name != "rsjsonnet_lang":
            continue
        body = fn.body
        for bb, t in body.calls():
            f = t["f"]
            if f["k"] != "def" or not f["d"].endswith("core::cmp::PartialOrd::partial_cmp"):
                continue
            st = body.ty(f["self"])["s"] if "self" in f else ""
            if st != "f64":
                continue
            n += 1
            # is the Option result unwrapped?
            dst = t["dst"]
            unwrapped = False
            for bb2, t2 in body.calls():
                n2 = callee_name(t2) or ""
                if n2 in ("<core::option::Option>::unwrap", "<core::option::Option>::expect") and t2["xs"] and \
                        t2["xs"][0]["k"] in ("copy", "move") and t2["xs"][0]["l"] == dst["l"]:
                    unwrapped = True
            if not unwrapped:
                rep.ob(R, "%s|partial_cmp@bb%d" % (fn.q, bb), True, {"fn": fn.q, "unwrapped": False})
                continue
            P = prov.Prov(F, body)
            ok = True
            srcs = []
            for x in t["xs"]:
                org = P.origins_op(x)
                srcs.append(sorted(map(str, org)))
                # both operands must be (references to) number payloads
                okx = False
                w = FinWalker(F, body, None)
                # structural: operand is `&local` where local = copy (v as Number).0
                for o in org:
                    pass
                okx = _is_payload_operand(F, body, P, x)
                ok = ok and okx
            rep.ob(R, "%s|partial_cmp@bb%d" % (fn.q, bb), ok, {"fn": fn.q, "site": body.span(t["sp"]), "operands": srcs})
            if not ok:
                rep.violation(R, "%s|partial_cmp-unwrap" % fn.q,
                              "partial_cmp().unwrap() on f64 operands that are not payloads of existing numbers "
                              "(a NaN would panic here)", body.span(t["sp"]))
    rep.floor(R, n, 1, "f64 partial_cmp sites")


def _is_payload_operand(F, body, P, x, depth=0):
    """operand derives (through &, copies) from `(v as Number).0` of a ValueData."""
    if x["k"] not in ("copy", "move"):
        return False
    if depth > 6:
        return False
    ps = x["p"]
    tys = prov.place_types(body, x)
    for i in range(len(ps) - 1):
        p, q = ps[i], ps[i + 1]
        if p != "*" and p["k"] == "d" and p["v"] == "Number" and q != "*" and q["k"] == "f" and q["i"] == 0:
            if tys[i]["k"] == "adt" and tys[i]["d"] == VALUE:
                return True
    if not [p for p in ps if p != "*"]:
        ds = [d for d in P.defs.get(x["l"], []) if d[0] == "assign"]
        if not ds:
            return False
        for d in ds:
            rv = d[3]["rv"]
            if rv["k"] == "use":
                if not _is_payload_operand(F, body, P, rv["x"], depth + 1):
                    return False
            elif rv["k"] == "ref":
                y = dict(rv["p"])
                y["k"] = "copy"
                if not _is_payload_operand(F, body, P, y, depth + 1):
                    return False
            else:
                return False
        return True
    return False


def rule_r3(F, rep):
    R = rep.rule("C06.R3", "decimal text becomes a number only through <f64 as FromStr>::from_str (one correctly "
                 "rounded conversion; no hand-written digit accumulation in floating point except the radix parser, "
                 "which is exact below 2^128 and gated) and numbers become text only through Display")
    sites = []
    for fn in F.fn_list:
        if fn.crate.name != "rsjsonnet_lang":
            continue
        for bb, t in fn.body.calls():
            n = callee_name(t) or ""
            f = t["f"]
            if n.endswith("core::str::traits::FromStr>::from_str") or n == "<str>::parse" or n == "core::str::<impl str>::parse":
                dty = fn.body.ty(t["dst"]["t"])["s"]
                if "f64" in dty:
                    sites.append((fn, bb, t))
    for fn, bb, t in sites:
        rep.ob(R, "%s|parse-f64@bb%d" % (fn.q, bb), True, {"fn": fn.q, "site": fn.body.span(t["sp"])})
    rep.floor(R, len(sites), 3, "text->f64 conversion sites")
    # f64 -> text: Argument::new_display::<f64> / new_lower_exp etc. on f64 inside manifest functions
    n_disp = 0
    for fn in F.fn_list:
        if fn.crate.name != "rsjsonnet_lang" or "::manifest::" not in fn.q and "do_manifest" not in fn.q:
            continue
        for bb, t in fn.body.calls():
            n = callee_name(t) or ""
            if n.startswith("<core::fmt::rt::Argument>::new_"):
                ga = t["f"].get("ga") or []
                tys = [fn.body.ty(i)["s"] for i in ga if isinstance(i, int)]
                if "f64" in tys:
                    n_disp += 1
                    ok = n == "<core::fmt::rt::Argument>::new_display"
                    rep.ob(R, "%s|fmt-f64@bb%d" % (fn.q, bb), ok, {"fn": fn.q, "formatter": n.rsplit("::", 1)[1]})
                    if not ok:
                        rep.violation(R, "%s|number-format" % fn.q, "a manifested number is formatted with %s instead of "
                                      "Display (shortest round-trip)" % n, fn.body.span(t["sp"]))
    rep.floor(R, n_disp, 3, "number formatting sites in manifest functions")
    # (b) the text that is printed is the number itself: a function that prints an f64 value (or is handed one by a
    # manifest function) never converts it to an integer on the way (saturating `as i64` / `as u64` silently changes
    # every value beyond the integer range)
    printers = {}
    for fn in F.fn_list:
        if fn.crate.name != "rsjsonnet_lang":
            continue
        if "::manifest::" in fn.q or "do_manifest" in fn.q:
            printers[fn.q] = fn
    for q, fn in list(printers.items()):
        for bb, t in fn.body.calls():
            f = t["f"]
            if f["k"] == "def" and f.get("rlocal"):
                g = F.fn_opt(callee_name(t) or "")
                if g is not None and any("t" in x and fn.body.ty(x["t"])["s"] == "f64" for x in t["xs"]):
                    printers.setdefault(g.q, g)
    n_p = 0
    for q, fn in sorted(printers.items()):
        prints = any((callee_name(t) or "").startswith("<core::fmt::rt::Argument>::new_") for _, t in fn.body.calls())
        if not prints:
            continue
        n_p += 1
        casts = [(bb, st) for bb, si, st in fn.body.assigns() if st["rv"]["k"] == "cast" and st["rv"]["ck"] == "FloatToInt"]
        ok = not casts
        rep.ob(R, "%s|no-float-to-int" % q, ok, {"fn": q})
        for bb, st in casts:
            rep.violation(R, "%s|number-printed-through-integer" % q,
                          "%s prints values and converts an f64 to an integer on the way: values beyond the integer range are "
                          "saturated, so the printed text no longer denotes the number" % q, fn.body.span(st["sp"]))
    rep.floor(R, n_p, 3, "functions that print manifested values")
    # (c) a literal denotes the correctly rounded double of its text: the f64 stored in ir::Expr::Number comes straight
    # from the one FromStr conversion (through unwrap/expect), with no floating-point arithmetic of our own
    IREXPR = "rsjsonnet_lang::program::ir::Expr"
    PARSE = ("core::str::traits::FromStr>::from_str", "<str>::parse", "core::str::<impl str>::parse")

    def only_parse(fn, op, depth=0):
        P = prov.Prov(F, fn.body)
        org = P.origins_op(op)
        bad = []
        for o in org:
            if o[0] == "call" and any(o[1].endswith(p_) or o[1] == p_ for p_ in PARSE):
                continue
            if o[0] == "call" and depth < 2:
                g = F.fn_opt(o[1])
                if g is not None and g.crate.name == "rsjsonnet_lang":
                    # a helper: everything it returns must itself come from the conversion
                    rets = [st for bb, si, st in g.body.assigns() if st["p"]["l"] == 0 and not st["p"]["p"]]
                    calls0 = [t for bb, t in g.body.calls() if t["dst"]["l"] == 0 and not t["dst"]["p"]]
                    sub_bad = []
                    for st in rets:
                        rv = st["rv"]
                        if rv["k"] == "use":
                            sub_bad += only_parse(g, rv["x"], depth + 1)
                        else:
                            sub_bad.append(("computed", rv["k"], rv.get("op")))
                    for t in calls0:
                        nme = callee_name(t) or ""
                        if not (any(nme.endswith(p_) or nme == p_ for p_ in PARSE) or prov.is_pass_through(nme)):
                            sub_bad.append(("call", nme))
                        elif prov.is_pass_through(nme) and t["xs"]:
                            sub_bad += only_parse(g, t["xs"][0], depth + 1)
                    bad += sub_bad
                    continue
            bad.append(o)
        return bad
    n_lit = 0
    for fn, bb, si, st in cg.who_constructs(F, IREXPR, "Number", crates=("rsjsonnet_lang",)):
        n_lit += 1
        bad = only_parse(fn, st["rv"]["xs"][0])
        ok = not bad
        rep.ob(R, "%s|literal-from-FromStr" % fn.q, ok, {"fn": fn.q, "other_origins": sorted(map(str, bad))[:4]})
        if not ok:
            rep.violation(R, "%s|literal-not-from-FromStr" % fn.q,
                          "%s stores a number literal whose value does not come straight from <f64 as FromStr> (other origins: "
                          "%s): arithmetic of our own on the way rounds twice, so the literal can denote a neighbouring double"
                          % (fn.q, sorted(map(str, bad))[:3]), fn.body.span(st["sp"]))
    rep.floor(R, n_lit, 1, "number literal construction sites")
    rep.trust("std: <f64 as FromStr> is correctly rounded; <f64 as Display> prints the shortest round-trip decimal")


def rule_r1b(F, rep):
    R = rep.rule("C06.R1b", "the finiteness gate itself is sound: check_number_value returns Ok only after classifying its "
                 "argument (`classify()` / `is_finite()`) as finite — no path accepts the value on the strength of a comparison "
                 "that also holds for an infinity or a NaN")
    FPCAT = "core::num::FpCategory"
    fn = F.fn("<rsjsonnet_lang::program::eval::Evaluator>::check_number_value")
    rep.fn(fn)
    body = fn.body
    results = {}
    cats = ["Nan", "Infinite", "Zero", "Subnormal", "Normal"]
    names = {callee_name(t) or "" for _, t in body.calls()}
    uses_classify = any(n.endswith("::classify") for n in names)
    uses_isfin = any(n.endswith("::is_finite") for n in names)
    cases = (cats if uses_classify else []) + (["is_finite=1", "is_finite=0"] if uses_isfin and not uses_classify else [])
    if not cases:
        rep.violation(R, "check_number_value|no-classifier", "check_number_value neither classifies its argument nor asks is_finite", fn.loc)
    for cat in cases:
        def hook(w, bb, t, env, args, cat=cat):
            n = callee_name(t) or ""
            if n in ("<f64>::classify", "core::f64::<impl f64>::classify"):
                env["#classified"] = 1
                if cat in cats:
                    return ("var", FPCAT, cat)
                return None
            if n in ("<f64>::is_finite", "core::f64::<impl f64>::is_finite"):
                env["#classified"] = 1
                if cat.startswith("is_finite="):
                    return int(cat[-1])
                return 1 if cat in ("Zero", "Subnormal", "Normal") else 0
            if n.endswith("core::ops::try_trait::FromResidual>::from_residual"):
                return ("var", "core::result::Result", "Err")
            return None
        w = kwalk.Walker(F, body, call_result=hook, want_ret=True, ret_prefixes=("0", "#classified"))
        outs = w.run(0, {})
        rep.states += w.states_explored
        res = set()
        for kind, marks, ret in outs:
            if kind != "return":
                continue
            d = dict(ret or ())
            top = d.get("0")
            isok = isinstance(top, tuple) and top[0] == "var" and top[2] == "Ok"
            res.add(("Ok" if isok else "Err", bool(d.get("#classified"))))
        results[cat] = res
    for cat, res in results.items():
        finite = cat in ("Zero", "Subnormal", "Normal", "is_finite=1")
        # every Ok must come after a classification; non-finite categories must never be Ok
        ok = all(c for r, c in res if r == "Ok") and (finite or not any(r == "Ok" for r, c in res)) and \
            (not finite or any(r == "Ok" for r, c in res))
        rep.ob(R, "check_number_value|%s" % cat, ok, {"category": cat, "outcomes(result, classified first)": sorted(map(str, res))})
        if not ok:
            rep.violation(R, "check_number_value|%s" % ("unclassified-accept" if any(r == "Ok" and not c for r, c in res) else cat),
                          "check_number_value with the value classified as %s: outcomes %s — the gate must return Ok exactly for "
                          "finite values and only after classifying the value (a comparison shortcut accepts -inf or NaN)"
                          % (cat, sorted(map(str, res))), fn.loc)


def run(F, rep, tier):
    rep.attempt(rule_r1, F, rep)
    rep.attempt(rule_r1b, F, rep)
    rep.attempt(rule_r2, F, rep)
    rep.attempt(rule_r3, F, rep)
    from . import casts
    rep.attempt(casts.rule, F, rep, "C06.R4")
    return EXPLANATION
