"""IRFLOW — where do references to IR expressions flow?  (field-based, flow-insensitive, whole crate)

Nodes are abstract locations that can hold `&ir::Expr` (or slices / options / tuples of them):
    ('ir', 'Expr.Local.bindings#1')      a position of the IR itself (source)
    ('fld', 'State.Expr.expr')           a field of a run-time struct / enum variant
    ('param', fn_q, n)                   a parameter of a function or closure
    ('ret', fn_q)                        a function result
Edges come from every construction site and call site: the origin path of the operand (followed
through copies, references, iterator items, Option/`?` plumbing) gives the source node, the
aggregate field / callee parameter the target node.  Calls through generic `Fn` parameters are
bound to the closures passed for that parameter at the call sites of the enclosing function.
"""
import re

from . import prov
from .facts import callee_name, pk

IRX = "program::ir::"
LOCAL = "rsjsonnet_lang::"


def mentions_ir(tstr):
    return "program::ir::Expr" in tstr or "program::ir::Assert" in tstr or "program::ir::ObjectField" in tstr \
        or "program::ir::CompSpecPart" in tstr or "program::ir::FieldName" in tstr


def short(adt):
    return adt.rsplit("::", 1)[1]


_GEN_CACHE = {}


def generic_names(body):
    k = id(body)
    if k not in _GEN_CACHE:
        names = set()
        for l in body.locals:
            t = body.ty(l["t"])
            stack = [t]
            seen = 0
            while stack and seen < 50:
                seen += 1
                x = stack.pop()
                if x["k"] == "param" and x.get("n") not in ("Self",):
                    names.add(x["n"])
                for key in ("t",):
                    if key in x and isinstance(x[key], int):
                        stack.append(body.ty(x[key]))
                for i in x.get("a", []) + x.get("ts", []) + x.get("in", []):
                    if isinstance(i, int):
                        stack.append(body.ty(i))
        _GEN_CACHE[k] = names
    return _GEN_CACHE[k]


def relevant(body, tstr):
    if mentions_ir(tstr):
        return True
    for n in generic_names(body):
        if re.search(r"(?<![A-Za-z0-9_])%s(?![A-Za-z0-9_])" % re.escape(n), tstr):
            return True
    return False


class FnFlow:
    def __init__(self, F, fn):
        self.F = F
        self.fn = fn
        self.body = fn.body
        self.P = prov.Prov(F, fn.body)

    def path(self, op, depth=0):
        """tuple path: ('argN' | 'call:q' | 'ret?') + ('Adt.Variant.field' | '#i')*"""
        if op["k"] not in ("copy", "move") or depth > 16:
            return ()
        body = self.body
        tys = prov.place_types(body, op)
        here = []
        projs = op["p"]
        for i, p in enumerate(projs):
            if p != "*" and p["k"] == "f":
                base = tys[i]
                if base["k"] == "adt" and base["d"].startswith(LOCAL):
                    nm = p["n"]
                    if i > 0 and projs[i - 1] != "*" and projs[i - 1]["k"] == "d":
                        nm = "%s.%s" % (projs[i - 1]["v"], p["n"])
                    here.append(("f", base["d"], nm))
                elif base["k"] == "tuple":
                    here.append(("t", p["i"]))
                elif base["k"] == "closure":
                    here.append(("up", p["i"]))
        l = op["l"]
        ds = [d for d in self.P.defs.get(l, []) if d[0] != "partial"]
        pre = ()
        if 1 <= l <= body.argc and not ds:
            pre = (("arg", l),)
        else:
            for d in ds:
                if d[0] == "call":
                    t = d[3]
                    n = callee_name(t) or ""
                    if (prov.is_pass_through(n) or n.endswith("::split_first") or n.endswith("::chain") or n.endswith("::as_ref")
                            or n.endswith("Iterator::enumerate") or n.endswith("Iterator::rev") or n.endswith("::iter")
                            or n.endswith("::first") or n.endswith("::get") or n.endswith("Iterator::zip")
                            or n.endswith("Iterator::copied") or n.endswith("Option>::copied") or n.endswith("::transpose")
                            or n.endswith("Iterator>::next_back") or n.endswith("::last")):
                        if t["xs"] and t["xs"][0]["k"] in ("copy", "move"):
                            pre = self.path(t["xs"][0], depth + 1)
                    elif self.F.fn_opt(n) is not None:
                        pre = (("ret", n),)
                    else:
                        pre = (("ext", n),)
                else:
                    rv = d[3]["rv"]
                    if rv["k"] in ("use", "cast"):
                        pre = self.path(rv["x"], depth + 1) if rv["x"]["k"] in ("copy", "move") else ()
                    elif rv["k"] in ("ref", "rawptr"):
                        x = dict(rv["p"])
                        x["k"] = "copy"
                        pre = self.path(x, depth + 1)
                    elif rv["k"] == "agg":
                        adt = rv.get("adt") or ""
                        if rv["ak"] == "tuple" or (rv["ak"] == "adt" and not adt.startswith(LOCAL)):
                            cands = [x for x in rv["xs"] if x["k"] in ("copy", "move") and "t" in x and relevant(body, body.ty(x["t"])["s"])]
                            if len(cands) == 1:
                                pre = self.path(cands[0], depth + 1)
                        if not pre:
                            pre = (("agg", adt or rv["ak"]),)
                if pre:
                    break
        return tuple(pre) + tuple(here)


def node_of_path(fn, path):
    """Abstract source node of an origin path: the last struct field (+ trailing tuple indexes), or the
    parameter / call result it starts from."""
    last_f = None
    for i, e in enumerate(path):
        if e[0] == "f":
            last_f = i
    if last_f is not None:
        _, adt, nm = path[last_f]
        kind = "ir" if "::program::ir::" in adt else "fld"
        return (kind, "%s.%s" % (short(adt), nm))
    if not path:
        return None
    head = path[0]
    if head[0] == "arg":
        ups = [e for e in path[1:] if e[0] == "up"]
        if ups and head[1] == 1:
            return ("upvar", fn.q, ups[0][1])
        return ("param", fn.q, head[1])
    if head[0] == "ret":
        return ("ret", head[1])
    if head[0] == "ext":
        return ("ext", head[1])
    if head[0] == "agg":
        return ("agg", head[1])
    return None


class IRFlow:
    def __init__(self, F, crate="rsjsonnet_lang"):
        self.F = F
        self.edges = {}       # node -> set(node)
        self.sites = {}       # (src, dst) -> site
        self.closure_bindings = {}   # (fn_q, param index) -> set(closure q)
        self.fns = [f for f in F.fn_list if f.crate.name == crate]
        self.flows = {}
        for fn in self.fns:
            self.flows[fn.q] = FnFlow(F, fn)
        self._collect()

    def add(self, src, dst, site):
        if src is None or dst is None:
            return
        self.edges.setdefault(src, set()).add(dst)
        self.sites.setdefault((src, dst), site)

    def _collect(self):
        F = self.F
        # pass 1: closure bindings
        for fn in self.fns:
            body = fn.body
            for bb, t in body.calls():
                n = callee_name(t) or ""
                g = F.fn_opt(n)
                if g is None:
                    continue
                for i, x in enumerate(t["xs"]):
                    if "t" in x:
                        ty = body.ty(x["t"])
                        if ty["k"] == "closure":
                            self.closure_bindings.setdefault((g.q, i + 1), set()).add(ty["d"])
                        elif ty["k"] == "ref" and body.ty(ty["t"])["k"] == "closure":
                            self.closure_bindings.setdefault((g.q, i + 1), set()).add(body.ty(ty["t"])["d"])
        # pass 2: edges
        for fn in self.fns:
            fl = self.flows[fn.q]
            body = fn.body
            for bb, si, s in body.assigns():
                rv = s["rv"]
                site = body.span(s["sp"])
                if rv["k"] == "agg":
                    if rv["ak"] == "adt" and rv["adt"].startswith(LOCAL):
                        a = F.adts.get(rv["adt"])
                        is_enum = a and a["kind"] == "enum"
                        for nm, x in zip(rv["fn"], rv["xs"]):
                            if "t" in x and relevant(body, body.ty(x["t"])["s"]):
                                dst = ("ir" if "::program::ir::" in rv["adt"] else "fld",
                                       "%s.%s" % (short(rv["adt"]), ("%s.%s" % (rv["v"], nm)) if is_enum else nm))
                                self.add(node_of_path(fn, fl.path(x)), dst, site)
                    elif rv["ak"] == "closure":
                        for i, x in enumerate(rv["xs"]):
                            if "t" in x and relevant(body, body.ty(x["t"])["s"]):
                                self.add(node_of_path(fn, fl.path(x)), ("upvar", rv["d"], i), site)
                    elif rv["ak"] == "tuple" and not s["p"]["p"] and s["p"]["l"] == 0:
                        for i, x in enumerate(rv["xs"]):
                            if "t" in x and relevant(body, body.ty(x["t"])["s"]):
                                self.add(node_of_path(fn, fl.path(x)), ("ret", fn.q), site)
                elif rv["k"] == "use" and not s["p"]["p"] and s["p"]["l"] == 0:
                    x = rv["x"]
                    if "t" in x and relevant(body, body.ty(x["t"])["s"]):
                        self.add(node_of_path(fn, fl.path(x)), ("ret", fn.q), site)
            for bb, t in body.calls():
                n = callee_name(t) or ""
                site = body.span(t["sp"])
                g = F.fn_opt(n)
                xs = t["xs"]
                if g is not None and g.kind == "Closure" and len(xs) == 2 and "t" in xs[1] \
                        and body.ty(xs[1]["t"])["k"] == "tuple":
                    # a closure body called directly (a local closure invoked by name): rust-call ABI, the
                    # arguments arrive as one tuple whose k-th item is the closure body's parameter k + 2
                    x = xs[0]
                    if "t" in x and relevant(body, body.ty(x["t"])["s"]):
                        self.add(node_of_path(fn, fl.path(x)), ("param", g.q, 1), site)
                    tup = xs[1]
                    found = False
                    if tup["k"] in ("copy", "move") and not tup["p"]:
                        for d in fl.P.defs.get(tup["l"], []):
                            if d[0] == "assign" and d[3]["rv"]["k"] == "agg" and d[3]["rv"]["ak"] == "tuple":
                                found = True
                                for k, y in enumerate(d[3]["rv"]["xs"]):
                                    if "t" in y and relevant(body, body.ty(y["t"])["s"]):
                                        self.add(node_of_path(fn, fl.path(y)), ("param", g.q, k + 2), site)
                    if not found and relevant(body, body.ty(tup["t"])["s"]):
                        # the tuple is not built here: its content may be any of the parameters
                        src = node_of_path(fn, fl.path(tup))
                        for j in range(2, g.body.argc + 1):
                            self.add(src, ("param", g.q, j), site)
                    continue
                if g is not None:
                    for i, x in enumerate(xs):
                        if "t" in x and relevant(body, body.ty(x["t"])["s"]):
                            self.add(node_of_path(fn, fl.path(x)), ("param", g.q, i + 1), site)
                    continue
                decl = t["f"].get("d", "") if t["f"]["k"] == "def" else ""
                if decl.endswith("ops::function::Fn::call") or decl.endswith("ops::function::FnMut::call_mut") or \
                        decl.endswith("ops::function::FnOnce::call_once"):
                    # receiver: which parameter of this function holds the closure?
                    rp = fl.path(xs[0])
                    clos = set()
                    ups = [e for e in rp if e[0] == "up"]
                    if rp and rp[0][0] == "arg" and rp[0][1] == 1 and ups and fn.kind == "Closure":
                        # the closure captured its parent's Fn parameter: map the upvar back
                        parent_q = fn.j.get("parent")
                        par = F.fn_opt(parent_q) if parent_q else None
                        if par is not None:
                            pfl = self.flows.get(par.q)
                            for b0, i0, s0 in par.body.assigns():
                                r0 = s0["rv"]
                                if r0["k"] == "agg" and r0["ak"] == "closure" and r0["d"] == fn.q and ups[0][1] < len(r0["xs"]):
                                    pp = pfl.path(r0["xs"][ups[0][1]]) if pfl else ()
                                    if pp and pp[0][0] == "arg":
                                        clos = self.closure_bindings.get((par.q, pp[0][1]), set())
                    elif rp and rp[0][0] == "arg":
                        clos = self.closure_bindings.get((fn.q, rp[0][1]), set())
                    rty = body.ty(xs[0]["t"]) if "t" in xs[0] else None
                    if rty is not None:
                        inner = body.ty(rty["t"]) if rty["k"] == "ref" else rty
                        if inner["k"] == "closure":
                            clos = clos | {inner["d"]}
                    # the argument tuple
                    if len(xs) >= 2 and xs[1]["k"] in ("copy", "move"):
                        tup = xs[1]
                        for d in fl.P.defs.get(tup["l"], []):
                            if d[0] == "assign" and d[3]["rv"]["k"] == "agg" and d[3]["rv"]["ak"] == "tuple":
                                for k, y in enumerate(d[3]["rv"]["xs"]):
                                    if "t" in y and relevant(body, body.ty(y["t"])["s"]):
                                        src = node_of_path(fn, fl.path(y))
                                        for c in clos:
                                            self.add(src, ("param", c, k + 2), site)
                                        if not clos:
                                            self.add(src, ("dyncall", fn.q), site)
                elif n.endswith("Iterator::map") or n.endswith("Option>::map") or n.endswith("Iterator::for_each") \
                        or n.endswith("Option>::and_then") or n.endswith("Iterator::filter_map"):
                    # std higher-order call with a local closure: items of arg0 flow to the closure's parameter
                    if len(xs) >= 2 and "t" in xs[1]:
                        cty = body.ty(xs[1]["t"])
                        if cty["k"] == "closure" and "t" in xs[0] and relevant(body, body.ty(xs[0]["t"])["s"]):
                            self.add(node_of_path(fn, fl.path(xs[0])), ("param", cty["d"], 2), site)
                # results of closures / functions are linked through ('ret', q) by the path function

    def reach(self, sources, stop=lambda n: False):
        """nodes reachable from sources; does not expand nodes for which stop(node) is true; returns parents map"""
        parent = {}
        seen = set(sources)
        stack = list(sources)
        while stack:
            n = stack.pop()
            if stop(n) and n not in sources:
                continue
            for m in self.edges.get(n, ()):
                if m not in seen:
                    seen.add(m)
                    parent[m] = n
                    stack.append(m)
        return seen, parent

    def chain(self, parent, node):
        out = [node]
        while node in parent:
            node = parent[node]
            out.append(node)
        return list(reversed(out))
