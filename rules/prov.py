"""PROV — intraprocedural origin sets over extracted MIR (flow-insensitive, field-sensitive).

origins(x) answers "which sources can the value of operand x derive from": struct fields read
through `self`, arguments, constants, call results (by resolved callee), arithmetic.  A small axiom
table lets payloads pass through the std combinators the repository uses (`?`, unwrap, clone, …).
"""
from . import cfg
from .facts import callee_name, pk

PASS_THROUGH = (
    "core::ops::try_trait::Try>::branch",
    "<core::option::Option>::unwrap", "<core::option::Option>::expect", "<core::result::Result>::unwrap",
    "<core::result::Result>::expect", "core::clone::Clone>::clone", "<core::option::Option>::copied",
    "<core::option::Option>::cloned", "core::convert::Into>::into", "core::convert::From>::from",
    "<core::option::Option>::as_ref", "<core::option::Option>::as_deref", "core::ops::deref::Deref>::deref",
    "core::ops::deref::DerefMut>::deref_mut", "core::borrow::Borrow>::borrow", "core::convert::AsRef>::as_ref",
    "<core::option::Option>::unwrap_or", "<core::option::Option>::take", "core::mem::replace", "core::mem::take",
    "<core::option::Option>::ok_or", "<core::option::Option>::ok_or_else", "<core::result::Result>::map_err",
    "<core::result::Result>::ok", "<core::option::Option>::filter",
    "<core::cell::RefCell>::borrow", "<core::cell::RefCell>::borrow_mut", "<core::cell::once::OnceCell>::get",
    "<[T]>::iter", "<alloc::vec::Vec>::iter", "core::iter::traits::collect::IntoIterator>::into_iter",
    "core::iter::traits::iterator::Iterator>::next", "::values", "::iter", "<core::cell::Cell>::get",
    "core::iter::traits::iterator::Iterator::map", "core::iter::traits::iterator::Iterator>::map",
    "core::iter::traits::iterator::Iterator::rev", "core::iter::traits::iterator::Iterator::cloned",
    "core::convert::TryFrom>::try_from", "core::convert::TryInto>::try_into",
    "<alloc::vec::Vec>::as_slice", "<alloc::vec::Vec>::as_mut_slice", "<alloc::string::String>::as_str",
    "<alloc::boxed::Box>::as_ref", "<core::option::Option>::as_mut", "<core::option::Option>::as_deref_mut",
)


def is_pass_through(name):
    return any(name.endswith(s) or name == s for s in PASS_THROUGH)


def place_types(body, place):
    """Type dict before each projection element, plus the final type (list of len(p)+1)."""
    tys = [body.local_ty(place["l"])]
    cur = tys[0]
    for p in place["p"]:
        if p == "*":
            if cur["k"] in ("ref", "ptr"):
                cur = body.ty(cur["t"])
            elif cur["k"] == "adt" and cur["a"]:
                # Box<T>, Rc<T> … : first type argument
                a0 = cur["a"][0]
                cur = body.ty(a0) if isinstance(a0, int) else {"k": "other", "s": "?"}
            else:
                cur = {"k": "other", "s": "?"}
        elif p["k"] == "f":
            cur = body.ty(p["t"])
        elif p["k"] == "d":
            pass
        elif p["k"] in ("i", "ci"):
            if cur["k"] in ("slice", "array"):
                cur = body.ty(cur["t"])
            else:
                cur = {"k": "other", "s": "?"}
        else:
            cur = {"k": "other", "s": "?"}
        tys.append(cur)
    return tys


def field_of(F, body, place, adt_q):
    """If `place` projects (anywhere) through a field of ADT `adt_q`, return that field's name."""
    tys = place_types(body, place)
    for i, p in enumerate(place["p"]):
        if p != "*" and p["k"] == "f":
            base = tys[i]
            if base["k"] == "adt" and base["d"] == adt_q:
                return p["n"]
    return None


def field_write(F, body, place, adt_q):
    """Field name if the assignment target is exactly a field of `adt_q` (last projection)."""
    if not place["p"]:
        return None
    last = place["p"][-1]
    if last == "*" or last["k"] != "f":
        return None
    tys = place_types(body, place)
    base = tys[len(place["p"]) - 1]
    if base["k"] == "adt" and base["d"] == adt_q:
        return last["n"]
    return None


class Prov:
    def __init__(self, F, body):
        self.F = F
        self.body = body
        self.defs = {}      # local -> list of (kind, bb, idx, payload) for whole-local defs
        self.pdefs = {}     # placekey (with projections) -> same, for partial defs
        for bb, si, s in body.assigns():
            p = s["p"]
            if not p["p"]:
                self.defs.setdefault(p["l"], []).append(("assign", bb, si, s))
            else:
                self.pdefs.setdefault(pk(p), []).append(("assign", bb, si, s))
                self.defs.setdefault(p["l"], []).append(("partial", bb, si, s))
        for bb, t in body.calls():
            if t["k"] != "call":
                continue
            p = t["dst"]
            if not p["p"]:
                self.defs.setdefault(p["l"], []).append(("call", bb, None, t))
            else:
                self.pdefs.setdefault(pk(p), []).append(("call", bb, None, t))
        self._sub = False
        self.variant_fields = False
        self.with_base = False
        self.field_pick = "first"

    def _root_args(self, l, depth=0):
        """argument locals a reference-typed local ultimately points into (through copies / reborrows /
        pass-through calls / iterator items)"""
        if depth > 10:
            return set()
        ds = [d for d in self.defs.get(l, []) if d[0] != "partial"]
        if 1 <= l <= self.body.argc and not ds:
            return {l}
        out = set()
        if 1 <= l <= self.body.argc:
            out.add(l)
        for d in ds:
            if d[0] == "call":
                t = d[3]
                name = callee_name(t) or ""
                if is_pass_through(name) and t["xs"] and t["xs"][0]["k"] in ("copy", "move"):
                    out |= self._root_args(t["xs"][0]["l"], depth + 1)
            else:
                rv = d[3]["rv"]
                if rv["k"] in ("use", "cast") and rv["x"]["k"] in ("copy", "move"):
                    out |= self._root_args(rv["x"]["l"], depth + 1)
                elif rv["k"] in ("ref", "rawptr"):
                    out |= self._root_args(rv["p"]["l"], depth + 1)
        return out

    # ------------------------------------------------------------------------------------------

    def origins_op(self, op, through_arith=False, _seen=None):
        k = op["k"]
        if k == "const":
            if "v" in op:
                return {("const", op["v"])}
            if "str" in op:
                return {("const", op["str"])}
            t = self.body.ty(op["t"])
            if t["k"] == "fndef":
                return {("fn", t["d"])}
            return {("const", op.get("s"))}
        if k in ("copy", "move"):
            return self.origins_place(op, through_arith, _seen)
        return {("unknown", k)}

    def origins_place(self, place, through_arith=False, _seen=None):
        seen = _seen if _seen is not None else set()
        key = (pk(place), through_arith)
        if key in seen:
            return set()
        seen.add(key)
        body = self.body
        projs = place["p"]
        l = place["l"]
        # a field of an ADT reached through the place: the origin is that field (first ADT field wins)
        tys = place_types(body, place)
        cands = []
        for i, p in enumerate(projs):
            if p != "*" and p["k"] == "f":
                base = tys[i]
                if base["k"] == "adt":
                    # only treat as a *stored field* when the base is behind a reference/argument,
                    # i.e. not a locally built aggregate
                    if self._is_external_base(l, projs[:i]):
                        cands.append((i, p, base))
        if cands:
            i, p, base = cands[-1] if self.field_pick == "last" else cands[0]
            nm = p["n"]
            if self.variant_fields and i > 0 and projs[i - 1] != "*" and projs[i - 1]["k"] == "d":
                nm = "%s.%s" % (projs[i - 1]["v"], p["n"])
            if self.with_base:
                roots = self._root_args(l)
                return {("field", base["d"], nm, r) for r in roots} or {("field", base["d"], nm, None)}
            return {("field", base["d"], nm)}
        if not projs:
            return self._origins_local(l, through_arith, seen)
        # projections of a local aggregate / call result
        out = set()
        full = pk(place)
        for d in self.pdefs.get(full, []):
            out |= self._origins_def(d, [], through_arith, seen)
        ds = [d for d in self.defs.get(l, []) if d[0] != "partial"]
        if not ds and l <= body.argc and l >= 1:
            out.add(("arg", l, tuple(_pstr(p) for p in projs)))
        for d in ds:
            out |= self._origins_def(d, projs, through_arith, seen)
        return out

    def _is_external_base(self, l, prefix):
        # base is external if it goes through a deref, or the local is an argument
        if any(p == "*" for p in prefix):
            return True
        if 1 <= l <= self.body.argc:
            return True
        # local assigned from a reference-typed copy (e.g. `_170 = copy (*_1).5; &(*_170)`)
        return False

    def _origins_local(self, l, through_arith, seen):
        body = self.body
        ds = [d for d in self.defs.get(l, []) if d[0] != "partial"]
        out = set()
        if 1 <= l <= body.argc and not ds:
            return {("arg", l, ())}
        if 1 <= l <= body.argc:
            out.add(("arg", l, ()))
        for d in ds:
            out |= self._origins_def(d, [], through_arith, seen)
        if not ds and not out:
            # only partial defs: union of them
            for d in self.defs.get(l, []):
                out |= self._origins_def(("assign",) + d[1:], [], through_arith, seen)
        return out

    def _origins_def(self, d, projs, through_arith, seen):
        kind, bb, si, payload = d
        if kind == "call":
            t = payload
            name = callee_name(t) or "<indirect>"
            if is_pass_through(name) and t["xs"]:
                return self.origins_op(t["xs"][0], through_arith, seen) | (
                    self.origins_op(t["xs"][1], through_arith, seen)
                    if name.endswith("unwrap_or") or name.endswith("mem::replace") else set())
            if name.endswith("::len") and "::str" in name or name in ("<str>::len", "<[T]>::len", "<alloc::string::String>::len", "<alloc::vec::Vec>::len"):
                return {("len", name)}
            sub = self._through_new_helper(t, through_arith)
            if sub is not None:
                return sub
            return {("call", name) + ((tuple(_pstr(p) for p in projs),) if projs else ())}
        rv = payload["rv"]
        return self.origins_rv(rv, through_arith, seen, projs)

    def _through_new_helper(self, t, through_arith):
        """A helper function that did not exist on the reference tree is transparent: the origins of its result are the
        origins of what it returns, with its parameters replaced by the origins of the arguments at this call."""
        f = t["f"]
        q = f.get("r")
        depth = getattr(self, "_hdepth", 0)
        if not (f.get("rlocal") and q) or depth >= 3 or not self.F.is_new_fn(q) or q == self.body.fn.q:
            return None
        g = self.F.fn_opt(q)
        if g is None or g.body is None:
            return None
        P2 = Prov(self.F, g.body)
        P2._hdepth = depth + 1
        P2.variant_fields, P2.with_base, P2.field_pick = self.variant_fields, self.with_base, self.field_pick
        inner = P2.origins_place({"l": 0, "p": [], "t": g.body.locals[0]["t"]}, through_arith)
        out = set()
        for o in inner:
            if o and o[0] == "arg" and isinstance(o[1], int) and 1 <= o[1] <= len(t["xs"]):
                out |= self.origins_op(t["xs"][o[1] - 1], through_arith)
            else:
                out.add(o)
        if P2._sub:
            self._sub = True
        return out

    def origins_rv(self, rv, through_arith=False, _seen=None, projs=()):
        seen = _seen if _seen is not None else set()
        k = rv["k"]
        if k == "use":
            x = rv["x"]
            if projs and x["k"] in ("copy", "move"):
                x = dict(x)
                x["p"] = list(x["p"]) + list(projs)
                # type of the extended place is unknown here; origins_place only needs projections
                return self._origins_ext(x, through_arith, seen)
            return self.origins_op(x, through_arith, seen)
        if k in ("ref", "rawptr"):
            p = rv["p"]
            if projs:
                p = dict(p)
                # `&P` then `(*r).x`  ==  P.x : drop the leading deref of projs
                pr = list(projs)
                if pr and pr[0] == "*":
                    pr = pr[1:]
                p["p"] = list(p["p"]) + pr
                return self._origins_ext(p, through_arith, seen)
            return self.origins_place(p, through_arith, seen)
        if k == "cast":
            return self.origins_op(rv["x"], through_arith, seen)
        if k == "binop":
            op = rv["op"]
            if through_arith and (op.startswith("Add") or op.startswith("Sub") or op.startswith("Mul")):
                if op.startswith("Sub"):
                    self._sub = True
                return self.origins_op(rv["a"], through_arith, seen) | self.origins_op(rv["b"], through_arith, seen)
            return {("arith", op)}
        if k == "unop":
            if rv["op"] == "PtrMetadata":
                return {("len", "PtrMetadata")}
            return {("arith", rv["op"])}
        if k == "agg":
            if projs:
                # select the field
                first = projs[0]
                rest = projs[1:]
                if first != "*" and first["k"] == "d" and rest:
                    first, rest = rest[0], rest[1:]
                if first != "*" and first["k"] == "f" and first["i"] < len(rv["xs"]):
                    x = rv["xs"][first["i"]]
                    if rest and x["k"] in ("copy", "move"):
                        x = dict(x)
                        x["p"] = list(x["p"]) + list(rest)
                        return self._origins_ext(x, through_arith, seen)
                    return self.origins_op(x, through_arith, seen)
                return {("agg?",)}
            if rv["ak"] == "adt":
                return {("agg", rv["adt"], rv["v"])}
            return {("agg", rv["ak"])}
        if k == "discr":
            return {("discr",)}
        return {("unknown", k)}

    def _origins_ext(self, place, through_arith, seen):
        # place with synthetic projections (no reliable 't'); fix up the final type lazily
        if "t" not in place:
            place["t"] = 0
        return self.origins_place(place, through_arith, seen)

    def uses_sub(self, rv):
        self._sub = False
        self.origins_rv(rv, through_arith=True)
        return self._sub


def _pstr(p):
    if p == "*":
        return "*"
    if p["k"] == "f":
        return ".%d" % p["i"]
    if p["k"] == "d":
        return "@%s" % p["v"]
    return "?"


def read_before_write(F, body, adt_q, field, operand):
    """True iff `operand` (a local) is defined by a read of adt.field that precedes every write of that
    field in the same body (same block earlier, or in a dominating block)."""
    if operand["k"] not in ("copy", "move") or operand["p"]:
        return False
    target = operand["l"]
    reads = []
    writes = []
    # follow simple copies back to the field read
    frontier = {target}
    for _ in range(6):
        new = set()
        for bb, si, s in body.assigns():
            if s["p"]["p"] or s["p"]["l"] not in frontier:
                continue
            rv = s["rv"]
            if rv["k"] == "use" and rv["x"]["k"] in ("copy", "move"):
                x = rv["x"]
                if field_of(F, body, x, adt_q) == field:
                    reads.append((bb, si))
                elif not x["p"]:
                    new.add(x["l"])
        if not new:
            break
        frontier = new
    for bb, si, s in body.assigns():
        if field_write(F, body, s["p"], adt_q) == field:
            writes.append((bb, si))
    if not reads:
        return False
    dom = cfg.dominators(body.succ_map(), 0)
    for rb, ri in reads:
        for wb, wi in writes:
            if rb == wb:
                if ri >= wi:
                    return False
            elif rb not in dom.get(wb, set()):
                return False
    return True
