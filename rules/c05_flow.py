def run(F, rep):
    pass
