"""C05.R3 / R4 — the order of object fields in every document is the order of their names.

  R3  `SortedInternedStr` orders by the *text* of the names (`<str as Ord>::cmp` on `.value()`); the field list of an
      object is collected from a `BTreeMap<SortedInternedStr, _>`, and every manifester takes its fields from that list
  R4  the address-based order of `InternedStr` (derived `Ord` on the interned pointer) is not used by the evaluator,
      data model or manifesters: two runs would order the same names differently
"""
from . import cg
from .facts import callee_name

SORTED = "rsjsonnet_lang::interner::SortedInternedStr"
INTERNED = "rsjsonnet_lang::interner::InternedStr"
OBJD = "rsjsonnet_lang::program::data::ObjectData"


def run(F, rep):
    R = rep.rule("C05.R3", "object fields are listed in the order of their names: SortedInternedStr compares the names' text "
                 "(<str as Ord>), get_fields_order collects from a BTreeMap keyed by it, and nothing in the evaluator, the data "
                 "model or the manifesters orders names by the address-based Ord of InternedStr")
    # (a) the comparison methods of SortedInternedStr compare `.value()` strings
    n = 0
    for m, want in (("core::cmp::Ord>::cmp", "<str as core::cmp::Ord>::cmp"),):
        fn = F.fn("<%s as %s" % (SORTED, m))
        calls = [callee_name(t) or "" for _, t in fn.body.calls()]
        ok = want in calls and calls.count("<%s>::value" % INTERNED) == 2 and \
            not any(c.startswith("<%s as core::cmp::Ord" % INTERNED) or c.startswith("<%s as core::cmp::PartialOrd" % INTERNED)
                    for c in calls)
        if ok and any(c.startswith("<%s as core::cmp::PartialEq" % INTERNED) for c in calls):
            # an identity shortcut (`if self.0 == other.0 { return Equal }`) is sound — the same interned string has the same
            # text — as long as "identical" can only answer Equal or fall through to the text comparison
            from . import kwalk

            def hook(w, bb, t, env, args):
                c = callee_name(t) or ""
                if c.startswith("<%s as core::cmp::PartialEq" % INTERNED):
                    return 1 if c.endswith("::eq") else 0
                return None

            def on_term(w, bb, t, env):
                if t["k"] == "call" and (callee_name(t) or "") == want:
                    return ("text-cmp",)
                return None
            w = kwalk.Walker(F, fn.body, call_result=hook, on_term=on_term, want_ret=True)
            for kind, marks, ret in w.run(0, {}):
                if kind != "return":
                    continue
                top = dict(ret or ()).get("0")
                is_equal = top == 0 or (isinstance(top, tuple) and top[0] == "var" and top[2] == "Equal")
                if not (("text-cmp",) in marks or is_equal):
                    ok = False
            rep.states += w.states_explored
        n += 1
        rep.ob(R, "SortedInternedStr|cmp", ok, {"calls": calls})
        if not ok:
            rep.violation(R, "SortedInternedStr|cmp", "SortedInternedStr::cmp does not compare the two names' text with <str as Ord>::cmp "
                          "(calls: %s): field order would no longer be the order of the names" % calls, fn.loc)
    for m in ("lt", "le", "gt", "ge", "partial_cmp"):
        fn = F.fn_opt("<%s as core::cmp::PartialOrd>::%s" % (SORTED, m))
        if fn is None:
            continue
        calls = [callee_name(t) or "" for _, t in fn.body.calls()]
        ok = not any(c.startswith("<%s as core::cmp::Partial" % INTERNED) or c.startswith("<%s as core::cmp::Ord" % INTERNED) for c in calls) \
            and (("<%s as core::cmp::Ord>::cmp" % SORTED) in calls or calls.count("<%s>::value" % INTERNED) == 2)
        n += 1
        rep.ob(R, "SortedInternedStr|%s" % m, ok)
        if not ok:
            rep.violation(R, "SortedInternedStr|%s" % m, "SortedInternedStr::%s does not go through the names' text (calls: %s)" % (m, calls), fn.loc)
    # (b) get_fields_order builds its list from a BTreeMap<SortedInternedStr, _>
    gfo = F.fn("<%s>::get_fields_order" % OBJD)
    bodies = [gfo] + list(F.closures_of(gfo))
    has_btree = any("BTreeMap<interner::SortedInternedStr" in g.body.local_ty(l)["s"] or
                    "BTreeMap<rsjsonnet_lang::interner::SortedInternedStr" in g.body.local_ty(l)["s"]
                    for g in bodies for l in range(len(g.body.locals)))
    collects = any((callee_name(t) or "").endswith("Iterator::collect") or (callee_name(t) or "").endswith("Iterator>::collect")
                   for g in bodies for _, t in g.body.calls())
    hash_iter_collect = False
    ok = has_btree and collects
    n += 1
    rep.ob(R, "get_fields_order|sorted-map", ok, {"btreemap_keyed_by_sorted_name": has_btree})
    if not ok:
        rep.violation(R, "get_fields_order|sorted-map", "get_fields_order no longer collects the field list from a "
                      "BTreeMap<SortedInternedStr, _>: the list would follow hash or insertion order", gfo.loc)
    # (c) address-based order of InternedStr unused outside the interner and derives
    bad = []
    for fn in F.fn_list:
        if fn.crate.name != "rsjsonnet_lang" or fn.mac or "::interner::" in fn.q:
            continue
        if not ("::program::" in fn.q):
            continue
        for bb, t in fn.body.calls():
            c = callee_name(t) or ""
            if c.startswith("<%s as core::cmp::Ord" % INTERNED) or c.startswith("<%s as core::cmp::PartialOrd" % INTERNED):
                bad.append((fn, c, fn.body.span(t["sp"])))
    n += 1
    rep.ob(R, "InternedStr|address-order-unused", not bad)
    for fn, c, site in bad:
        rep.violation(R, "%s|address-order" % fn.q, "%s orders interned names by %s (the address of the interned string): the "
                      "order differs from run to run" % (fn.q, c), site)
    rep.floor(R, n, 4, "ordering obligations")
