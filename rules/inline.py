"""INLINE — straight-line helpers that did not exist on the reference tree are spliced into their callers (facts level).

Extracting a few statements into a private constructor-like helper (`ObjectData::from_layers(..)`, `GcBox::new_rc(..)`,
`new_pending_call_thunk(..)`) moves an aggregate construction or a call out of the function a rule reads.  The path walker, PROV and
ENVFLOW already read such helpers in place; rules that look for a *statement* in a given function (an aggregate, a call site) do not.
So, for every call of a local function that
  * is not listed in tables/known_fns.txt (it was introduced after the reference tree),
  * is not generic, not a closure, lives in the same crate as the caller,
  * has a straight-line body: its non-cleanup blocks form one chain of goto / call / drop / assert terminators ending in `return`
    (no `switchInt`: no decisions are hidden by the splice), of at most 24 blocks,
the callee's blocks are copied into the caller with fresh locals: parameters are assigned from the call's operands, the callee's
return place becomes a fresh local that is moved into the call's destination, `return` becomes a jump to the call's continuation.
Only helpers without branches are spliced, so allocation- and call-site identity of anything conditional is unchanged.  The helper
itself stays in the facts (rules that enumerate functions still see it, marked new).
"""
import copy
import os

HERE = os.path.dirname(os.path.dirname(os.path.abspath(__file__)))
MAX_BLOCKS = 24

_known = None


def known_fns():
    global _known
    if _known is None:
        try:
            with open(os.path.join(HERE, "tables", "known_fns.txt")) as fh:
                _known = frozenset(l.strip() for l in fh if l.strip())
        except OSError:
            _known = frozenset()
    return _known


def _chain(body):
    """ordered list of the non-cleanup blocks of a straight-line body, or None"""
    blocks = body["blocks"]
    order = []
    b = 0
    seen = set()
    while True:
        if b in seen or b >= len(blocks) or blocks[b].get("cleanup"):
            return None
        seen.add(b)
        order.append(b)
        t = blocks[b]["t"]
        k = t["k"]
        if k == "return":
            break
        if k == "goto":
            b = t["t"]
        elif k in ("call", "drop", "assert"):
            if t.get("t") is None:
                return None
            b = t["t"]
        else:
            return None
        if len(order) > MAX_BLOCKS:
            return None
    return order


def _remap(node, loff, boff, poff):
    """shift local / promoted indexes inside a copied MIR node (blocks are re-targeted separately)"""
    if isinstance(node, list):
        for x in node:
            _remap(x, loff, boff, poff)
        return
    if not isinstance(node, dict):
        return
    if isinstance(node.get("l"), int) and ("p" in node or node.get("k") in ("dead", "live", "i")):
        node["l"] += loff
    if node.get("k") == "const" and isinstance(node.get("promoted"), int):
        node["promoted"] += poff
    for v in node.values():
        if isinstance(v, (dict, list)):
            _remap(v, loff, boff, poff)


def _retarget(t, boff):
    k = t["k"]
    if k == "goto":
        t["t"] += boff
    elif k in ("call", "drop", "assert"):
        if t.get("t") is not None:
            t["t"] += boff
        if t.get("uw") is not None:
            t["uw"] += boff
    elif k == "switch":
        t["arms"] = [[v, b + boff] for v, b in t["arms"]]
        t["else"] += boff


def inline_crate(j):
    """splice straight-line new helpers into their callers; returns the list of (caller, helper) pairs"""
    known = known_fns()
    if not known:
        return []
    by_q = {}
    for f in j["fns"]:
        by_q.setdefault(f["q"], f)
    cands = {}
    for f in j["fns"]:
        q = f["q"]
        if q in known or "{closure" in q or f.get("generic") or f.get("mac"):
            continue
        ch = _chain(f["body"])
        if ch is None:
            continue
        # no call of itself or of another candidate-to-be is needed for correctness: calls are copied as they are
        cands[q] = ch
    done = []
    if not cands:
        return done
    for f in j["fns"]:
        body = f["body"]
        for _round in range(3):
            changed = False
            nb = len(body["blocks"])
            for bi in range(nb):
                blk = body["blocks"][bi]
                t = blk["t"]
                if t["k"] != "call" or blk.get("cleanup"):
                    continue
                fd = t["f"]
                if fd.get("k") != "def" or not fd.get("rlocal"):
                    continue
                q = fd.get("r")
                if q not in cands or q == f["q"]:
                    continue
                h = by_q[q]
                hb = h["body"]
                if len(t["xs"]) != hb["argc"]:
                    continue
                loff = len(body["locals"])
                boff = len(body["blocks"])
                poff = len(f.get("promoted") or [])
                # locals and promoted constants of the helper
                body["locals"].extend(copy.deepcopy(hb["locals"]))
                if h.get("promoted"):
                    f.setdefault("promoted", [])
                    f["promoted"].extend(copy.deepcopy(h["promoted"]))
                newblocks = copy.deepcopy(hb["blocks"])
                for nblk in newblocks:
                    _remap(nblk["s"], loff, boff, poff)
                    tt = nblk["t"]
                    for key in ("xs", "dst", "x", "p", "f"):
                        if key in tt:
                            _remap(tt[key], loff, boff, poff)
                    _retarget(tt, boff)
                # landing block: move the helper's return value into the call's destination, continue after the call
                landing = boff + len(newblocks)
                ret_ty = hb["locals"][0]["t"]
                for nblk in newblocks:
                    if nblk["t"]["k"] == "return":
                        nblk["t"] = {"k": "goto", "t": landing, "sp": nblk["t"].get("sp", t.get("sp"))}
                move_ret = {"k": "assign", "p": copy.deepcopy(t["dst"]),
                            "rv": {"k": "use", "x": {"k": "move", "l": loff, "p": [], "t": ret_ty}}, "sp": t.get("sp"), "mac": None}
                land_blk = {"s": [move_ret], "t": {"k": "goto", "t": t["t"], "sp": t.get("sp")} if t.get("t") is not None
                            else {"k": "unreachable", "sp": t.get("sp")}, "cleanup": False}
                # parameter prelude in the calling block, then jump to the helper's entry
                for pi, x in enumerate(t["xs"]):
                    pl = {"l": loff + pi + 1, "p": [], "t": hb["locals"][pi + 1]["t"]}
                    blk["s"].append({"k": "assign", "p": pl, "rv": {"k": "use", "x": copy.deepcopy(x)}, "sp": t.get("sp"), "mac": None})
                blk["t"] = {"k": "goto", "t": boff, "sp": t.get("sp")}
                body["blocks"].extend(newblocks)
                body["blocks"].append(land_blk)
                done.append((f["q"], q))
                changed = True
            if not changed:
                break
    return done
