"""PUSHGRAPH — the evaluator's state-push graph with trace-item coverage.

Nodes:  ("S", variant)  an evaluator state (the arm of `Evaluator::run` that handles it)
        ("F", qname)    an Evaluator method (handler or helper)
Edges:  X -> ("S", V)   X pushes State::V on the state stack
        X -> ("F", g)   X calls the Evaluator method g
        ("S", FnFallible/FnInfallible) -> ("F", g) for every reified `fn(&mut Evaluator)`
Each edge carries `cov` = the minimum, over all paths of X that reach the push/call, of the number of
trace items pushed by X before it and not yet delayed (HEIGHT's relative height at the site): a work
item pushed at height >= 1 runs while a frame of X is counted.

Per node the module also records *destructuring sites*: state pushes of `DoThunk(t)` where `t` is an
element of a container value that X popped from the value stack (not of a container X received as a
state payload) — the places where evaluation descends into a run-time value.
"""
from . import cfg, height, evalmarks as em
from .facts import callee_name, AnchorMissing, pk

EVAL = em.EVAL
STATE = em.STATE
VALUE = em.VALUE


def _is_state_ty(body, tidx):
    t = body.ty(tidx)
    return t["k"] == "adt" and t["d"] == STATE


def _stack_field(F, body, op, self_local=1):
    """name of the Evaluator stack a `&mut Vec<_>` operand points into (flow-insensitive)"""
    if op["k"] not in ("move", "copy") or op["p"]:
        return None
    fields = em.eval_fields(F)
    l = op["l"]
    for _ in range(4):
        d = None
        for bb, si, st in body.assigns():
            if st["p"]["l"] == l and not st["p"]["p"]:
                d = st["rv"]
                break
        if d is None:
            return None
        if d["k"] == "ref":
            p = d["p"]
            if p["l"] == self_local and len(p["p"]) >= 2 and p["p"][0] == "*" and p["p"][1] != "*" and p["p"][1]["k"] == "f":
                i = p["p"][1]["i"]
                return fields[i] if i < len(fields) else None
            if not p["p"] or p["p"] == ["*"]:
                l = p["l"]
                continue
            return None
        if d["k"] == "use" and d["x"]["k"] in ("move", "copy") and not d["x"]["p"]:
            l = d["x"]["l"]
            continue
        return None
    return None


class PushGraph:
    def __init__(self, F, rep=None):
        self.F = F
        self.H = height.Height(F)
        self.edges = {}      # node -> list of (dst node, cov, site)
        self.destr = {}      # node -> list of (site, cov, what)
        self.consumers = {}  # node -> list of (site of the forcing push, consumer node, cov of the consumer's push, its site)
        self.payforce = set()  # nodes that force an element of a container they received as an argument
        self.vscalls = []    # (node, callee node, cov, site): helper called with a container popped from the value stack
        self.unknown = []    # (node, site) pushes whose variant could not be determined
        self.run = F.fn("<%s>::run" % EVAL)
        self._build()

    # ---------------------------------------------------------------- per-body analysis
    def _defs(self, body):
        d = {}
        for bb, si, st in body.assigns():
            if not st["p"]["p"]:
                d.setdefault(st["p"]["l"], []).append((bb, si, st["rv"]))
        for bb, t in body.calls():
            if not t["dst"]["p"]:
                d.setdefault(t["dst"]["l"], []).append((bb, -1, {"k": "call", "t": t}))
        return d

    def _state_variants(self, body, defs, op, depth=0):
        """set of State variants an operand may hold (None = unknown)"""
        if op["k"] == "const":
            return None
        if op["p"]:
            return None
        out = set()
        for bb, si, rv in defs.get(op["l"], []):
            if rv["k"] == "agg" and rv["ak"] == "adt" and rv["adt"] == STATE:
                out.add((rv["v"], bb, si))
            elif rv["k"] == "use" and rv["x"]["k"] in ("move", "copy") and depth < 4:
                r = self._state_variants(body, defs, rv["x"], depth + 1)
                if r is None:
                    return None
                out |= r
            else:
                return None
        return out or None

    def _heights(self, body, entry, blocked=()):
        """min relative height at the *start* of each block reachable from entry"""
        err = height.error_blocks(body)
        dmin = {entry: 0}
        work = [entry]
        succ = body.succ_map()
        it = 0
        while work and it < 200000:
            it += 1
            b = work.pop()
            if b in err or body.blocks[b]["cleanup"]:
                continue
            t = body.blocks[b]["t"]
            w = 0
            if t["k"] == "call":
                w = self.H.effect_of_call(t)[0]
            a = dmin[b] + w
            for s in succ[b]:
                if s in blocked:
                    continue
                if s not in dmin or a < dmin[s]:
                    if s in dmin and dmin[s] <= -5:
                        continue
                    dmin[s] = max(a, -5)
                    work.append(s)
        return dmin

    def _thunk_origin(self, body, defs, op, depth=0, seen=None):
        """classify where the thunk operand of DoThunk(..) comes from: set of tags
        'vs' (a value popped from the value stack), 'payload' (argument / state payload), 'other'"""
        seen = seen or set()
        tags = set()
        if op["k"] == "const":
            return {"other"}
        l = op["l"]
        if l in seen or depth > 40:
            return tags
        seen = seen | {l}
        if l <= body.argc and l != 0:
            return {"payload"}
        ds = defs.get(l, [])
        if not ds:
            return {"payload"}     # pattern-bound from the matched state: no def in this body
        for bb, si, rv in ds:
            k = rv["k"]
            if k == "call":
                t = rv["t"]
                n = callee_name(t) or ""
                if n == "<alloc::vec::Vec>::pop":
                    st = _stack_field(self.F, body, t["xs"][0])
                    tags.add("vs" if st == "value_stack" else "other")
                    continue
                if n in ("<[T]>::last", "<[T]>::last_mut", "<[T]>::first", "<[T]>::get", "<[T]>::get_mut", "<[T]>::split_last"):
                    # peeking at the value stack (through the Vec's deref to a slice) hands out a run-time value like a pop does
                    if self._stack_slice(body, defs, t["xs"][0]) == "value_stack":
                        tags.add("vs")
                        continue
                if n.startswith("<%s>::" % EVAL) and "expect_std_func_arg" in n:
                    # the argument helpers hand back the payload of the value they are given
                    for a in t["xs"][1:2]:
                        tags |= self._thunk_origin(body, defs, a, depth + 1, seen)
                    continue
                for a in t["xs"]:
                    if a["k"] in ("move", "copy"):
                        tags |= self._thunk_origin(body, defs, a, depth + 1, seen)
                if not t["xs"]:
                    tags.add("other")
            elif k in ("use", "cast"):
                x = rv["x"]
                if x["k"] in ("move", "copy"):
                    tags |= self._thunk_origin(body, defs, {"k": "copy", "l": x["l"], "p": []}, depth + 1, seen)
                else:
                    tags.add("other")
            elif k in ("ref", "rawptr", "discr"):
                tags |= self._thunk_origin(body, defs, {"k": "copy", "l": rv["p"]["l"], "p": []}, depth + 1, seen)
            elif k == "agg":
                for a in rv["xs"]:
                    if a["k"] in ("move", "copy"):
                        tags |= self._thunk_origin(body, defs, {"k": "copy", "l": a["l"], "p": []}, depth + 1, seen)
            else:
                tags.add("other")
        return tags

    def _stack_slice(self, body, defs, op):
        """name of the Evaluator stack a `&[T]` operand is the deref of"""
        if op["k"] not in ("move", "copy") or op["p"]:
            return None
        for bb, si, rv in defs.get(op["l"], []):
            if rv["k"] == "call":
                n = callee_name(rv["t"]) or ""
                if n.endswith("core::ops::deref::Deref>::deref") or n.endswith("core::ops::deref::DerefMut>::deref_mut") \
                        or n in ("<alloc::vec::Vec>::as_slice", "<alloc::vec::Vec>::as_mut_slice"):
                    return _stack_field(self.F, body, rv["t"]["xs"][0])
            elif rv["k"] in ("use", "cast") and rv["x"]["k"] in ("move", "copy") and not rv["x"]["p"]:
                return self._stack_slice(body, defs, rv["x"])
            elif rv["k"] == "ref" and rv["p"]["p"] in ([], ["*"]):
                r = self._stack_slice(body, defs, {"k": "copy", "l": rv["p"]["l"], "p": []})
                if r is not None:
                    return r
        return None

    def _scan(self, node, body, entry, blocked=()):
        defs = self._defs(body)
        dmin = self._heights(body, entry, blocked)
        succ = body.succ_map()
        seen = cfg.reachable(succ, [entry], blocked_nodes=list(blocked))
        err = height.error_blocks(body)
        out = self.edges.setdefault(node, [])
        for b in sorted(seen):
            if body.blocks[b]["cleanup"] or b not in dmin:
                continue
            t = body.blocks[b]["t"]
            if t["k"] != "call":
                continue
            n = callee_name(t) or ""
            h = dmin[b]
            site = body.span(t["sp"])
            if n == "<alloc::vec::Vec>::push":
                if _stack_field(self.F, body, t["xs"][0]) != "state_stack":
                    continue
                vs = self._state_variants(body, defs, t["xs"][1])
                if vs is None:
                    vs = self._param_state_variants(node, body, t["xs"][1])
                if vs is None:
                    self.unknown.append((node, site))
                    continue
                for v, vbb, vsi in vs:
                    out.append((("S", v), h, site))
                    if vbb < 0:
                        continue            # variant known from the callers of a helper: no aggregate in this body to look into
                    if v in ("FnFallible", "FnInfallible"):
                        rv = body.blocks[vbb]["s"][vsi]["rv"]
                        tgt = self._fn_const(body, defs, rv["xs"][0])
                        for g in tgt:
                            out.append((("F", g), h, site))
                        if not tgt:
                            self.unknown.append((node, site))
                    if v == "DoThunk":
                        rv = body.blocks[vbb]["s"][vsi]["rv"]
                        tags = self._thunk_origin(body, defs, rv["xs"][0])
                        if "vs" in tags:
                            self.destr.setdefault(node, []).append((site, h, sorted(tags)))
                            for cv, ch, csite in self._consumers(body, defs, dmin, b, seen):
                                self.consumers.setdefault(node, []).append((site, ("S", cv), ch, csite))
                        if "payload" in tags and node[0] == "F":
                            self.payforce.add(node)
            elif n.startswith("<%s>::" % EVAL):
                g = self.F.fn_opt(n)
                if g is not None and n.rsplit("::", 1)[1] not in ("push_trace_item", "delay_trace_item", "inc_trace_len",
                                                                "dec_trace_len", "report_error", "get_stack_trace"):
                    out.append((("F", n), h, site))
                    atags = set()
                    for a in t["xs"][1:]:
                        if a["k"] in ("move", "copy"):
                            atags |= self._thunk_origin(body, defs, {"k": "copy", "l": a["l"], "p": []})
                    if "vs" in atags:
                        self.vscalls.append((node, ("F", n), h, site))

    def _param_state_variants(self, node, body, op):
        """a helper introduced after the reference tree that pushes a state it received as a parameter: the variants are the
        ones its callers hand in"""
        if node[0] != "F" or not self.F.is_new_fn(node[1]) or op["k"] not in ("copy", "move") or op["p"]:
            return None
        l = op["l"]
        for _ in range(4):
            if 1 <= l <= body.argc:
                break
            ds = [st["rv"] for bb, si, st in body.assigns() if st["p"]["l"] == l and not st["p"]["p"]]
            if len(ds) == 1 and ds[0]["k"] == "use" and ds[0]["x"]["k"] in ("copy", "move") and not ds[0]["x"]["p"]:
                l = ds[0]["x"]["l"]
            else:
                return None
        if not (1 <= l <= body.argc):
            return None
        out = set()
        for g in self.F.fn_list:
            if g.crate.name != "rsjsonnet_lang":
                continue
            d2 = None
            for bb, t in g.body.calls():
                if (t["f"].get("r") or callee_name(t)) == node[1] and len(t["xs"]) >= l:
                    d2 = d2 or self._defs(g.body)
                    vs = self._state_variants(g.body, d2, t["xs"][l - 1])
                    if vs is None:
                        return None
                    out |= {(v, -1, -1) for v, _, _ in vs}
        return out or None

    def _consumers(self, body, defs, dmin, b, seen):
        """the states that run right after a `DoThunk(element)` pushed at block b, i.e. the consumers of the element's value: on
        every backward path the nearest earlier push onto the state stack that is neither a DoThunk nor a trace-item marker.
        Returns [(variant, height at that push, site)]."""
        pred = {}
        for x in seen:
            for y in body.succs(x):
                pred.setdefault(y, []).append(x)
        out = []
        done = set()
        work = list(pred.get(b, []))
        while work:
            x = work.pop()
            if x in done or x not in seen:
                continue
            done.add(x)
            t = body.blocks[x]["t"]
            if t["k"] == "call" and (callee_name(t) or "") == "<alloc::vec::Vec>::push" \
                    and _stack_field(self.F, body, t["xs"][0]) == "state_stack":
                vs = self._state_variants(body, defs, t["xs"][1])
                if vs is not None and any(v not in ("DoThunk",) for v, _, _ in vs):
                    for v, _, _ in vs:
                        if v != "DoThunk":
                            out.append((v, dmin.get(x, 0), body.span(t["sp"])))
                    continue
            work.extend(pred.get(x, []))
        return out

    def _fn_const(self, body, defs, op, depth=0):
        """function(s) a fn-pointer operand was reified from"""
        def of_const(c):
            t = body.ty(c["t"]) if "t" in c else None
            if t and t["k"] == "fndef":
                return {t["d"]}
            return set()
        if op["k"] == "const":
            return of_const(op)
        out = set()
        for bb, si, rv in defs.get(op["l"], []):
            if rv["k"] == "cast" and rv["x"]["k"] == "const":
                out |= of_const(rv["x"])
            elif rv["k"] in ("use", "cast") and rv["x"]["k"] in ("move", "copy") and depth < 4:
                out |= self._fn_const(body, defs, rv["x"], depth + 1)
        return out

    # ---------------------------------------------------------------- whole graph
    def arm_entries(self):
        """State variant -> entry block of its arm in Evaluator::run, plus the set of loop-tail blocks"""
        body = self.run.body
        a = self.F.adt(STATE)
        names = [v["n"] for v in a["variants"]]
        # the switch on the discriminant of the popped state: the switch with the most arms
        best = None
        for i, b in enumerate(body.blocks):
            t = b["t"]
            if t["k"] == "switch" and (best is None or len(t["arms"]) > len(body.blocks[best]["t"]["arms"])):
                best = i
        if best is None or len(body.blocks[best]["t"]["arms"]) < len(names) // 2:
            raise AnchorMissing("Evaluator::run: the dispatch on State")
        t = body.blocks[best]["t"]
        ent = {}
        for v, tgt in t["arms"]:
            if 0 <= v < len(names):
                ent[names[v]] = tgt
        return best, ent

    def _build(self):
        F = self.F
        body = self.run.body
        sw, ent = self.arm_entries()
        # the loop tail: blocks that call maybe_gc / compare with max_stack; cut at the dispatch block
        tail = set()
        for bb, t in body.calls():
            if (callee_name(t) or "") == "<%s>::maybe_gc" % em.PROGRAM:
                tail.add(bb)
        for v, e in ent.items():
            self._scan(("S", v), body, e, blocked=tail | {sw})
        for fn in F.fn_list:
            if fn.crate.name != "rsjsonnet_lang":
                continue
            q = fn.q
            if q.startswith("<%s>::" % EVAL) and q != self.run.q and "{closure" not in q:
                self._scan(("F", q), fn.body, 0)
        # closures of evaluator methods are scanned as part of the call edges' targets when they take &mut Evaluator:
        for fn in F.fn_list:
            if fn.crate.name == "rsjsonnet_lang" and fn.q.startswith("<%s>::" % EVAL) and "{closure" in fn.q:
                self._scan(("F", fn.q), fn.body, 0)
                parent = fn.q.split("::{closure")[0]
                self.edges.setdefault(("F", parent), []).append((("F", fn.q), 0, fn.loc))
        self.link_helpers()

    def link_helpers(self):
        """a helper that forces elements of a container argument, called with a popped container, is a
        destructuring site of the caller"""
        for node, callee, h, site in self.vscalls:
            if callee in self.payforce:
                self.destr.setdefault(node, []).append((site, h, ["vs", "via:" + callee[1].rsplit("::", 1)[-1]]))

    def zero_graph(self):
        g = {}
        for n, es in self.edges.items():
            for d, cov, site in es:
                if cov <= 0:
                    g.setdefault(n, set()).add(d)
                g.setdefault(d, set())
            g.setdefault(n, set())
        return g
