"""RENAMES — see through renamed (and moved) functions, types, enum variants and struct fields.

The rules address the program by the resolved names of the type-checked program (def-paths, variant and field names).  A
behaviour-preserving edit that renames one of them must not change any verdict, so before the rules run the extracted facts are
*normalised to the names of the reference tree*: `tables/ref_shapes.json` records, for the reference tree, every local ADT's layout
and every local function's signature and call fingerprint; an item of that table that is missing from the current tree is matched
with an item of the current tree that the table does not know —

  types      same kind, same number of variants, same field types per variant (names ignored)
  variants   same position and payload types (or, when the variants were also reordered, a unique payload signature)
  fields     same position and type (or a unique type)
  functions  same signature (after the type renames), best call-fingerprint similarity, one-to-one

— and the current name is replaced by the reference name everywhere in the facts (def-paths textually, variant / field names
structurally through the owner type the driver records on each projection).  Only the *names* change: bodies, types and call
graph stay those of the current tree, so every rule still decides on the current code.  What was renamed is listed in the
evidence.  An item that cannot be matched unambiguously keeps its new name; the rule that needs it then fails closed (anchor
missing) exactly as before.
"""
import json
import os
import re

HERE = os.path.dirname(os.path.dirname(os.path.abspath(__file__)))
REF = os.path.join(HERE, "tables", "ref_shapes.json")

_ref_cache = None


def ref():
    global _ref_cache
    if _ref_cache is None:
        try:
            with open(REF) as fh:
                _ref_cache = json.load(fh)
        except OSError:
            _ref_cache = {"adts": {}, "fns": {}}
    return _ref_cache


# ---------------------------------------------------------------------------------------------------------------------
# shapes

def _ty_s(cj, t):
    try:
        return cj["types"][t]["s"]
    except Exception:
        return "?"


def adt_shape(c, a):
    cj = c.j if hasattr(c, "j") else c
    return {"crate": cj["meta"]["crate"], "kind": a.get("kind"),
            "variants": [{"n": v["n"], "fields": [{"n": f["n"], "ts": _ty_s(cj, f["t"])} for f in v["fields"]]} for v in a["variants"]]}


def _callees(body):
    out = []
    for b in body["blocks"]:
        t = b["t"]
        if t["k"] == "call":
            f = t["f"]
            if f["k"] == "def":
                out.append(f.get("r") or f.get("d") or "?")
        for s in b["s"]:
            if s["k"] == "assign" and s["rv"]["k"] == "agg" and s["rv"].get("ak") == "adt":
                out.append("new:%s::%s" % (s["rv"].get("adt"), s["rv"].get("v")))
    return out


def fn_shape(c, fj):
    cj = c.j if hasattr(c, "j") else c
    body = fj["body"]
    argc = body["argc"]
    sig = [_ty_s(cj, body["locals"][i]["t"]) for i in range(0, argc + 1)]
    return {"crate": cj["meta"]["crate"], "kind": fj["kind"], "parent": fj.get("parent"), "name": fj.get("name"),
            "mac": fj.get("mac"), "sig": sig, "fp": sorted(set(_callees(body))), "nb": len(body["blocks"])}


# ---------------------------------------------------------------------------------------------------------------------
# matching

def _norm_ts(s, type_map):
    """type display strings use crate-relative paths: replace the relative path (or, failing that, the last segment) of renamed
    or moved types"""
    for new, old in type_map.items():
        nrel, orel = new.split("::", 1)[-1], old.split("::", 1)[-1]
        if nrel != orel and nrel in s:
            s = re.sub(r"(?<![A-Za-z0-9_:])%s(?![A-Za-z0-9_])" % re.escape(nrel), orel, s)
            continue
        ns, os_ = new.split("::")[-1], old.split("::")[-1]
        if ns != os_:
            s = re.sub(r"(?<![A-Za-z0-9_])%s(?![A-Za-z0-9_])" % re.escape(ns), os_, s)
    return s


def _variant_sig(v, type_map):
    return tuple(_norm_ts(f["ts"], type_map) for f in v["fields"])


def match_adts(cur_adts, R):
    """cur_adts: q -> shape (current tree, local).  Returns {current path: reference path}."""
    missing = [q for q in R["adts"] if q not in cur_adts]
    new = [q for q in cur_adts if q not in R["adts"]]
    out = {}
    used = set()
    for q in sorted(missing):
        r = R["adts"][q]
        cands = []
        for n in new:
            if n in used:
                continue
            c = cur_adts[n]
            if c["crate"] != r["crate"] or c["kind"] != r["kind"] or len(c["variants"]) != len(r["variants"]):
                continue
            if all(len(a["fields"]) == len(b["fields"]) for a, b in zip(c["variants"], r["variants"])):
                # field types must agree position-wise, ignoring the type's own name
                own = {n: q}
                ok = True
                for a, b in zip(c["variants"], r["variants"]):
                    for fa, fb in zip(a["fields"], b["fields"]):
                        if _norm_ts(fa["ts"], own) != fb["ts"]:
                            ok = False
                if ok:
                    names = sum(1 for a, b in zip(c["variants"], r["variants"]) if a["n"] == b["n"])
                    fnames = sum(1 for a, b in zip(c["variants"], r["variants"]) for fa, fb in zip(a["fields"], b["fields"]) if fa["n"] == fb["n"])
                    same_parent = n.rsplit("::", 1)[0] == q.rsplit("::", 1)[0]
                    cands.append((names + fnames + (2 if same_parent else 0), n))
        if not cands:
            continue
        cands.sort(reverse=True)
        if len(cands) == 1 or cands[0][0] > cands[1][0]:
            out[cands[0][1]] = q
            used.add(cands[0][1])
    return out


def match_members(cur, refshape, type_map):
    """variant and field renames of one ADT: returns (variant map {cur: ref}, field map {(ref variant, cur field): ref field})"""
    vmap, fmap = {}, {}
    cv, rv = cur["variants"], refshape["variants"]
    cur_names = [v["n"] for v in cv]
    ref_names = [v["n"] for v in rv]
    pair = {}
    if set(cur_names) != set(ref_names) and cur.get("kind") == "enum":
        lost = [n for n in ref_names if n not in cur_names]
        fresh = [n for n in cur_names if n not in ref_names]
        if len(cv) == len(rv):
            for i, (a, b) in enumerate(zip(cv, rv)):
                if b["n"] in lost and a["n"] in fresh and _variant_sig(a, type_map) == _variant_sig(b, type_map):
                    vmap[a["n"]] = b["n"]
        for b in rv:
            if b["n"] in lost and b["n"] not in vmap.values():
                cs = [a for a in cv if a["n"] in fresh and a["n"] not in vmap and _variant_sig(a, type_map) == _variant_sig(b, type_map)]
                bs = [x for x in rv if x["n"] in lost and x["n"] not in vmap.values() and _variant_sig(x, type_map) == _variant_sig(b, type_map)]
                if len(cs) == 1 and len(bs) == 1:
                    vmap[cs[0]["n"]] = b["n"]
    for a in cv:
        rn = vmap.get(a["n"], a["n"])
        b = next((x for x in rv if x["n"] == rn), None)
        if b is None and cur.get("kind") != "enum" and len(cv) == 1 and len(rv) == 1:
            b = rv[0]
        if b is None:
            continue
        pair[a["n"]] = b
        cf = [f["n"] for f in a["fields"]]
        rf = [f["n"] for f in b["fields"]]
        if set(cf) == set(rf):
            continue
        lost = [n for n in rf if n not in cf]
        fresh = [n for n in cf if n not in rf]
        done = {}
        if len(cf) == len(rf):
            for fa, fb in zip(a["fields"], b["fields"]):
                if fb["n"] in lost and fa["n"] in fresh and _norm_ts(fa["ts"], type_map) == fb["ts"]:
                    done[fa["n"]] = fb["n"]
        for fb in b["fields"]:
            if fb["n"] in lost and fb["n"] not in done.values():
                cs = [fa for fa in a["fields"] if fa["n"] in fresh and fa["n"] not in done and _norm_ts(fa["ts"], type_map) == fb["ts"]]
                bs = [x for x in b["fields"] if x["n"] in lost and x["n"] not in done.values() and x["ts"] == fb["ts"]]
                if len(cs) == 1 and len(bs) == 1:
                    done[cs[0]["n"]] = fb["n"]
        for k, v in done.items():
            fmap[(a["n"], k)] = v
    return vmap, fmap


def match_fns(cur_fns, R, type_map):
    """cur_fns: q -> shape.  Returns {current path: reference path} for plain functions / methods (closures follow their parent)."""
    def plain(q, sh):
        return "{closure" not in q and not sh.get("mac")
    missing = [q for q, sh in R["fns"].items() if q not in cur_fns and plain(q, sh)]
    new = [q for q, sh in cur_fns.items() if q not in R["fns"] and plain(q, sh)]
    if not missing or not new:
        return {}
    # renamed callees must not spoil the fingerprints: compare with the names both sides know
    known = set(R["fns"]) & set(cur_fns)
    cands = []
    for q in missing:
        r = R["fns"][q]
        rsig = r["sig"]
        rfp = set(x for x in r["fp"] if x in known or not x.startswith(("rsjsonnet", "<rsjsonnet")))
        for n in new:
            c = cur_fns[n]
            if c["crate"] != r["crate"] or len(c["sig"]) != len(rsig):
                continue
            if c["kind"] != r["kind"] and not {c["kind"], r["kind"]} <= {"Fn", "AssocFn"}:
                continue
            if [_norm_ts(s, type_map) for s in c["sig"]] != rsig:
                continue
            cfp = set(x for x in c["fp"] if x in known or not x.startswith(("rsjsonnet", "<rsjsonnet")))
            inter, union = len(rfp & cfp), len(rfp | cfp)
            sim = (inter / union) if union else 1.0
            same_parent = (c.get("parent") == r.get("parent"))
            size = min(c["nb"], r["nb"]) / max(c["nb"], r["nb"], 1)
            score = sim + (0.3 if same_parent else 0.0) + 0.2 * size
            cands.append((score, sim, same_parent, q, n))
    cands.sort(reverse=True)
    out, used_q, used_n = {}, set(), set()
    for score, sim, same_parent, q, n in cands:
        if q in used_q or n in used_n:
            continue
        # a match needs real evidence: similar calls, or the only function of that signature in the same impl / module
        rivals = [x for x in cands if (x[3] == q and x[4] != n and x[4] not in used_n) or (x[4] == n and x[3] != q and x[3] not in used_q)]
        if sim >= 0.6 or (same_parent and not rivals) or (sim >= 0.4 and not [x for x in rivals if x[0] > score - 0.25]):
            out[n] = q
            used_q.add(q)
            used_n.add(n)
    return out


# ---------------------------------------------------------------------------------------------------------------------
# applying

def _sub_paths(text, path_map):
    if not path_map:
        return text
    # longest first, so that a nested item's path is rewritten through its parent's rule only once
    items = sorted(path_map.items(), key=lambda kv: -len(kv[0]))
    rx = re.compile("|".join("(?<![A-Za-z0-9_])%s(?![A-Za-z0-9_])" % re.escape(k) for k, _ in items))
    return rx.sub(lambda m: path_map[m.group(0)], text)


def _walk_members(node, types, vmaps, fmaps):
    """rename variant / field names structurally (projections carry their owner type index `o`)"""
    if isinstance(node, list):
        for x in node:
            _walk_members(x, types, vmaps, fmaps)
        return
    if not isinstance(node, dict):
        return
    k = node.get("k")
    if k == "d" and "o" in node and "v" in node:
        ot = types[node["o"]]
        q = ot.get("d") if ot.get("k") == "adt" else None
        if q in vmaps and node["v"] in vmaps[q]:
            node["v"] = vmaps[q][node["v"]]
    elif k == "agg" and node.get("ak") == "adt":
        q = node.get("adt")
        if q in fmaps and isinstance(node.get("fn"), list):
            fm = fmaps[q]
            node["fn"] = [next((rf for (vn, cf), rf in fm.items() if cf == n and (vn == node.get("v") or True)), n) for n in node["fn"]]
        if q in vmaps and node.get("v") in vmaps[q]:
            node["v"] = vmaps[q][node["v"]]
    for v in node.values():
        if isinstance(v, (dict, list)):
            _walk_members(v, types, vmaps, fmaps)


def _walk_fields(place_holder, types, vmaps, fmaps):
    """second pass for field names: needs the variant selected by the preceding downcast, so it works on projection lists"""
    if isinstance(place_holder, list):
        # a projection list?
        if place_holder and all(x == "*" or (isinstance(x, dict) and "k" in x and x["k"] in ("f", "d", "i", "ci", "ss")) for x in place_holder):
            cur_variant = None
            for x in place_holder:
                if x == "*":
                    cur_variant = None
                    continue
                if x["k"] == "d":
                    cur_variant = x.get("v")
                    continue
                if x["k"] == "f" and "o" in x:
                    ot = types[x["o"]]
                    q = ot.get("d") if ot.get("k") == "adt" else None
                    fm = fmaps.get(q)
                    if fm:
                        for (vn, cf), rf in fm.items():
                            if cf == x.get("n") and (cur_variant is None or vn == cur_variant or True):
                                x["n"] = rf
                                break
                cur_variant = None
            return
        for x in place_holder:
            _walk_fields(x, types, vmaps, fmaps)
        return
    if isinstance(place_holder, dict):
        for v in place_holder.values():
            if isinstance(v, (dict, list)):
                _walk_fields(v, types, vmaps, fmaps)


def normalise(texts):
    """texts: {file name: raw JSON text of one crate's facts}.  Returns ({file name: parsed JSON}, report)."""
    R = ref()
    parsed = {k: json.loads(t) for k, t in texts.items()}
    report = {"types": {}, "variants": {}, "fields": {}, "functions": {}}
    if not R["adts"] and not R["fns"]:
        return parsed, report
    main = {k: j for k, j in parsed.items() if not j["meta"]["target_kind"].startswith("test")}
    cur_adts = {}
    for j in main.values():
        for a in j["adts"]:
            if a.get("local"):
                cur_adts[a["q"]] = adt_shape(j, a)
    type_map = match_adts(cur_adts, R)
    # functions (signatures are compared after the type renames)
    cur_fns = {}
    for j in main.values():
        for f in j["fns"]:
            cur_fns[f["q"]] = fn_shape(j, f)
    fn_map = match_fns(cur_fns, R, type_map)
    path_map = dict(type_map)
    path_map.update(fn_map)
    if path_map:
        texts = {k: _sub_paths(t, path_map) for k, t in texts.items()}
        parsed = {k: json.loads(t) for k, t in texts.items()}
        for j in parsed.values():
            for f in j["fns"]:
                if f["q"] in fn_map.values() and "{closure" not in f["q"]:
                    f["name"] = f["q"].rsplit("::", 1)[-1]
        report["types"] = {k: v for k, v in type_map.items()}
        report["functions"] = {k: v for k, v in fn_map.items()}
    # members, on the path-normalised facts
    vmaps, fmaps = {}, {}
    for j in parsed.values():
        if j["meta"]["target_kind"].startswith("test"):
            continue
        for a in j["adts"]:
            if not a.get("local") or a["q"] not in R["adts"]:
                continue
            vm, fm = match_members(adt_shape(j, a), R["adts"][a["q"]], {})
            if vm:
                vmaps[a["q"]] = vm
            if fm:
                fmaps[a["q"]] = fm
    if vmaps or fmaps:
        for j in parsed.values():
            types = j["types"]
            for a in j["adts"]:
                q = a["q"]
                if q in vmaps or q in fmaps:
                    for v in a["variants"]:
                        for f in v["fields"]:
                            for (vn, cf), rf in fmaps.get(q, {}).items():
                                if vn == v["n"] and cf == f["n"]:
                                    f["n"] = rf
                        if v["n"] in vmaps.get(q, {}):
                            v["n"] = vmaps[q][v["n"]]
            for f in j["fns"]:
                for body in [f["body"]] + list(f.get("promoted") or []):
                    if vmaps or fmaps:
                        _walk_members(body["blocks"], types, vmaps, fmaps)
                    if fmaps:
                        _walk_fields(body["blocks"], types, vmaps, fmaps)
        report["variants"] = {q: vm for q, vm in vmaps.items()}
        report["fields"] = {q: {"%s.%s" % k: v for k, v in fm.items()} for q, fm in fmaps.items()}
    return parsed, report
