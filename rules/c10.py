"""C10 — recursion depth is bounded by the configured limit and fails gracefully.

Decided clauses:
  R1  the frame counter is maintained only through its API: trace-item states are built only by
      push_trace_item/delay_trace_item, stack_trace_len is written only by inc/dec (and eval),
      max_stack is read only by the limit test and written only by new/set_max_stack, and every
      iteration of the evaluator loop passes the limit test
  R2  push/delay pairing and loop balance (HEIGHT): no delay without an earlier push in the same
      handler, and no loop with a positive net number of pushed trace items
  R3  a thunk found in progress is reported as infinite recursion (decision table over ThunkState)
  R4  the evaluator, comparison, manifestation and string-conversion code is free of native
      recursion (shared with C01.R1)
  R5  no descent into a run-time value without a counted frame (state-push graph with trace-item
      coverage: a handler that forces elements of a popped container is not re-entered frame-free)
Not decided: nesting through expression evaluation beyond R2/R5; the exact off-by-one.
"""
from . import cg, kwalk, evalmarks as em, height, prov
from .facts import callee_name

EXPLANATION = (
    "Static analysis: who-may-construct / who-may-write / who-may-read queries over MIR for the frame "
    "counter and the limit; a weighted-CFG analysis (+1 push, -1 delay, callee summaries) of every "
    "Evaluator method for underflow and positive cycles; a decision table of the DoThunk arm over "
    "ThunkState; call-graph SCCs restricted to evaluator code."
)

EVAL = em.EVAL
STATE = em.STATE
PROGRAM = em.PROGRAM
THUNKSTATE = "rsjsonnet_lang::program::data::ThunkState"


def rule_r1(F, rep):
    R = rep.rule("C10.R1", "the logical frame counter can only change through push_trace_item/delay_trace_item "
                 "and the two trace-item states, the limit is consulted in exactly one comparison on every "
                 "evaluator iteration, and nothing else depends on the limit (raising it cannot change an outcome "
                 "other than through that comparison)")
    lang = ("rsjsonnet_lang",)
    allowed_ctor = {"TraceItem": "<%s>::push_trace_item" % EVAL, "DelayedTraceItem": "<%s>::delay_trace_item" % EVAL}
    for variant, owner in allowed_ctor.items():
        sites = cg.who_constructs(F, STATE, variant, crates=lang)
        for fn, bb, si, s in sites:
            ok = fn.q == owner
            rep.ob(R, "construct|%s|%s" % (variant, fn.q), ok, {"state": variant, "fn": fn.q})
            if not ok:
                rep.violation(R, "%s|constructs|State::%s" % (fn.q, variant),
                              "State::%s is constructed outside %s: the counter and the state stack can diverge"
                              % (variant, owner.rsplit("::", 1)[1]), fn.body.span(s["sp"]))
        if not any(fn.q == owner for fn, _, _, _ in sites):
            rep.violation(R, "%s|no-ctor|%s" % (owner, variant), "%s no longer constructs State::%s" % (owner, variant))
    # stack_trace_len writers
    ws = cg.who_writes_field(F, EVAL, "stack_trace_len", crates=lang)
    # the two counter primitives, and the only functions allowed to call them (a primitive inlined into one of those is the same
    # discipline: the counter moves only inside the trace-item API and the dispatcher)
    allowed_w = {"<%s>::inc_trace_len" % EVAL, "<%s>::dec_trace_len" % EVAL,
                 "<%s>::push_trace_item" % EVAL, "<%s>::delay_trace_item" % EVAL, "<%s>::run" % EVAL}
    for fn, bb, si, s in ws:
        ok = fn.q in allowed_w
        rep.ob(R, "write|stack_trace_len|%s" % fn.q, ok, {"fn": fn.q})
        if not ok:
            rep.violation(R, "%s|writes|stack_trace_len" % fn.q, "Evaluator.stack_trace_len is written outside "
                          "the trace-item API (inc_trace_len/dec_trace_len, push_trace_item, delay_trace_item, the dispatcher)", fn.body.span(s["sp"]))
    rep.floor(R, len(ws), 2, "stack_trace_len writers")
    # inc/dec callers
    for name, owners in (("inc_trace_len", {"push_trace_item", "run"}), ("dec_trace_len", {"delay_trace_item", "run"})):
        for fn, bb, t in cg.who_calls(F, "<%s>::%s" % (EVAL, name), crates=lang):
            ok = fn.q.rsplit("::", 1)[1] in owners
            rep.ob(R, "call|%s|%s" % (name, fn.q), ok)
            if not ok:
                rep.violation(R, "%s|calls|%s" % (fn.q, name), "%s is called outside the trace-item API" % name,
                              fn.body.span(t["sp"]))
    # max_stack: readers / writers
    rs = cg.who_reads_field(F, PROGRAM, "max_stack", crates=None)
    for fn, bb, si, s in rs:
        ok = fn.q == "<%s>::run" % EVAL
        rep.ob(R, "read|max_stack|%s" % fn.q, ok, {"fn": fn.q})
        if not ok:
            rep.violation(R, "%s|reads|max_stack" % fn.q, "Program.max_stack is read outside the limit test of "
                          "Evaluator::run: the configured limit now influences something else", fn.body.span(s["sp"] if s else 0))
    rep.floor(R, len(rs), 1, "max_stack readers")
    wsm = cg.who_writes_field(F, PROGRAM, "max_stack", crates=None)
    for fn, bb, si, s in wsm:
        ok = fn.q in ("<%s>::set_max_stack" % PROGRAM, "<%s>::new" % PROGRAM)
        rep.ob(R, "write|max_stack|%s" % fn.q, ok)
        if not ok:
            rep.violation(R, "%s|writes|max_stack" % fn.q, "Program.max_stack is written outside new/set_max_stack",
                          fn.body.span(s["sp"]))
    # the comparison: Gt(stack_trace_len, max_stack) with true edge -> StackOverflow; and every loop iteration
    # passes it: removing the comparison block must disconnect the loop
    run = F.fn("<%s>::run" % EVAL)
    rep.fn(run)
    body = run.body
    P = prov.Prov(F, body)
    cmp_blocks = []
    for bb, si, s in body.assigns():
        rv = s["rv"]
        if rv["k"] == "binop" and rv["op"] in ("Gt", "Lt", "Ge", "Le"):
            oa = P.origins_op(rv["a"])
            ob = P.origins_op(rv["b"])
            fa = ("field", EVAL, "stack_trace_len")
            fb = ("field", PROGRAM, "max_stack")
            if (fa in oa and fb in ob and rv["op"] == "Gt") or (fb in oa and fa in ob and rv["op"] == "Lt"):
                cmp_blocks.append(bb)
    ok = len(cmp_blocks) == 1
    rep.ob(R, "limit-test|unique", ok, {"blocks": cmp_blocks})
    if not ok:
        rep.violation(R, "run|limit-test", "the limit test `stack_trace_len > max_stack` is not found exactly once in "
                      "Evaluator::run (found %d; a non-strict or reversed comparison changes which depth fails)" % len(cmp_blocks), run.loc)
        return
    cb = cmp_blocks[0]
    # true edge leads to StackOverflow error
    t = body.blocks[cb]["t"]
    true_bb = t["else"] if t["k"] == "switch" else None
    so = False
    if true_bb is not None:
        from . import cfg as _cfg
        seen = _cfg.reachable(body.succ_map(), [true_bb], blocked_nodes=[cb])
        for b2 in seen:
            for s2 in body.blocks[b2]["s"]:
                if s2["k"] == "assign" and s2["rv"]["k"] == "agg" and s2["rv"].get("adt") == em.ERRKIND and s2["rv"]["v"] == "StackOverflow":
                    so = True
        # ... and to a return without re-entering the loop head
    rep.ob(R, "limit-test|overflow-error", so)
    if not so:
        rep.violation(R, "run|limit-error", "exceeding the limit does not lead to EvalErrorKind::StackOverflow", run.loc)
    # every cycle of `run` through the state pop passes the comparison
    heads = _run_loop_heads(F, body)
    from . import cfg as _cfg
    succ = body.succ_map()
    bypass = False
    for h in heads:
        for s0 in succ[h]:
            r = _cfg.reachable(succ, [s0], blocked_nodes=[cb])
            if h in r:
                bypass = True
    rep.ob(R, "limit-test|every-iteration", not bypass)
    if bypass:
        rep.violation(R, "run|limit-bypass", "some evaluator iteration returns to the state-stack pop without passing "
                      "the stack-limit test", run.loc)


def _run_loop_heads(F, body):
    heads = []
    for bb, t in body.calls():
        if (callee_name(t) or "") == "<alloc::vec::Vec>::pop":
            dty = body.ty(t["dst"]["t"])
            if dty["k"] == "adt" and dty["a"]:
                inner = body.ty(dty["a"][0])
                if inner["k"] == "adt" and inner["d"] == STATE:
                    heads.append(bb)
    return heads


def rule_r2(F, rep):
    R = rep.rule("C10.R2", "within every evaluator handler a delayed trace item always has its push earlier in the "
                 "same invocation, and no loop pushes more trace items than it delays: the counter equals the "
                 "nesting depth of active frames, never the number of sibling elements")
    H = height.Height(F)
    fns = [f for f in F.fn_list if f.q.startswith("<%s>::" % EVAL) and f.crate.name == "rsjsonnet_lang"]
    rep.fn(*fns)
    run = F.fn("<%s>::run" % EVAL)
    heads = set(_run_loop_heads(F, run.body))
    n_sites = 0
    for fn in fns:
        if fn.q == run.q:
            H._stack.append(fn.q)
            H.analyse(fn, cut_heads=heads)
            H._stack.pop()
        else:
            H.summary(fn)
    for fn in fns:
        probs = H.problems.get(fn.q, [])
        sites = H.detail.get(fn.q, [])
        n_sites += len(sites)
        ok = not probs
        if sites or probs:
            rep.ob(R, "balance|%s" % fn.q, ok,
                   {"fn": fn.q, "summary(min,max)": H.summ.get(fn.q), "effects": [(s[1].rsplit("::", 1)[1], s[2], s[3]) for s in sites][:8]}
                   if fn.q.endswith(("do_manifest_json", "want_thunk_direct", "do_std_filter")) or probs else None)
        for p in probs:
            if p["kind"] == "positive-cycle":
                first = p["pushes"][0]
                rep.violation(R, "%s|loop-unbalanced" % fn.q,
                              "a loop in %s pushes a trace item per iteration (%s at %s) without delaying it in the same "
                              "iteration: n sibling elements are counted as n nested frames, so a flat operation over more "
                              "than max_stack elements reports a spurious stack overflow"
                              % (fn.q.rsplit("::", 1)[1], first[1].rsplit("::", 1)[1], first[2]), first[2], p)
            elif p["kind"] == "underflow":
                rep.violation(R, "%s|delay-without-push" % fn.q,
                              "%s reaches %s with relative trace height %d: a trace item is delayed that was not pushed in "
                              "this invocation" % (fn.q.rsplit("::", 1)[1], (p["callee"] or "?").rsplit("::", 1)[1], p["height"]),
                              p["site"], p)
            else:
                rep.violation(R, "%s|negative-loop" % fn.q, "a loop in %s delays more trace items than it pushes" % fn.q, fn.loc, p)
    rep.floor(R, n_sites, 100, "trace-item call sites with an effect")
    return H


def rule_r3(F, rep):
    R = rep.rule("C10.R3", "forcing a thunk that is already in progress reports infinite recursion; a finished thunk "
                 "yields its value without re-evaluation; a pending thunk is evaluated under a GotThunk frame")
    for st in F.variants(THUNKSTATE):
        def hook(w, bb, t, env, args, st=st):
            n = callee_name(t) or ""
            if n == "<rsjsonnet_lang::program::data::ThunkData>::switch_state":
                return ("var", THUNKSTATE, st)
            return None
        outs = em.walk_run_arm(F, rep, "DoThunk", extra_hook=hook, want_calls=True)
        errs = set()
        pushes = set()
        vals = 0
        for o in outs:
            if o[0].startswith("diverge"):
                continue
            errs |= {m[1] for m in o[1] if m[0] == "err"}
            sp = tuple(x if not isinstance(x, tuple) else x[0] for x in (m[2] for m in o[1] if m[0] == "push" and m[1] == "state_stack"))
            pushes.add(sp)
            vals += sum(1 for m in o[1] if m[0] == "push" and m[1] == "value_stack")
        if st == "InProgress":
            ok = errs == {"InfiniteRecursion"} and all(not p for p in pushes)
        elif st == "Done":
            ok = not errs and pushes == {()} and vals >= 1
        else:
            ok = not errs and all(p and p[0] == "GotThunk" for p in pushes)
        rep.ob(R, "DoThunk|%s" % st, ok, {"thunk_state": st, "errors": sorted(errs), "state_pushes": sorted(map(str, pushes))})
        if not ok:
            rep.violation(R, "DoThunk|%s" % st, "forcing a %s thunk: errors %s, state pushes %s" % (st, sorted(errs), sorted(map(str, pushes))))


def rule_r4(F, rep):
    R = rep.rule("C10.R4", "no native recursion among evaluator, comparison, manifestation and data-model code "
                 "(the native stack does not grow with evaluation depth)")
    G = cg.get(F)
    roots = cg.entry_points(F)
    reach = G.reachable_from(roots)
    bad = []
    n = 0
    for comp in G.sccs(reach):
        defs = {G.nodes[x]["def"] for x in comp}
        if any("::program::eval::" in d or "::program::data::" in d or "::gc::" in d for d in defs):
            bad.append(sorted(defs))
    for x in reach:
        d = G.nodes[x]["def"]
        if "::program::eval::" in d or "::program::data::" in d or "::gc::" in d:
            n += 1
    rep.ob(R, "evaluator-acyclic", not bad, {"evaluator_instances": n})
    for defs in bad:
        rep.violation(R, "scc|" + defs[0], "native recursion inside evaluator code: %s" % defs[:8])
    rep.floor(R, n, 400, "evaluator function instances")


def rule_r5(F, rep):
    from . import pushgraph
    from collections import deque
    R = rep.rule("C10.R5", "evaluation never descends into a run-time value without a counted frame: when a handler takes a "
                 "container value from the value stack and forces one of its elements, either that push is covered by a "
                 "trace item of the handler, or the states pushed with it cannot lead back to the same handler without "
                 "passing a counted frame (otherwise the handler is re-applied to an element of its own input: a "
                 "self-containing or deeply nested value loops / exhausts memory instead of reporting stack overflow)")
    G = pushgraph.PushGraph(F)
    for node, site in G.unknown:
        rep.violation(R, "%s|unresolved-push" % node[1], "a state pushed by %s could not be resolved to a State variant / "
                      "function (fail closed)" % node[1], site)
    z = G.zero_graph()
    # the search is for *value-processing* cycles: forcing a thunk, evaluating an expression and entering a function
    # value dispatch into arbitrary code, whose frames are the business of want_thunk_direct / the call sites (R2)
    avoid = {("S", "DoThunk"), ("S", "Expr"), ("F", "<%s>::do_expr" % EVAL), ("F", "<%s>::execute_call" % EVAL)}

    def back(src):
        par = {}
        q = deque()
        for m in sorted(z.get(src, ())):
            if m not in avoid and m not in par:
                par[m] = None
                q.append(m)
        while q:
            n = q.popleft()
            if n == src:
                p = []
                while n is not None:
                    p.append(n)
                    n = par[n]
                return list(reversed(p))
            for m in sorted(z.get(n, ())):
                if m not in par and m not in avoid:
                    par[m] = n
                    q.append(m)
        return None

    def path_to(src, dst):
        if src == dst:
            return [src]
        par = {src: None}
        q = deque([src])
        while q:
            n = q.popleft()
            for m in sorted(z.get(n, ())):
                if m in par or m in avoid:
                    continue
                par[m] = n
                if m == dst:
                    p = []
                    while m is not None:
                        p.append(m)
                        m = par[m]
                    return list(reversed(p))
                q.append(m)
        return None

    # the state that runs right after a forced element (the consumer of its value) must run inside the frame too: a consumer
    # pushed *below* the trace item runs after the frame was popped, and if it leads back to the handler the descent is free
    ncons = 0
    for node, cs in sorted(G.consumers.items()):
        for fsite, cons, ch, csite in cs:
            ncons += 1
            cyc = path_to(cons, node) if ch <= 0 and cons not in avoid else None
            ok = cyc is None
            rep.ob(R, "consumer|%s|%s" % (node[1], cons[1]), ok)
            if not ok:
                rep.violation(R, "%s|consumer-outside-frame|%s" % (node[1], cons[1]),
                              "%s forces an element of a container it popped (%s); the state that consumes the element's value, "
                              "%s, is pushed below the trace item (it runs after the frame is popped) and leads back to the handler "
                              "without a counted frame: %s — nesting is followed without limit"
                              % (node[1], fsite, cons[1], " -> ".join(x[1].rsplit("::", 1)[-1] for x in cyc + ([node] if cyc[-1] != node else []))), csite)
    nsites = 0
    for node, ds in sorted(G.destr.items()):
        nsites += len(ds)
        name = node[1]
        unc = [d for d in ds if d[1] <= 0]
        cyc = back(node) if unc else None
        ok = cyc is None
        rep.ob(R, "descent|%s" % name, ok, {"handler": name, "element_forcing_sites": [d[0] for d in ds],
                                            "covered_by_own_trace_item": not unc})
        if not ok:
            rep.violation(R, "%s|descent-without-frame" % name,
                          "%s takes a container from the value stack and forces its elements (%s) without a trace item, and "
                          "the continuation leads back to it without a counted frame: %s — a self-containing or deeply "
                          "nested value is followed without limit" % (name, unc[0][0], " -> ".join(x[1].rsplit("::", 1)[-1] for x in cyc)),
                          unc[0][0])
    rep.floor(R, nsites, 30, "element-forcing sites on popped container values")
    rep.floor(R, ncons, 20, "consumers of forced elements")
    rep.floor(R, sum(len(v) for v in G.edges.values()), 1000, "state-push / helper-call edges")


TAIL_OK = {
    "Expr.kind/ExprKind.Local.1": "the body of `local` is the value of the whole expression",
    "Expr.kind/ExprKind.If.1": "the selected branch is the value of the `if`",
    "Expr.kind/ExprKind.If.2": "the selected branch is the value of the `if`",
    "Expr.kind/ExprKind.Assert.1": "the expression after `assert ...;` is the value of the whole expression",
    "arg2": "the root expression handed to analyze_expr with its caller's flag",
    "arg3": "a function body (analyze_function)",
}


def rule_r6(F, rep):
    from . import envflow
    R = rep.rule("C10.R6", "a call is marked as a tail call only in a tail position: the analyzer hands the `can be tailstrict` "
                 "flag on only to the body of `local`, the branches of `if`, the expression after `assert` and a function body; "
                 "every other child expression is analysed with the flag off. A `tailstrict` call elsewhere (an operand, an "
                 "argument, ...) would take the frame-free tail-call path although work remains after it, so the recursion is "
                 "never counted against the limit")
    rows = envflow.tail_rows(F)
    # a two-variant flag type instead of bool: the variant handed to a function body (always a tail position) means "yes"
    yes_enum = {r["flag"] for r in rows if str(r["flag"]).startswith("enum:") and "/".join(r["child"]) in TAIL_OK}
    for r in rows:
        if str(r["flag"]).startswith("enum:"):
            r["flag"] = "yes" if r["flag"] in yes_enum else "no"
    for r in rows:
        path = "/".join(r["child"])
        allowed = path in TAIL_OK
        ok = r["flag"] == "no" or allowed
        rep.ob(R, "tail-flag|%s|%s" % (r["fn"].rsplit("::", 1)[1], path), ok,
               {"position": path, "flag": r["flag"], "tail_position": allowed} if allowed or not ok else None)
        if not ok:
            rep.violation(R, "%s|tail-flag|%s" % (r["fn"], path),
                          "the child expression at %s is analysed with the tail-call flag %s; it is not a tail position "
                          "(work remains after it), so `tailstrict` calls there must be ordinary counted calls"
                          % (path, "passed on" if r["flag"] == "inherit" else "set"), r["site"])
    seen = {"/".join(r["child"]) for r in rows if r["flag"] != "no"}
    rep.floor(R, len(rows), 30, "child-expression hand-offs in the analyzer")
    rep.floor(R, len(seen), 4, "tail positions that receive the flag")
    rep.trust("Jsonnet tail positions (local body, if branches, assert continuation, function body), rules/c10.py:TAIL_OK")


def rule_r7(F, rep):
    R = rep.rule("C10.R7", "the uncounted tail-call path is taken only by calls of ordinary (Jsonnet) functions marked `tailstrict`: "
                 "for every other kind of callee (builtin, native, identity) and for every call without the flag, the call handler "
                 "pushes the Call trace item before entering the function — builtins rely on that frame to bound recursion through "
                 "their callbacks")
    FKIND = "rsjsonnet_lang::program::data::FuncKind"
    run = F.fn("<%s>::run" % EVAL)
    body = run.body
    for kind in F.variants(FKIND):
        for tail in (0, 1):
            def after(w, bb, idx, st, env, kind=kind, tail=tail):
                rv = st["rv"]
                if rv["k"] == "use" and rv["x"]["k"] in ("copy", "move"):
                    x = rv["x"]
                    if x["p"] and x["p"][-1] != "*" and x["p"][-1]["k"] == "f" and x["p"][-1]["n"] == "tailstrict":
                        env[w.norm(env, st["p"])] = tail
                if rv["k"] == "discr" and rv.get("adt") == FKIND:
                    env[w.norm(env, rv["p"])] = ("var", FKIND, kind)
                    env[w.norm(env, st["p"])] = w.discr_of_variant(FKIND, kind)

            def stop(w, bb, t, env):
                if t["k"] == "call" and (callee_name(t) or "") == "<%s>::maybe_gc" % PROGRAM:
                    return kwalk.STOP
                return None
            m = em.Marker(F, body, 1, True, extra_term=stop)
            m.stop_on_limit = True
            w = kwalk.Walker(F, body, on_term=m.on_term, on_stmt=m.on_stmt, after_stmt=after, ordered_marks=True, dedupe_marks=True,
                             call_result=em.injector(F, body, values=["Function"], state="CallWithExpr"), want_ret=True)
            outs = w.run(0, {})
            rep.states += w.states_explored
            shapes = set()
            for o in outs:
                if o[0].startswith("diverge") or em.is_err_return(o):
                    continue
                pushes = [x if not isinstance(x, tuple) else x[0] for x in (mm[2] for mm in o[1] if mm[0] == "push" and mm[1] == "state_stack")]
                calls = [mm[1] for mm in o[1] if mm[0] == "call"]
                if "ExecTailstrictCall" in pushes:
                    shapes.add("tail-path")
                elif "push_trace_item" in calls and "execute_call" in calls:
                    shapes.add("counted-call")
                else:
                    shapes.add("other:%s" % ",".join(calls[:4]))
            exp = {"tail-path"} if (kind == "Normal" and tail) else {"counted-call"}
            ok = shapes == exp
            rep.ob(R, "CallWithExpr|%s|tailstrict=%d" % (kind, tail), ok, {"callee_kind": kind, "tailstrict": tail, "shape": sorted(shapes)})
            if not ok:
                rep.violation(R, "CallWithExpr|%s|tailstrict=%d" % (kind, tail),
                              "a call of a %s function with tailstrict=%d takes %s; expected %s" % (kind, tail, sorted(shapes), sorted(exp)), run.loc)


def run(F, rep, tier):
    rep.attempt(rule_r1, F, rep)
    rep.attempt(rule_r2, F, rep)
    rep.attempt(rule_r3, F, rep)
    rep.attempt(rule_r4, F, rep)
    rep.attempt(rule_r5, F, rep)
    rep.attempt(rule_r6, F, rep)
    rep.attempt(rule_r7, F, rep)
    # a file that imports itself under another spelling (`lib/../self.jsonnet`) is a self-dependent value only if both spellings
    # reach the same thunk: the source cache must be keyed by the canonical path
    from . import c13
    rep.attempt(c13.rule_r2, F, rep)
    rep.assume("tail calls marked `tailstrict` are deliberately not counted (tail-call elimination is the language's "
               "semantics); frames for nesting that goes through expression evaluation are decided only as far as R2/R5 "
               "reach; the exact off-by-one of the limit is not decided")
    return EXPLANATION
