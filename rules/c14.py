"""C14 — lexing tiles the input and decodes literals exactly.

Decided clauses:
  R1  tiling by construction: tokens are only made by the commit routine, which hands out
      [old start, end) and sets start := end; cursors are only written through that discipline;
      every successful lexing step commits exactly once
  R2  the trivia filter of lex_to_eof skips exactly {Whitespace, Comment} and stops exactly at EOF
  R3  the UTF-8 decoder's (lead byte, second byte, continuation bytes) acceptance table equals
      Unicode Table 3-7 (well-formed UTF-8 byte sequences)
Not decided: text-block indentation stripping, number token values, maximal-munch operator clusters.
"""
from . import chartab, kwalk, prov, cfg
from .facts import callee_name, pk, AnchorMissing

EXPLANATION = (
    "Static analysis of MIR. R3: the decoder is walked once per combination of interval classes of "
    "(lead byte, 2nd byte) x {continuation, non-continuation} for the 3rd/4th byte, recording on every "
    "path whether Some(char) or None is returned; the resulting acceptance table is compared with "
    "Unicode Table 3-7. R2: decision table of lex_to_eof over (flag, TokenKind variant). R1: "
    "who-may-construct(Token), who-may-write(Lexer.start_pos/end_pos) with origin sets, and an "
    "exactly-one-commit path count over every lexing function."
)

LEXER = "rsjsonnet_lang::lexer::Lexer"
TOKEN = "rsjsonnet_lang::token::Token"
TOKENKIND = "rsjsonnet_lang::token::TokenKind"


def table_3_7(b0, b1, c2, c3):
    """True iff the sequence starting b0 b1 (c2/c3: whether 3rd/4th bytes are continuation bytes) is a
    well-formed prefix that the decoder must accept as one scalar value (Unicode 15 Table 3-7)."""
    if b0 <= 0x7F:
        return True
    if 0xC2 <= b0 <= 0xDF:
        return 0x80 <= b1 <= 0xBF
    if b0 == 0xE0:
        return 0xA0 <= b1 <= 0xBF and c2
    if 0xE1 <= b0 <= 0xEC or 0xEE <= b0 <= 0xEF:
        return 0x80 <= b1 <= 0xBF and c2
    if b0 == 0xED:
        return 0x80 <= b1 <= 0x9F and c2
    if b0 == 0xF0:
        return 0x90 <= b1 <= 0xBF and c2 and c3
    if 0xF1 <= b0 <= 0xF3:
        return 0x80 <= b1 <= 0xBF and c2 and c3
    if b0 == 0xF4:
        return 0x80 <= b1 <= 0x8F and c2 and c3
    return False


def rule_r3(F, rep):
    R = rep.rule("C14.R3", "the set of (lead byte, second byte, continuation flags) for which the lexer's "
                 "UTF-8 decoder yields a character equals Unicode Table 3-7; everything else yields the "
                 "replacement path (no overlong, surrogate or out-of-range encodings are accepted)")
    fn = F.fn("<%s>::decode_cont_char" % LEXER)
    rep.fn(fn)
    body = fn.body
    # byte0 = first non-self u8 argument
    b0 = None
    for l in range(1, body.argc + 1):
        if body.local_ty(l)["s"] == "u8":
            b0 = l
    if b0 is None:
        raise kwalk.WalkLimit("decode_cont_char: no u8 argument")
    classes = chartab.representatives(body, "u8", extra=[0xC2, 0xE0, 0xE1, 0xED, 0xEE, 0xF0, 0xF1, 0xF4, 0xF5,
                                                         0x90, 0xA0, 0xC0])
    cont_vals = {True: [0x80, 0xBF], False: [0x00, 0x7F, 0xC0, 0xFF]}
    bad = {}
    n = 0

    memo = {}

    def decode(a0, seq):
        """Walk the decoder with lead byte a0 and the given following bytes; returns (results, reads)."""
        for n_used in range(0, 4):
            k = (a0, tuple(seq[:n_used]))
            if k in memo and memo[k][1] <= n_used:
                return memo[k]
        used = [0]

        def hook(w, bb, t, env, args):
            # every call returning u8 is a read of the next input byte, in path order
            if w.body.ty(t["dst"]["t"])["s"] != "u8":
                return None
            i = env.get("#reads", 0)
            env["#reads"] = i + 1
            used[0] = max(used[0], i + 1)
            return seq[i] if i < len(seq) else 0

        w = kwalk.Walker(F, body, want_ret=True, call_result=hook)
        outs = w.run(0, {str(b0): a0})
        rep.states += w.states_explored
        res = set()
        for kind, marks, ret in outs:
            if kind != "return":
                res.add("diverge:" + kind)
                continue
            d = dict(ret)
            v = d.get("0.1")
            res.add(v[2] if isinstance(v, tuple) and v[0] == "var" else "unknown")
        # a path that ends in a panic (an assertion about the caller's cursor, say) yields no decoding result: the table is about
        # what the decoder *returns*; whether an assertion can fire is C01's business, not a row of Table 3-7
        if any(not x.startswith("diverge:") for x in res):
            res = {x for x in res if not x.startswith("diverge:")}
        r = (frozenset(res), used[0])
        memo[(a0, tuple(seq[:used[0]]))] = r
        return r

    for a0, e0 in classes:
        for a1, e1 in classes:
            for c2 in (True, False):
                for c3 in (True, False):
                    res = set()
                    for v2 in cont_vals[c2]:
                        for v3 in cont_vals[c3]:
                            res |= decode(a0, [a1, v2, v3])[0]
                    want = table_3_7(a0, a1, c2, c3)
                    exp = {"Some"} if want else {"None"}
                    ok = res == exp
                    n += 1
                    rep.ob(R, "%02X..%02X|%02X..%02X|%d%d" % (a0, e0, a1, e1, c2, c3), ok,
                           {"byte0": "%02X..%02X" % (a0, e0), "byte1": "%02X..%02X" % (a1, e1), "cont2": c2,
                            "cont3": c3, "decoder": sorted(res), "table_3_7": sorted(exp)}
                           if (a0, a1, c2, c3) in ((0xC2, 0x80, True, True), (0xE0, 0xA0, True, True)) else None)
                    if not ok:
                        bad.setdefault((a0, e0), []).append(((a1, e1), c2, c3, sorted(res), sorted(exp)))
    rep.floor(R, n, 400, "byte-class combinations")
    if bad:
        leads = sorted(bad)
        merged = []
        for a, b in leads:
            if merged and merged[-1][1] + 1 == a:
                merged[-1][1] = b
            else:
                merged.append([a, b])
        desc = ", ".join("%02X..%02X" % (a, b) for a, b in merged)
        first = bad[leads[0]][0]
        rep.violation(R, "%s|lead-bytes|%s" % (fn.q, desc),
                      "UTF-8 decoder disagrees with Unicode Table 3-7 for lead bytes %s: e.g. lead %02X, second "
                      "byte %02X..%02X, cont=(%s,%s): decoder yields %s, table says %s"
                      % (desc, leads[0][0], first[0][0], first[0][1], first[1], first[2], first[3], first[4]),
                      fn.loc, {"%02X..%02X" % k: v[:6] for k, v in bad.items()})
    rep.trust("Unicode Standard Table 3-7 (well-formed UTF-8 byte sequences), transcribed in rules/c14.py")


def rule_r2(F, rep):
    R = rep.rule("C14.R2", "lex_to_eof drops exactly Whitespace and Comment tokens when asked to, keeps every "
                 "other token, and stops exactly after pushing the EndOfFile token")
    fn = F.fn("<%s>::lex_to_eof" % LEXER)
    rep.fn(fn)
    body = fn.body
    tk = F.adt(TOKENKIND)
    tok = F.adt(TOKEN)
    kind_ix = [i for i, f in enumerate(tok["variants"][0]["fields"]) if f["n"] == "kind"]
    if not kind_ix:
        raise kwalk.WalkLimit("Token has no `kind` field")
    kind_ix = kind_ix[0]
    flag = None
    for l in range(1, body.argc + 1):
        if body.local_ty(l)["s"] == "bool":
            flag = l
    head = [bb for bb, t in body.calls() if (callee_name(t) or "") == "<%s>::next_token" % LEXER]
    if flag is None or len(head) != 1:
        raise kwalk.WalkLimit("lex_to_eof: flag/next_token shape not recognised")
    head = head[0]
    token_ty = TOKEN

    for fv in (0, 1):
        for v in tk["variants"]:
            vn = v["n"]

            def after_stmt(w, bb, idx, s, env, vn=vn):
                # inject the key: any freshly assigned local of type Token gets kind = variant
                p = s["p"]
                t = w.body.ty(p["t"])
                if not p["p"] and t["k"] == "adt" and t["d"] == token_ty:
                    env["%d.%d" % (p["l"], kind_ix)] = ("var", TOKENKIND, vn)

            def on_term(w, bb, t, env, first=[True]):
                if t["k"] == "call":
                    n = callee_name(t) or ""
                    if n == "<alloc::vec::Vec>::push":
                        return ("push",)
                    if n == "<%s>::next_token" % LEXER and env.get("#started"):
                        return (kwalk.STOP, ("loop",))
                    if n == "<%s>::next_token" % LEXER:
                        env["#started"] = 1
                return None

            def call_result(w, bb, t, env, args):
                n = callee_name(t) or ""
                if n.endswith("core::ops::try_trait::Try>::branch"):
                    return ("var", "core::ops::control_flow::ControlFlow", "Continue")
                return None

            w = kwalk.Walker(F, body, on_term=on_term, after_stmt=after_stmt, call_result=call_result,
                             want_ret=True, ordered_marks=True)
            outs = w.run(0, {str(flag): fv})
            rep.states += w.states_explored
            summary = set()
            for kind, marks, ret in outs:
                pushes = sum(1 for m in marks if m == ("push",))
                looped = ("loop",) in marks
                summary.add((pushes, "continue" if looped else kind))
            drop = (fv == 0 and vn in ("Whitespace", "Comment"))
            exp = {(0 if drop else 1, "return" if vn == "EndOfFile" else "continue")}
            ok = summary == exp
            rep.ob(R, "flag=%d|%s" % (fv, vn), ok,
                   {"flag": fv, "kind": vn, "observed": sorted(summary), "expected": sorted(exp)} if vn in ("Comment", "EndOfFile") else None)
            if not ok:
                rep.violation(R, "%s|flag=%d|%s" % (fn.q, fv, vn),
                              "lex_to_eof(whitespaces_and_comments=%s): a %s token is handled as %s, expected %s "
                              "(pushes, continuation)" % (bool(fv), vn, sorted(summary), sorted(exp)), fn.loc)
    rep.floor(R, len(tk["variants"]), 9, "TokenKind variants")


def rule_r1(F, rep):
    R = rep.rule("C14.R1", "token spans tile the input by construction: Token values are built only by "
                 "commit_token from (old start_pos, end_pos) with start_pos := end_pos; start_pos has no other "
                 "writer; end_pos is only advanced from its own value; every successful lexing path commits "
                 "exactly one token; EndOfFile is committed only when no byte is left")
    lexer_fns = [f for f in F.fn_list if f.q.startswith("<%s>::" % LEXER) and f.crate.name == "rsjsonnet_lang"]
    rep.fn(*lexer_fns)
    commit = F.fn("<%s>::commit_token" % LEXER)
    # (a) who-may-construct Token
    makers = []
    for f in F.fn_list:
        if f.crate.name != "rsjsonnet_lang" or f.mac:
            continue
        for bb, si, s in f.body.assigns():
            rv = s["rv"]
            if rv["k"] == "agg" and rv["ak"] == "adt" and rv["adt"] == TOKEN and not s.get("mac"):
                makers.append((f, bb, s))
    for f, bb, s in makers:
        ok = f.q == commit.q
        rep.ob(R, "construct-Token|%s" % f.q, ok, {"site": f.body.span(s["sp"]), "fn": f.q})
        if not ok:
            rep.violation(R, "%s|constructs-Token" % f.q, "Token is constructed outside commit_token, so its span "
                          "is not tied to the cursor pair", f.body.span(s["sp"]))
    if not any(f.q == commit.q for f, _, _ in makers):
        rep.violation(R, "%s|no-Token" % commit.q, "commit_token no longer constructs the Token", commit.loc)
    # (b) writers of start_pos / end_pos
    lx = F.adt(LEXER)
    fidx = {f["n"]: i for i, f in enumerate(lx["variants"][0]["fields"])}
    sp_i, ep_i = fidx.get("start_pos"), fidx.get("end_pos")
    if sp_i is None or ep_i is None:
        raise kwalk.WalkLimit("Lexer has no start_pos/end_pos field")
    n_ep = 0
    for f in F.fn_list:
        if f.crate.name != "rsjsonnet_lang":
            continue
        P = None
        for bb, si, s in f.body.assigns():
            pl = s["p"]
            fld = prov.field_write(F, f.body, pl, LEXER)
            if fld == "start_pos":
                ok = f.q == commit.q
                if ok:
                    # value must be a copy of self.end_pos
                    P = P or prov.Prov(F, f.body)
                    org = P.origins_rv(s["rv"])
                    ok = org == {("field", LEXER, "end_pos")}
                rep.ob(R, "write-start_pos|%s" % f.q, ok, {"fn": f.q, "site": f.body.span(s["sp"])})
                if not ok:
                    rep.violation(R, "%s|writes-start_pos" % f.q,
                                  "Lexer.start_pos is written outside the commit discipline (must be "
                                  "`start_pos = end_pos` inside commit_token only)", f.body.span(s["sp"]))
            elif fld == "end_pos":
                n_ep += 1
                P = P or prov.Prov(F, f.body)
                org = P.origins_rv(s["rv"], through_arith=True)
                allowed = True
                why = []
                for o in org:
                    if o == ("field", LEXER, "end_pos"):
                        continue
                    if o[0] == "const" or o[0] == "len":
                        continue   # increments: `+ 1`, `+ s.len()`
                    if o[0] == "call" and o[1] == "<%s>::decode_cont_char" % LEXER:
                        continue   # (new end, char) computed from end_pos by the decoder
                    allowed = False
                    why.append(o)
                # must contain end_pos itself (never an absolute position) and never subtract
                if ("field", LEXER, "end_pos") not in org and not any(o[0] == "call" for o in org):
                    allowed = False
                    why.append("no-end_pos-origin")
                if P.uses_sub(s["rv"]):
                    allowed = False
                    why.append("subtraction")
                rep.ob(R, "write-end_pos|%s|%d" % (f.q, n_ep), allowed,
                       {"fn": f.q, "site": f.body.span(s["sp"]), "origins": sorted(map(str, org))})
                if not allowed:
                    rep.violation(R, "%s|writes-end_pos" % f.q,
                                  "Lexer.end_pos is assigned a value that is not derived from end_pos by "
                                  "unsigned advance (origins: %s)" % why, f.body.span(s["sp"]))
    rep.floor(R, n_ep, 6, "end_pos writes")
    # (c) commit_token: span = make_span(old start_pos, end_pos)
    P = prov.Prov(F, commit.body)
    ok_span = False
    for bb, t in commit.body.calls():
        n = callee_name(t) or ""
        if n == "<%s>::make_span" % LEXER:
            o1 = P.origins_op(t["xs"][1])
            o2 = P.origins_op(t["xs"][2])
            # the start argument must have been read before start_pos was overwritten
            ok_span = o1 == {("field", LEXER, "start_pos")} and o2 == {("field", LEXER, "end_pos")}
            ok_span = ok_span and prov.read_before_write(F, commit.body, LEXER, "start_pos", t["xs"][1])
    rep.ob(R, "commit-span", ok_span)
    if not ok_span:
        rep.violation(R, "%s|span" % commit.q, "commit_token does not build the span from (previous start_pos, "
                      "end_pos)", commit.loc)
    # (d) exactly one commit per successful step, by path counting with callee summaries
    summaries = {}
    order = [f for f in lexer_fns if f.q != commit.q]
    tokfns = []
    for f in order:
        rt = f.body.local_ty(0)["s"]
        if "token::Token" in rt and "Vec" not in rt:
            tokfns.append(f)
    COMMIT = commit.q
    # iterate to a fixpoint (no recursion among lex_* today; bounded)
    for _ in range(4):
        for f in tokfns:
            def on_term(w, bb, t, env):
                if t["k"] == "call":
                    n = callee_name(t) or ""
                    if n == COMMIT:
                        return ("commit",)
                    if n in summaries and n != f.q:
                        return ("commits", tuple(sorted(summaries[n])))
                return None
            def residual(w, bb, t, env, args):
                n = callee_name(t) or ""
                if n.endswith("core::ops::try_trait::FromResidual>::from_residual"):
                    return ("var", "core::result::Result", "Err")
                return None
            w = kwalk.Walker(F, f.body, on_term=on_term, want_ret=True, ordered_marks=True, max_marks=4,
                             call_result=residual)
            outs = w.run(0, {})
            rep.states += w.states_explored
            counts = set()
            for kind, marks, ret in outs:
                if kind != "return":
                    continue
                d = dict(ret or ())
                v = d.get("0")
                is_err = isinstance(v, tuple) and v[0] == "var" and v[2] == "Err"
                if is_err:
                    continue
                # combine
                tot = {0}
                for m in marks:
                    if m == ("commit",):
                        tot = {x + 1 for x in tot}
                    elif m[0] == "commits":
                        tot = {x + y for x in tot for y in m[1]}
                # a path that returns the `?`-propagated residual is an error path
                counts |= tot
            summaries[f.q] = counts
    for f in tokfns:
        ok = summaries[f.q] == {1}
        rep.ob(R, "one-commit|%s" % f.q, ok, {"fn": f.q, "commits_on_ok_paths": sorted(summaries[f.q])})
        if not ok:
            rep.violation(R, "%s|commit-count" % f.q,
                          "a successful path through %s commits %s tokens (must be exactly one; a dropped or "
                          "doubled commit breaks tiling)" % (f.q, sorted(summaries[f.q])), f.loc)
    rep.floor(R, len(tokfns), 8, "token-returning lexer functions")
    # (e) EndOfFile only when eat_any_byte() returned None
    nt = F.fn("<%s>::next_token" % LEXER)

    def on_stmt(w, bb, idx, s, env):
        rv = s.get("rv")
        if rv and rv["k"] == "agg" and rv["ak"] == "adt" and rv["adt"] == TOKENKIND and rv["v"] == "EndOfFile":
            return ("eof",)
        return None
    for variant, want in (("Some", False), ("None", True)):
        w = kwalk.Walker(F, nt.body, on_stmt=on_stmt,
                         pure_calls={"<%s>::eat_any_byte" % LEXER:
                                     (lambda v: lambda w, e, a: ("var", "core::option::Option", v))(variant)})
        outs = w.run(0, {})
        rep.states += w.states_explored
        has = any(("eof",) in marks for _, marks, _ in outs)
        alln = all(("eof",) in marks for k, marks, _ in outs if k == "return")
        ok = (has == want) and (alln if want else True)
        rep.ob(R, "eof-iff-no-byte|%s" % variant, ok)
        if not ok:
            rep.violation(R, "%s|eof|%s" % (nt.q, variant),
                          "next_token commits EndOfFile %s a byte is available" % ("although" if not want else "not only when no"),
                          nt.loc)
    # other constructors of EndOfFile
    for f in lexer_fns:
        if f.q == nt.q:
            continue
        for bb, si, s in f.body.assigns():
            rv = s["rv"]
            if rv["k"] == "agg" and rv["ak"] == "adt" and rv["adt"] == TOKENKIND and rv["v"] == "EndOfFile":
                rep.violation(R, "%s|eof-elsewhere" % f.q, "TokenKind::EndOfFile constructed outside next_token",
                              f.body.span(s["sp"]))


def _new_callees(F, fn):
    """fn and, transitively, the local functions it calls that did not exist on the reference tree (extracted helpers)"""
    out, seen = [fn], {fn.q}
    for g in out:
        for bb, t in g.body.calls():
            f = t["f"]
            q = (f.get("r") or f.get("d")) if (f.get("rlocal") or f.get("local")) else None      # generic helpers resolve to their definition
            if q and q not in seen and F.is_new_fn(q):
                h = F.fn_opt(q)
                if h is not None and h.body is not None:
                    seen.add(q)
                    out.append(h)
    return out


def rule_r4(F, rep):
    import ast as _ast
    R = rep.rule("C14.R4", "line terminators inside a text block are copied verbatim: every constant \\r / \\n / \\r\\n appended to "
                 "the block's value is appended on the success edge of the lexer step that consumed exactly those bytes, with "
                 "no other consuming step in between (so the value keeps CRLF line ends where the source has them)")
    fn = F.fn("<%s>::lex_text_block" % LEXER)
    # The text block is lexed by lex_text_block together with the helpers split off from it after the reference tree: the
    # rule works on their joint control-flow graph (nodes (function index, block); a call of such a helper leads to the
    # helper's entry and the helper's returns lead back to the block after the call), so that it sees the same steps
    # whether they are written in line or in a helper.
    fns = _new_callees(F, fn)
    rep.fn(*fns)
    index = {g.q: i for i, g in enumerate(fns)}
    provs = [prov.Prov(F, g.body) for g in fns]
    sites = {}                       # helper index -> [(caller index, call block)]
    succ, pred = {}, {}

    def edge(a, b):
        succ.setdefault(a, []).append(b)
        succ.setdefault(b, [])
        pred.setdefault(b, []).append(a)
    for i, g in enumerate(fns):
        gs = g.body.succ_map()
        for b, blk in enumerate(g.body.blocks):
            succ.setdefault((i, b), [])
            if blk["cleanup"]:
                continue
            t = blk["t"]
            q = t["f"].get("r") if t["k"] in ("call", "tailcall") and t["f"].get("rlocal") else None
            j = index.get(q) if q else None
            if j is not None and j != 0:
                sites.setdefault(j, []).append((i, b))
                edge((i, b), (j, 0))
                if t.get("t") is not None:
                    for r, rblk in enumerate(fns[j].body.blocks):
                        if not rblk["cleanup"] and rblk["t"]["k"] == "return":
                            edge((j, r), (i, t["t"]))
                continue
            for x in gs[b]:
                if not g.body.blocks[x]["cleanup"]:
                    edge((i, b), (i, x))

    def const_bytes(i, op, depth=0):
        if op["k"] == "const" and isinstance(op.get("v"), int):
            return bytes([op["v"]]) if op["v"] < 256 else None
        org = provs[i].origins_op(op)
        if len(org) == 1:
            o = next(iter(org))
            if o[0] == "const" and isinstance(o[1], str):
                if o[1].startswith('b"'):
                    try:
                        return _ast.literal_eval(o[1])
                    except Exception:
                        return None
                return o[1].encode()
            if o[0] == "arg" and isinstance(o[1], int) and i != 0 and depth < 3:
                # a parameter of an extracted helper: the value handed over at its call sites
                vals = {const_bytes(ci, fns[ci].body.blocks[cb]["t"]["xs"][o[1] - 1], depth + 1)
                        for ci, cb in sites.get(i, ()) if 1 <= o[1] <= len(fns[ci].body.blocks[cb]["t"]["xs"])}
                if len(vals) == 1:
                    return next(iter(vals))
                if any(v and set(v) <= {13, 10} for v in vals):
                    raise kwalk.WalkLimit("%s receives different byte constants from its call sites" % fns[i].q)
        return None
    eats = {}
    pushes = []
    for i, g in enumerate(fns):
        for bb, t in g.body.calls():
            n = callee_name(t) or ""
            if n.startswith("<%s>::eat_" % LEXER):
                c = const_bytes(i, t["xs"][1]) if len(t["xs"]) > 1 and n.rsplit("::", 1)[1] in ("eat_byte", "eat_slice") else None
                eats[(i, bb)] = (n.rsplit("::", 1)[1], c, t)
    for i, g in enumerate(fns):
        for bb, t in g.body.calls():
            n = callee_name(t) or ""
            if n in ("<alloc::string::String>::push", "<alloc::string::String>::push_str"):
                c = const_bytes(i, t["xs"][1])
                if c is not None and c and set(c) <= {13, 10}:
                    pushes.append(((i, bb), c, t))
    for pb, c, t in pushes:
        pbody = fns[pb[0]].body
        # eat steps that can reach this push without another eat step in between
        last = {}
        seen = {pb}
        work = [pb]
        while work:
            b = work.pop()
            for q in pred.get(b, ()):
                if q in eats:
                    last.setdefault(q, set()).add(b)
                    continue
                if q not in seen:
                    seen.add(q)
                    work.append(q)
        probs = []
        if not last:
            probs.append("no consuming step precedes it")
        for e, _ in last.items():
            kind, ec, et = eats[e]
            if ec != c:
                probs.append("it can follow %s(%r)" % (kind, ec))
                continue
            # must be on the success edge: the result is switched right after the call; the push must not be
            # reachable from the failure edge without another consuming step
            ebody = fns[e[0]].body
            cont = et["t"]
            sw = ebody.blocks[cont]["t"] if cont is not None else None
            if not sw or sw["k"] != "switch":
                if e[0] != 0 and sw and sw["k"] == "return":
                    raise kwalk.WalkLimit("%s hands the result of %s back to its caller untested" % (fns[e[0]].q, kind))
                probs.append("%s's result is not tested before the push" % kind)
                continue
            fail = [(e[0], tb) for v, tb in sw["arms"] if v == 0]
            blocked = [b for b in eats]
            reach = cfg.reachable(succ, fail, blocked_nodes=blocked) if fail else set()
            if pb in reach or pb in fail:
                probs.append("it is reachable when %s(%r) failed" % (kind, ec))
        ok = not probs
        rep.ob(R, "push|%r@%s" % (c, pbody.span(t["sp"]).rsplit(":", 2)[-2]), ok, {"appended": repr(c), "site": pbody.span(t["sp"]),
                                                                             "after": sorted("%s(%r)" % (eats[e][0], eats[e][1]) for e in last)})
        if not ok:
            rep.violation(R, "lex_text_block|terminator-copy|%r" % c,
                          "lex_text_block appends %r to the text block although %s: the value no longer repeats the line "
                          "terminator bytes of the source" % (c, "; ".join(probs)), pbody.span(t["sp"]))
    rep.floor(R, len(pushes), 4, "line-terminator appends in lex_text_block")


ESCAPES = {0x22: 0x22, 0x27: 0x27, 0x5C: 0x5C, 0x2F: 0x2F, ord("b"): 8, ord("f"): 0xC, ord("n"): 0xA, ord("r"): 0xD, ord("t"): 9}


def rule_r5(F, rep):
    R = rep.rule("C14.R5", "escape sequences in quoted strings decode as the lexical grammar says: after a backslash, each of "
                 "\" ' \\ / b f n r t yields exactly its character, `u` starts a code-unit escape, and every other byte is the "
                 "InvalidEscapeInString error")
    fn = F.fn("<%s>::lex_quoted_string" % LEXER)
    rep.fn(fn)
    body = fn.body
    LEXERR = [q for q in F.adts if q.endswith("lexer::error::LexError") or q.endswith("lexer::LexError")]
    delim_l = [l for l in range(2, body.argc + 1) if body.local_ty(l)["s"] == "u8"]
    if not delim_l:
        raise AnchorMissing("lex_quoted_string: delimiter parameter")
    delim_l = delim_l[0]
    # the table scripts the eat_* primitives of the reference tree; a primitive introduced later that reads the input bytes
    # itself cannot be scripted: no verdict rather than a guessed table
    for g in _new_callees(F, fn):
        for bb, t in g.body.calls():
            nme = callee_name(t) or ""
            if nme in ("<[T]>::get", "<[T]>::first", "<[T]>::split_first", "<[T]>::get_unchecked") or nme.endswith("core::ops::index::Index>::index"):
                if t["xs"] and "t" in t["xs"][0] and "u8" in g.body.ty(t["xs"][0]["t"])["s"]:
                    raise kwalk.WalkLimit("lex_quoted_string eats input through %s (reads the bytes itself): the escape table does not "
                                          "script it" % g.q.rsplit("::", 1)[-1])
    n = 0
    for e in list(range(0x20, 0x7F)) + [0x0A, 0x09, 0x80, 0xC3]:
        if e == ord("u"):
            continue
        script = [0x5C, e, 0x22]

        def hook(w, bb, t, env, args, script=script):
            nme = callee_name(t) or ""
            i = env.get("#pos", 0)
            cur = script[i] if i < len(script) else None
            if nme == "<%s>::eat_byte" % LEXER:
                b = args[1] if len(args) > 1 else None
                if isinstance(b, int) and cur is not None and b == cur:
                    env["#pos"] = i + 1
                    return 1
                return 0 if isinstance(b, int) else None
            if nme == "<%s>::eat_slice" % LEXER:
                return 0
            if nme == "<%s>::eat_any_char" % LEXER:
                if cur is None:
                    return ("var", "core::option::Option", "None")
                env["#pos"] = i + 1
                return ("var", "core::option::Option", "Some")
            if nme.startswith("<%s>::" % LEXER) and F.is_new_fn(t["f"].get("r") or nme) and w._inline_target(t, nme) is None:
                # a lexer primitive introduced later that cannot be read in place (generic over a closure, say)
                raise kwalk.WalkLimit("lex_quoted_string eats input through %s, which the escape table does not script" % nme)
            if nme in ("<[T]>::get", "<[T]>::first", "<[T]>::split_first", "<[T]>::starts_with") and args and \
                    "u8" in w.body.ty(t["xs"][0]["t"])["s"] and "t" in t["xs"][0]:
                # the input is read through something other than the scripted eat_* primitives (a helper introduced later):
                # the scripted table would be guesswork
                raise kwalk.WalkLimit("lex_quoted_string reads the input through %s, which the escape table does not script" % nme)
            return None

        def on_term(w, bb, t, env):
            if t["k"] == "call":
                nme = callee_name(t) or ""
                if nme == "<alloc::string::String>::push":
                    v = w.val(env, t["xs"][1])
                    return ("push", v if isinstance(v, int) else "?")
                if nme == "<%s>::commit_token" % LEXER:
                    return kwalk.STOP
            return None

        def on_stmt(w, bb, idx, st, env):
            if st["k"] == "assign" and st["rv"]["k"] == "agg" and st["rv"]["ak"] == "adt" and st["rv"]["adt"] in LEXERR:
                return ("err", st["rv"]["v"])
            return None
        w = kwalk.Walker(F, body, call_result=hook, on_term=on_term, on_stmt=on_stmt, ordered_marks=True, want_ret=True)
        outs = w.run(0, {str(delim_l): 0x22})
        rep.states += w.states_explored
        res = set()
        for kind, marks, ret in outs:
            if kind.startswith("diverge"):
                continue
            res.add((tuple(m[1] for m in marks if m[0] == "push"), tuple(m[1] for m in marks if m[0] == "err")))
        if e in ESCAPES:
            exp = {((ESCAPES[e],), ())}
        else:
            exp = {((), ("InvalidEscapeInString",))}
        ok = res == exp
        if not ok and any("?" in pushes for pushes, errs in res):
            # the character that is appended is computed somewhere the walk cannot follow (a table lookup in a helper, a closure
            # handed to a generic primitive): the escape table cannot be extracted from this shape
            raise kwalk.WalkLimit("lex_quoted_string: the character appended after a backslash is not a constant on the walked path")
        n += 1
        rep.ob(R, "escape|%02X" % e, ok, {"after_backslash": chr(e) if 0x20 < e < 0x7F else hex(e), "outcome": sorted(map(str, res))}
               if e in (ord("n"), ord("v"), 0x2F, ord("a")) else None)
        if not ok:
            rep.violation(R, "lex_quoted_string|escape|%02X" % e,
                          "in a quoted string, backslash followed by %s gives %s; the lexical grammar says %s"
                          % (repr(chr(e)), sorted(map(str, res)), sorted(map(str, exp))), fn.loc)
    rep.floor(R, n, 90, "escape bytes")


CODE_UNITS = (0x0000, 0x0041, 0x0FFF, 0xCFFF, 0xD000, 0xD55C, 0xD7FF, 0xD800, 0xDBFF, 0xDC00, 0xDFFF, 0xE000, 0xFFFF)


def rule_r9(F, rep):
    R = rep.rule("C14.R9", "a \\uXXXX escape is combined with a following \\uXXXX escape exactly when its code unit is a surrogate "
                 "(D800..DFFF); every other code unit is the character itself and leaves the next escape alone")
    fn = F.fn("<%s>::lex_quoted_string" % LEXER)
    rep.fn(fn)
    body = fn.body
    delim_l = [l for l in range(2, body.argc + 1) if body.local_ty(l)["s"] == "u8"]
    if not delim_l:
        raise AnchorMissing("lex_quoted_string: delimiter parameter")
    # the code-unit reads: whatever is called (a local closure, a method, a free function) and answers Option<u16>
    unit_calls = [bb for bb, t in body.calls()
                  if "t" in t["dst"] and body.ty(t["dst"]["t"])["s"].endswith("Option<u16>") and t["f"].get("rlocal")]
    if len(unit_calls) < 2:
        raise AnchorMissing("lex_quoted_string: the two code-unit reads of a \\u escape (found %d)" % len(unit_calls))
    n = 0
    for follows in (1, 0):
        for cu in CODE_UNITS:
            script = [0x5C, ord("u")]

            def hook(w, bb, t, env, args, cu=cu, follows=follows):
                nme = callee_name(t) or ""
                i = env.get("#pos", 0)
                cur = script[i] if i < len(script) else None
                if nme == "<%s>::eat_byte" % LEXER:
                    b = args[1] if len(args) > 1 else None
                    if isinstance(b, int) and cur is not None and b == cur:
                        env["#pos"] = i + 1
                        return 1
                    return 0 if isinstance(b, int) else None
                if nme == "<%s>::eat_slice" % LEXER:
                    return follows
                if bb in unit_calls and not isinstance(bb, kwalk.FrameBB):
                    k = env.get("#units", 0)
                    env["#units"] = k + 1
                    dst = w.norm(env, t["dst"])
                    env["%s@Some.0" % dst] = cu if k == 0 else 0xDC00
                    return ("var", "core::option::Option", "Some")
                return None

            def on_term(w, bb, t, env):
                if t["k"] == "call":
                    nme = callee_name(t) or ""
                    if bb in unit_calls and not isinstance(bb, kwalk.FrameBB):
                        return ("unit", env.get("#units", 0))
                    if nme == "<char>::from_u32":
                        return ("single",)
                    if nme == "<char>::decode_utf16":
                        return ("pair",)
                    if nme in ("<alloc::string::String>::push", "<%s>::commit_token" % LEXER):
                        return kwalk.STOP
                if t["k"] == "return":
                    return kwalk.STOP
                return None
            w = kwalk.Walker(F, body, call_result=hook, on_term=on_term, ordered_marks=True, want_ret=True, arith=True)
            outs = w.run(0, {str(delim_l[0]): 0x22})
            rep.states += w.states_explored
            res = set()
            for kind, marks, ret in outs:
                ms = [m[0] for m in marks]
                if "unit" not in ms:
                    continue
                units = sum(1 for m in ms if m == "unit")
                res.add("pair" if units >= 2 or "pair" in ms else "single" if "single" in ms else "?")
            surrogate = 0xD800 <= cu <= 0xDFFF
            exp = {"pair"} if (surrogate and follows) else {"single"}
            ok = res == exp
            n += 1
            rep.ob(R, "unit|%04X|next-escape=%d" % (cu, follows), ok, {"code_unit": "%04X" % cu, "followed_by_escape": follows,
                                                                      "decoded_as": sorted(res)})
            if not ok:
                rep.violation(R, "lex_quoted_string|code-unit|%04X|next-escape=%d" % (cu, follows),
                              "\\u%04X %s is decoded as %s; the lexical grammar says %s (only D800..DFFF pair up with the "
                              "following escape — any other unit that does swallows the next character)"
                              % (cu, "followed by another \\u escape" if follows else "alone", sorted(res), sorted(exp)), fn.loc)
    rep.floor(R, n, 2 * len(CODE_UNITS), "code-unit classes")


NUM_CLASSES = {"digit": ord("7"), "underscore": ord("_"), "dot": ord("."), "e": ord("e"), "E": ord("E"), "plus": ord("+"),
               "minus": ord("-"), "other": ord("x"), "eof": None}
ANY = None
NUM_SPEC = {
    # (state, underscore flag) -> class -> expected outcome; ANY = not constrained by the lexical grammar as transcribed
    ("IntDigits", 0): {"digit": ("IntDigits", 0), "underscore": ("IntDigits", 1), "dot": ("Dot",), "e": ("Exp",), "E": ("Exp",),
                       "plus": "break", "minus": "break", "other": "break", "eof": "break"},
    ("IntDigits", 1): {"digit": ("IntDigits", 0), "underscore": "MissingDigitAfterUnderscore", "dot": ANY, "e": ANY, "E": ANY,
                       "plus": "MissingDigitAfterUnderscore", "minus": "MissingDigitAfterUnderscore",
                       "other": "MissingDigitAfterUnderscore", "eof": "MissingDigitAfterUnderscore"},
    ("Dot", None): {"digit": ("FracDigits", 0), "underscore": "MissingFracDigits", "dot": "MissingFracDigits", "e": "MissingFracDigits",
                    "E": "MissingFracDigits", "plus": "MissingFracDigits", "minus": "MissingFracDigits", "other": "MissingFracDigits",
                    "eof": "MissingFracDigits"},
    ("FracDigits", 0): {"digit": ("FracDigits", 0), "underscore": ("FracDigits", 1), "dot": "break", "e": ("Exp",), "E": ("Exp",),
                        "plus": "break", "minus": "break", "other": "break", "eof": "break"},
    ("FracDigits", 1): {"digit": ("FracDigits", 0), "underscore": "MissingDigitAfterUnderscore", "dot": "MissingDigitAfterUnderscore",
                        "e": ANY, "E": ANY, "plus": "MissingDigitAfterUnderscore", "minus": "MissingDigitAfterUnderscore",
                        "other": "MissingDigitAfterUnderscore", "eof": "MissingDigitAfterUnderscore"},
    ("Exp", None): {"digit": ("ExpDigits", 0), "plus": ("ExpSign",), "minus": ("ExpSign",), "underscore": "MissingExpDigits",
                    "dot": "MissingExpDigits", "e": "MissingExpDigits", "E": "MissingExpDigits", "other": "MissingExpDigits",
                    "eof": "MissingExpDigits"},
    ("ExpSign", None): {"digit": ("ExpDigits", 0), "plus": "MissingExpDigits", "minus": "MissingExpDigits", "underscore": "MissingExpDigits",
                        "dot": "MissingExpDigits", "e": "MissingExpDigits", "E": "MissingExpDigits", "other": "MissingExpDigits",
                        "eof": "MissingExpDigits"},
    ("ExpDigits", 0): {"digit": ("ExpDigits", 0), "underscore": ("ExpDigits", 1), "dot": "break", "e": "break", "E": "break",
                       "plus": "break", "minus": "break", "other": "break", "eof": "break"},
    ("ExpDigits", 1): {"digit": ("ExpDigits", 0), "underscore": "MissingDigitAfterUnderscore", "dot": "MissingDigitAfterUnderscore",
                       "e": "MissingDigitAfterUnderscore", "E": "MissingDigitAfterUnderscore", "plus": "MissingDigitAfterUnderscore",
                       "minus": "MissingDigitAfterUnderscore", "other": "MissingDigitAfterUnderscore", "eof": "MissingDigitAfterUnderscore"},
}


def rule_r6(F, rep):
    R = rep.rule("C14.R6", "number tokens follow the lexical grammar: the transition table of lex_number over (state, next byte "
                 "class) — digits, one `_` only between digits, `.` followed by a digit, `e`/`E` with optional sign followed by a "
                 "digit — equals the grammar's automaton, each dead end is its specific error")
    fn = F.fn("<%s>::lex_number" % LEXER)
    rep.fn(fn)
    body = fn.body
    ST = [q for q in F.adts if q.endswith("lex_number::State")]
    LEXERR = [q for q in F.adts if q.endswith("LexError")]
    if not ST:
        raise AnchorMissing("lex_number::State")
    ST = ST[0]
    head = None
    state_l = None
    for bb, si, st in body.assigns():
        rv = st["rv"]
        if rv["k"] == "discr" and rv.get("adt") == ST and not rv["p"]["p"]:
            head, state_l = bb, rv["p"]["l"]
            break
    if head is None:
        raise kwalk.WalkLimit("lex_number: state dispatch not found")

    def pred_on(clo_q, byte):
        c = F.fn_opt(clo_q)
        if c is None or byte is None:
            return 0 if byte is None else None
        cw = kwalk.Walker(F, c.body, want_ret=True)
        res = set()
        for kind, marks, ret in cw.run(0, {"2": byte}):
            res.add(dict(ret or ()).get("0"))
        if len(res) == 1 and isinstance(next(iter(res)), int):
            return next(iter(res))
        return None
    n = 0
    for (sv, us), row in NUM_SPEC.items():
        for cls, want in row.items():
            byte = NUM_CLASSES[cls]

            def hook(w, bb, t, env, args, byte=byte):
                nme = callee_name(t) or ""
                dst = w.norm(env, t["dst"])
                used = env.get("#used", 0)
                cur = None if used else byte
                if nme == "<%s>::eat_byte" % LEXER:
                    b = args[1] if len(args) > 1 else None
                    if isinstance(b, int):
                        if cur is not None and b == cur:
                            env["#used"] = 1
                            return 1
                        return 0
                    return None
                if nme.startswith("<%s>::eat_get_byte_if" % LEXER) or nme.startswith("<%s>::eat_byte_if" % LEXER):
                    clo = None
                    for x in t["xs"][1:]:
                        if "t" in x and w.body.ty(x["t"])["k"] == "closure":
                            clo = w.body.ty(x["t"])["d"]
                    r = pred_on(clo, cur) if clo else None
                    if r is None:
                        return None
                    if r:
                        env["#used"] = 1
                    if "eat_get_byte_if" in nme:
                        if r:
                            env["%s@Some.0" % dst] = cur
                            return ("var", "core::option::Option", "Some")
                        return ("var", "core::option::Option", "None")
                    return int(bool(r))
                if nme in ("<alloc::string::String>::len", "<str>::len"):
                    return 2          # not the leading-zero case
                return None

            def on_term(w, bb, t, env):
                if bb == head and env.get("#started"):
                    v = env.get(str(state_l))
                    pay = env.get("%d@%s.0" % (state_l, v[2])) if isinstance(v, tuple) else None
                    return (kwalk.STOP, ("next", v[2] if isinstance(v, tuple) and v[0] == "var" else "?", pay))
                if bb == head:
                    env["#started"] = 1
                if t["k"] == "call" and (callee_name(t) or "") == "<%s>::commit_token" % LEXER:
                    return (kwalk.STOP, ("break",))
                return None

            def on_stmt(w, bb, idx, st, env):
                if st["k"] == "assign" and st["rv"]["k"] == "agg" and st["rv"]["ak"] == "adt" and st["rv"]["adt"] in LEXERR:
                    return ("err", st["rv"]["v"])
                return None
            env0 = {str(state_l): ("var", ST, sv)}
            if us is not None:
                env0["%d@%s.0" % (state_l, sv)] = us
            w = kwalk.Walker(F, body, call_result=hook, on_term=on_term, on_stmt=on_stmt, want_ret=True)
            outs = w.run(head, env0)
            rep.states += w.states_explored
            res = set()
            for kind, marks, ret in outs:
                if kind.startswith("diverge"):
                    continue
                nx = [m for m in marks if m[0] == "next"]
                er = [m[1] for m in marks if m[0] == "err" and m[1] != "ExpOverflow"]
                if nx:
                    m = nx[-1]
                    res.add((m[1],) + ((m[2],) if isinstance(m[2], int) else ()))
                elif er:
                    res.add(er[0])
                elif ("break",) in marks or kind == "return":
                    res.add("break")
            n += 1
            if want is ANY:
                rep.ob(R, "lex_number|%s%s|%s" % (sv, "" if us is None else "(%d)" % us, cls), True)
                continue
            ok = res == {want}
            rep.ob(R, "lex_number|%s%s|%s" % (sv, "" if us is None else "(%d)" % us, cls), ok,
                   {"state": sv, "after_underscore": us, "next": cls, "outcome": sorted(map(str, res))} if cls in ("underscore", "dot") else None)
            if not ok:
                rep.violation(R, "lex_number|%s%s|%s" % (sv, "" if us is None else "_%d" % us, cls),
                              "lexing a number in state %s%s with next byte class `%s` gives %s; the lexical grammar requires %s"
                              % (sv, "" if us is None else " (after underscore: %d)" % us, cls, sorted(map(str, res)), want), fn.loc)
    rep.floor(R, n, 70, "state x byte-class transitions")


def rule_r7(F, rep):
    R = rep.rule("C14.R7", "every digit of a number literal is kept: in lex_number each digit byte taken from the input in the "
                 "integer and fraction parts is appended to the token's digit string on that path (a digit that is only counted, "
                 "or dropped beyond some length, changes the value the token denotes)")
    fn = F.fn("<%s>::lex_number" % LEXER)
    body = fn.body
    P = prov.Prov(F, body)
    succ = body.succ_map()
    # digit-taking steps: eat_get_byte_if(closure is_ascii_digit); their success edge
    n = 0
    for bb, t in body.calls():
        nme = callee_name(t) or ""
        if not nme.startswith("<%s>::eat_get_byte_if" % LEXER):
            continue
        cont = t["t"]
        sw = body.blocks[cont]["t"] if cont is not None else None
        # discriminant switch on the Option: Some edge
        some = None
        cur = cont
        for _ in range(3):
            tt = body.blocks[cur]["t"]
            if tt["k"] == "switch":
                some = [tb for v, tb in tt["arms"] if v == 1] or [tt["else"]]
                break
            ss = succ[cur]
            if len(ss) != 1:
                break
            cur = ss[0]
        if not some:
            continue
        # is this digit destined for the exponent (u64 arithmetic) or for the digit string? exponent sites feed `explicit_exp`
        reach = cfg.reachable(succ, some, blocked_nodes=[b for b, t2 in body.calls() if (callee_name(t2) or "").startswith("<%s>::eat_" % LEXER)])
        pushes = [b for b in reach if body.blocks[b]["t"]["k"] == "call" and (callee_name(body.blocks[b]["t"]) or "") == "<alloc::string::String>::push"]
        feeds_exp = any(st["k"] == "assign" and st["rv"]["k"] == "cast" and st["rv"]["ck"] == "IntToInt" and body.ty(st["p"]["t"])["s"] == "u64"
                        for b in reach for st in body.blocks[b]["s"]) or \
            any(body.blocks[b]["t"]["k"] == "call" and (callee_name(body.blocks[b]["t"]) or "").endswith("From<u8>>::from") and
                body.ty(body.blocks[b]["t"]["dst"]["t"])["s"] == "u64" for b in reach)
        if not pushes:
            continue          # an exponent digit (accumulated arithmetically); the floor below keeps the mantissa sites honest
        n += 1
        # every path from the success edge to the next consuming step / loop head must pass a push
        stops = [b for b, t2 in body.calls() if (callee_name(t2) or "").startswith("<%s>::eat_" % LEXER)]
        wo = cfg.reachable(succ, some, blocked_nodes=pushes)
        escaped = [b for b in wo if b in stops or body.blocks[b]["t"]["k"] == "return"]
        # error returns right after taking the digit (leading zero) are fine: they construct a LexError
        def is_err_path(b):
            return any(st["k"] == "assign" and st["rv"]["k"] == "agg" and str(st["rv"].get("adt", "")).endswith("LexError") for st in body.blocks[b]["s"])
        err_blocks = {b for b in wo if is_err_path(b)}
        wo2 = cfg.reachable(succ, some, blocked_nodes=list(set(pushes) | err_blocks))
        escaped = [b for b in wo2 if b in stops]
        ok = bool(pushes) and not escaped
        rep.ob(R, "lex_number|digit@%s" % body.span(t["sp"]).rsplit(":", 2)[-2], ok, {"site": body.span(t["sp"]), "appends": len(pushes)})
        if not ok:
            rep.violation(R, "lex_number|digit-dropped", "lex_number takes a digit from the input (%s) and can go on to the next "
                          "byte without appending it to the digit string" % body.span(t["sp"]), body.span(t["sp"]))
    rep.floor(R, n, 3, "digit-taking steps of the integer/fraction parts")


def rule_r8(F, rep):
    R = rep.rule("C14.R8", "error spans of the lexer end where the lexer stands: the end offset handed to make_span is the cursor "
                 "(`end_pos`, possibly minus a constant), never a position computed from decoded characters — a computed end can "
                 "lie beyond the input (the span constructor then panics) or cover bytes that are not part of the error")
    n = 0
    for fn in F.fn_list:
        if fn.crate.name != "rsjsonnet_lang" or "::lexer::" not in fn.q:
            continue
        P = None
        for bb, t in fn.body.calls():
            if (callee_name(t) or "") != "<%s>::make_span" % LEXER:
                continue
            n += 1
            if P is None:
                P = prov.Prov(F, fn.body)
            org = P.origins_op(t["xs"][2], through_arith=True)
            bad = [o for o in org if not (o[0] == "const" or (o[0] == "field" and o[2] in ("end_pos", "start_pos")) or o[0] == "arg")]
            ok = not bad
            rep.ob(R, "%s|make_span@%s" % (fn.q.rsplit("::", 1)[-1], fn.body.span(t["sp"]).rsplit(":", 2)[-2]), ok)
            if not ok:
                rep.violation(R, "%s|span-end-computed" % fn.q, "%s builds a span whose end is computed from %s instead of the "
                              "lexer cursor" % (fn.q, sorted(map(str, bad))[:3]), fn.body.span(t["sp"]))
    rep.floor(R, n, 10, "make_span call sites in the lexer")


def rule_r10(F, rep):
    R = rep.rule("C14.R10", "a verbatim string is decoded parametrically in its delimiter: lex_verbatim_string (and helpers introduced "
                 "later) mention no quote character as a constant — every test for, and every emission of, a quote goes through the "
                 "`delim` parameter. Only the doubled *delimiter* is special inside @'..' / @\"..\"; code that names a quote "
                 "literally treats the other quote kind specially too (or only one of them)")
    fn = F.fn("<%s>::lex_verbatim_string" % LEXER)
    fns = [fn]
    seen = {fn.q}
    work = [fn]
    while work:
        g = work.pop()
        for bb, t in g.body.calls():
            q = t["f"].get("r") if t["f"].get("rlocal") else None
            if q and q not in seen and (F.is_new_fn(q) or "{closure" in q):
                h = F.fn_opt(q)
                if h is not None and h.body is not None:
                    seen.add(q)
                    fns.append(h)
                    work.append(h)
        for bb, si, st in g.body.assigns():
            if st["rv"]["k"] == "agg" and st["rv"].get("ak") == "closure" and st["rv"]["d"] not in seen:
                h = F.fn_opt(st["rv"]["d"])
                if h is not None:
                    seen.add(h.q)
                    fns.append(h)
                    work.append(h)
    QUOTES = (0x27, 0x22)
    n = 0
    for g in fns:
        rep.fn(g)

        def consts(node):
            if isinstance(node, dict):
                if node.get("k") == "const":
                    yield node
                for v in node.values():
                    if isinstance(v, (dict, list)):
                        for c in consts(v):
                            yield c
            elif isinstance(node, list):
                for v in node:
                    for c in consts(v):
                        yield c
        for b in g.body.blocks:
            if b["cleanup"]:
                continue
            for c in consts([b["s"], b["t"]]):
                n += 1
                bad = None
                if isinstance(c.get("v"), int) and c["v"] in QUOTES and "t" in c and g.body.ty(c["t"])["s"] in ("u8", "char"):
                    bad = chr(c["v"])
                elif isinstance(c.get("str"), str) and c["str"] and all(ch in "'\"" for ch in c["str"]):
                    bad = c["str"]
                if bad is not None:
                    rep.ob(R, "%s|quote-constant" % g.q.rsplit("::", 1)[-1], False)
                    rep.violation(R, "%s|quote-constant" % g.q, "%s names the quote %r as a constant: verbatim strings must treat only "
                                  "their own delimiter specially, through the `delim` parameter" % (g.q.rsplit("::", 1)[-1], bad), g.loc)
    rep.ob(R, "lex_verbatim_string|no-quote-constants", True, {"functions": [g.q for g in fns], "constants scanned": n})
    rep.floor(R, n, 3, "constants scanned in the verbatim-string lexer")


def run(F, rep, tier):
    rep.attempt(rule_r3, F, rep)
    rep.attempt(rule_r2, F, rep)
    rep.attempt(rule_r1, F, rep)
    rep.attempt(rule_r4, F, rep)
    rep.attempt(rule_r5, F, rep)
    rep.attempt(rule_r6, F, rep)
    rep.attempt(rule_r7, F, rep)
    rep.attempt(rule_r8, F, rep)
    rep.attempt(rule_r9, F, rep)
    rep.attempt(rule_r10, F, rep)
    from . import stdlike
    rep.attempt(stdlike.rule_lookalikes, F, rep, "C20.R9")
    rep.assume("text-block indentation stripping, number token values and operator maximal munch are behavioural and not decided")
    return EXPLANATION
