"""C16 — diagnostics always locate inside the source and always render.

Decided clauses (the bit-packing round trip of SpanId, line/column values and totality inside the
`sourceannot` dependency are NOT decided):
  R1  every error variant (lexical, syntactic, static, run-time) and every stack-trace item is rendered:
      its arm builds a message of the right kind and a label for every source span the variant carries
  R2  spans are created only through the span manager's checked constructor (start <= end, inside the
      context) and make_surrounding_span checks context and order
  R3  trace cropping slices are guarded by the length test
"""
from . import kwalk, cg, prov, cfg
from .facts import callee_name, AnchorMissing as facts_AnchorMissing

EXPLANATION = (
    "Static analysis of the front-end's MIR: each render function is walked once per variant of the error "
    "enum it renders, with every SpanId / Option<SpanId> field tagged; on every path the Message kind and "
    "the origin of every MessageLabel span are collected and compared with the variant's span fields. "
    "who-may-construct SpanId; presence and position of the constructor's assertions."
)

MSG = "rsjsonnet_front::report::message::Message"
LABEL = "rsjsonnet_front::report::message::MessageLabel"
MKIND = "rsjsonnet_front::report::message::MessageKind"
SPANID = "rsjsonnet_lang::span::SpanId"
OPTION = "core::option::Option"

RENDERERS = [
    ("rsjsonnet_front::report::lexer::render_error", "rsjsonnet_lang::lexer::error::LexError", "Error"),
    ("rsjsonnet_front::report::parser::render_error", "rsjsonnet_lang::parser::error::ParseError", "Error"),
    ("rsjsonnet_front::report::analyze::render_error", "rsjsonnet_lang::program::error::AnalyzeError", "Error"),
    ("rsjsonnet_front::report::eval::render_error_kind", "rsjsonnet_lang::program::error::EvalErrorKind", "Error"),
]


def span_fields(F, adt, variant):
    a = F.adt(adt)
    c = a["_crate"]
    out = []
    for v in a["variants"]:
        if v["n"] != variant:
            continue
        for i, f in enumerate(v["fields"]):
            t = c.types[f["t"]]
            if t["k"] == "adt" and t["d"] == SPANID:
                out.append((i, f["n"], "plain"))
            elif t["k"] == "adt" and t["d"] == OPTION and t["a"]:
                inner = c.types[t["a"][0]]
                if inner["k"] == "adt" and inner["d"] == SPANID:
                    out.append((i, f["n"], "option"))
    return out


def label_map_hook(F):
    def hook(w, bb, t, e, args):
        # `opt_span.map(|span| MessageLabel { span, .. })`: evaluate the closure on the tagged payload
        n = callee_name(t) or ""
        if n == "<core::option::Option>::map" and len(t["xs"]) >= 2 and "t" in t["xs"][1]:
            cty = w.body.ty(t["xs"][1]["t"])
            a0 = args[0]
            if cty["k"] in ("closure", "fndef") and isinstance(a0, tuple) and a0[0] == "var" and a0[2] == "Some":
                # a closure literal or a function item (`span.map(note_label)`): evaluated on the tagged payload
                clo = F.fn_opt(cty["d"])
                src = w.norm(e, t["xs"][0])
                pay = e.get(src + "@Some.0")
                argl = "2" if cty["k"] == "closure" else "1"
                if clo is not None and pay is not None:
                    found = []

                    def inner_stmt(w2, b2, i2, s2, e2):
                        if s2["k"] == "assign" and s2["rv"]["k"] == "agg" and s2["rv"].get("adt") == LABEL:
                            v = w2.val(e2, s2["rv"]["xs"][s2["rv"]["fn"].index("span")])
                            if isinstance(v, tuple) and v[0] == "str":
                                found.append(v[1])
                        return None
                    w2 = kwalk.Walker(F, clo.body, on_stmt=inner_stmt)
                    w2.run(0, {argl: pay})
                    for tg in found:
                        e["#lbl:" + tg] = ("y",)
                    return ("var", OPTION, "Some")
        return None
    return hook


def walk_variant(F, rep, fn, adt, variant, base_key):
    body = fn.body
    env = {base_key: ("var", adt, variant)}
    tags = []
    for i, name, kind in span_fields(F, adt, variant):
        tag = "SPAN:%s" % name
        tags.append(tag)
        k = "%s@%s.%d" % (base_key, variant, i)
        if kind == "plain":
            env[k] = ("str", tag)
        else:
            env[k] = ("var", OPTION, "Some")
            env[k + "@Some.0"] = ("str", tag)

    def on_stmt(w, bb, idx, s, e):
        if s["k"] != "assign":
            return None
        rv = s["rv"]
        if rv["k"] == "agg" and rv["ak"] == "adt":
            if rv["adt"] == LABEL:
                v = w.val(e, rv["xs"][rv["fn"].index("span")])
                return ("label", v[1] if isinstance(v, tuple) and v[0] == "str" else "?")
            if rv["adt"] == MSG:
                v = w.val(e, rv["xs"][rv["fn"].index("kind")])
                return ("message", v[2] if isinstance(v, tuple) and v[0] == "var" else "?")
        return None

    def on_term(w, bb, t, e):
        if t["k"] == "call":
            n = callee_name(t) or ""
            if n == "<%s>::render" % MSG:
                return ("rendered",)
        return None
    hook = label_map_hook(F)
    w = kwalk.Walker(F, body, on_stmt=on_stmt, on_term=on_term, call_result=hook, want_ret=True, max_states=300000,
                     ret_prefixes=("0", "#lbl"))
    outs = w.run(0, env)
    rep.states += w.states_explored
    return outs, tags


def rule_r1(F, rep):
    R = rep.rule("C16.R1", "every error variant and every stack-trace item has a rendering arm that builds a message of the "
                 "right kind, renders it, and labels every source span the variant carries (so the report can name file, "
                 "line and column of each)")
    n = 0
    for q, adt, kind in RENDERERS:
        fn = F.fn(q)
        rep.fn(fn)
        # the error argument: first parameter that is a reference to the enum
        base = None
        for l in range(1, fn.body.argc + 1):
            t = fn.body.local_ty(l)
            if t["k"] == "ref" and fn.body.ty(t["t"]).get("d") == adt:
                base = "%d.*" % l
        if base is None:
            raise kwalk.WalkLimit("%s: error argument not found" % q)
        for v in F.variants(adt):
            n += 1
            outs, tags = walk_variant(F, rep, fn, adt, v, base)
            ok = True
            why = []
            paths = 0
            for o in outs:
                if o[0] != "return":
                    continue
                paths += 1
                marks = o[1]
                kinds = {m[1] for m in marks if m[0] == "message"}
                labels = {m[1] for m in marks if m[0] == "label"}
                labels |= {k[5:] for k, _ in (o[2] or ()) if k.startswith("#lbl:")}
                if kind not in kinds:
                    ok = False
                    why.append("no %s message is built" % kind)
                if ("rendered",) not in marks:
                    ok = False
                    why.append("the message is not rendered")
                missing = [t for t in tags if t not in labels]
                if missing:
                    ok = False
                    why.append("span field(s) %s get no label" % [m.split(":", 1)[1] for m in missing])
            if paths == 0:
                ok = False
                why.append("no rendering path returns")
            rep.ob(R, "%s|%s" % (adt.rsplit("::", 1)[1], v), ok, {"error": "%s::%s" % (adt.rsplit("::", 1)[1], v), "span_fields": [t.split(":", 1)[1] for t in tags]}
                   if v in ("RepeatedLocalName", "ImportFailed", "InvalidChar", "Expected") else None)
            if not ok:
                rep.violation(R, "%s|%s" % (q, v), "rendering of %s::%s: %s" % (adt.rsplit("::", 1)[1], v, "; ".join(sorted(set(why)))), fn.loc)
    # stack trace items
    st = F.fn("rsjsonnet_front::report::stack_trace::render")
    rep.fn(st)
    ITEM = "rsjsonnet_lang::program::EvalStackTraceItem"
    # items are iterated: inject at the discriminant read
    for v in F.variants(ITEM):
        n += 1
        fields = span_fields(F, ITEM, v)

        def after(w, bb, idx, s, env, v=v, fields=fields):
            rv = s["rv"]
            if rv["k"] == "discr" and rv.get("adt") == ITEM:
                src = w.norm(env, rv["p"])
                env[src] = ("var", ITEM, v)
                env[w.norm(env, s["p"])] = w.discr_of_variant(ITEM, v)
                for i, name, kind in fields:
                    k = "%s@%s.%d" % (src, v, i)
                    if kind == "plain":
                        env[k] = ("str", "SPAN:%s" % name)
                    else:
                        env[k] = ("var", OPTION, "Some")
                        env[k + "@Some.0"] = ("str", "SPAN:%s" % name)

        def on_stmt(w, bb, idx, s, e):
            if s["k"] != "assign":
                return None
            rv = s["rv"]
            if rv["k"] == "agg" and rv["ak"] == "adt":
                if rv["adt"] == LABEL:
                    val = w.val(e, rv["xs"][rv["fn"].index("span")])
                    return ("label", val[1] if isinstance(val, tuple) and val[0] == "str" else "?")
                if rv["adt"] == MSG:
                    val = w.val(e, rv["xs"][rv["fn"].index("kind")])
                    return ("message", val[2] if isinstance(val, tuple) and val[0] == "var" else "?")
            return None
        w = kwalk.Walker(F, st.body, after_stmt=after, on_stmt=on_stmt, call_result=label_map_hook(F), want_ret=True,
                         ordered_marks=False, max_states=300000, ret_prefixes=("0", "#lbl"))
        outs = w.run(0, {})
        rep.states += w.states_explored
        marks = set()
        extra = set()
        for o in outs:
            marks |= set(o[1])
            extra |= {k[5:] for k, _ in (o[2] or ()) if k.startswith("#lbl:")}
        tags = ["SPAN:%s" % nme for _, nme, _ in fields]
        labels = {m[1] for m in marks if m[0] == "label"} | extra
        ok = ("message", "Note") in marks and all(t in labels for t in tags)
        rep.ob(R, "EvalStackTraceItem|%s" % v, ok, {"item": v, "span_fields": [t.split(":", 1)[1] for t in tags], "labels": sorted(labels)} if v in ("Call", "Expr") else None)
        if not ok:
            rep.violation(R, "%s|%s" % (st.q, v), "stack-trace item %s: message kinds %s, labels %s, span fields %s"
                          % (v, sorted(m[1] for m in marks if m[0] == "message"), sorted(labels), tags), st.loc)
    rep.floor(R, n, 60, "error variants and trace items")


def rule_r2(F, rep):
    R = rep.rule("C16.R2", "SpanId values are only made by the span manager, whose constructor asserts start <= end and "
                 "that both ends lie inside the context before encoding; make_surrounding_span asserts same context and order")
    sites = cg.who_constructs(F, SPANID)
    owners = set()
    for fn, bb, si, s in sites:
        ok = fn.q in ("<rsjsonnet_lang::span::SpanManager>::intern_span",)
        owners.add(fn.q)
        rep.ob(R, "construct-SpanId|%s" % fn.q, ok, {"fn": fn.q})
        if not ok:
            rep.violation(R, "%s|constructs-SpanId" % fn.q, "SpanId is constructed outside SpanManager::intern_span", fn.body.span(s["sp"]))
    rep.floor(R, len(sites), 2, "SpanId construction sites")
    # field privacy
    a = F.adt(SPANID)
    f0 = a["variants"][0]["fields"][0]
    okp = str(f0.get("vis", "")).startswith("in:rsjsonnet_lang::span")
    rep.ob(R, "SpanId|private-field", okp)
    if not okp:
        rep.violation(R, "SpanId|field-visible", "SpanId's representation is accessible outside the span module (%s)" % f0.get("vis"))
    # the constructor's assertions dominate both encodings
    fn = F.fn("<rsjsonnet_lang::span::SpanManager>::intern_span")
    rep.fn(fn)
    body = fn.body
    P = prov.Prov(F, body)
    succ = body.succ_map()
    # comparisons feeding a panic branch: (op, origin-a, origin-b)
    guards = []
    for bb, si, s in body.assigns():
        rv = s["rv"]
        if rv["k"] == "binop" and rv["op"] in ("Le", "Lt", "Ge", "Gt"):
            # the block's switch has one branch that diverges (panic)
            t = body.blocks[bb]["t"]
            if t["k"] == "switch":
                tg = [b for _, b in t["arms"]] + [t["else"]]
                div = [b for b in tg if _diverges(body, succ, b)]
                if div:
                    guards.append((bb, rv["op"], P.origins_op(rv["a"], through_arith=True), P.origins_op(rv["b"], through_arith=True),
                                   [b for b in tg if b not in div]))
    sites_blocks = [bb for f2, bb, si, s in sites if f2.q == fn.q]
    have_order = False
    have_bounds = 0
    for bb, op, oa, ob, cont in guards:
        args = {o[1] for o in oa | ob if o[0] == "arg"}
        calls = {o[1] for o in oa | ob if o[0] == "call"}
        dom_all = all(all(sb not in cfg.reachable(succ, [0], blocked_nodes=[bb]) for sb in sites_blocks) for _ in [0])
        if not dom_all:
            continue
        if {3, 4} <= args and not calls:
            have_order = True
        if any("get_context_offsets" in c for c in calls):
            have_bounds += 1
    ok = have_order and have_bounds >= 2
    rep.ob(R, "intern_span|assertions", ok, {"order_assert": have_order, "bound_asserts": have_bounds, "guards_found": len(guards)})
    if not ok:
        rep.violation(R, "%s|assertions" % fn.q, "intern_span does not check `start <= end` and both ends against the context "
                      "bound before every SpanId construction (order check: %s, bound checks: %d)" % (have_order, have_bounds), fn.loc)
    ms = F.fn("<rsjsonnet_lang::span::SpanManager>::make_surrounding_span")
    rep.fn(ms)
    names = [callee_name(t) or "" for _, t in ms.body.calls()]
    okm = "<rsjsonnet_lang::span::SpanManager>::intern_span" in names and any(_diverges(ms.body, ms.body.succ_map(), b) for b in range(len(ms.body.blocks)) if not ms.body.blocks[b]["cleanup"])
    rep.ob(R, "make_surrounding_span|checked", okm)
    if not okm:
        rep.violation(R, "%s|unchecked" % ms.q, "make_surrounding_span does not go through intern_span with its own checks", ms.loc)


def _diverges(body, succ, b):
    """block b leads only to a panic (a call without return target) and no return"""
    r = cfg.reachable(succ, [b])
    has_ret = any(body.blocks[x]["t"]["k"] == "return" for x in r)
    has_panic = any(body.blocks[x]["t"]["k"] == "call" and body.blocks[x]["t"]["t"] is None for x in r)
    return has_panic and not has_ret


def rule_r3(F, rep):
    R = rep.rule("C16.R3", "the stack-trace cropping only slices the trace on the branch where it is longer than the limit, "
                 "with bounds derived from the limit (no slice can fall outside the trace)")
    fn = F.fn("<rsjsonnet_front::session::SessionInner>::print_stack_trace")
    rep.fn(fn)
    body = fn.body
    P = prov.Prov(F, body)
    succ = body.succ_map()
    SI = "rsjsonnet_front::session::SessionInner"
    guard = None
    for bb, si, s in body.assigns():
        rv = s["rv"]
        if rv["k"] == "binop" and rv["op"] in ("Le", "Lt", "Gt", "Ge"):
            oa = P.origins_op(rv["a"])
            ob = P.origins_op(rv["b"])
            if any(o[0] == "len" or (o[0] == "call" and "len" in o[1]) for o in oa | ob) and \
                    any(o[0] == "field" and o[1] == SI and o[2] == "max_trace" for o in oa | ob):
                guard = (bb, rv["op"], oa, ob)
    slices = [bb for bb, t in body.calls() if (callee_name(t) or "").endswith("core::ops::index::Index>::index")]
    ok = guard is not None and len(slices) >= 2
    if ok:
        gbb = guard[0]
        t = body.blocks[gbb]["t"]
        # the branch taken when the trace fits must not contain a slice
        arms = dict((v, b) for v, b in t["arms"]) if t["k"] == "switch" else {}
        fits_is_true = guard[1] in ("Le", "Lt") and any(o[0] == "len" or (o[0] == "call" and "len" in o[1]) for o in guard[2])
        fit_target = t["else"] if fits_is_true else arms.get(0)
        crop_target = arms.get(0) if fits_is_true else t["else"]
        if fit_target is None or crop_target is None:
            ok = False
        else:
            r_fit = cfg.reachable(succ, [fit_target], blocked_nodes=[crop_target])
            ok = not any(b in r_fit for b in slices) and all(b in cfg.reachable(succ, [crop_target]) for b in slices)
    rep.ob(R, "print_stack_trace|slices-guarded", ok, {"slices": len(slices)})
    if not ok:
        rep.violation(R, "%s|crop" % fn.q, "trace cropping slices are not confined to the `stack.len() > max_trace` branch", fn.loc)


def rule_r4(F, rep):
    from . import prov as _prov
    R = rep.rule("C16.R4", "the renderer is called within its contract: the line-number margin handed to "
                 "sourceannot's Annotations::render is the maximum of Annotations::max_line_no_width() over the sources "
                 "being rendered (render subtracts each line number's width from it; a smaller margin underflows and the "
                 "diagnostic is never printed)")
    REND = "<sourceannot::annots::Annotations>::render"
    MAXW = "<sourceannot::annots::Annotations>::max_line_no_width"
    n = 0
    for fn in F.fn_list:
        if fn.crate.name != "rsjsonnet_front":
            continue
        for bb, t in fn.body.calls():
            if (callee_name(t) or "") != REND:
                continue
            n += 1
            P = _prov.Prov(F, fn.body)
            widths = [x for x in t["xs"] if "t" in x and fn.body.ty(x["t"])["s"] == "usize"]
            org = P.origins_op(widths[0]) if widths else set()
            asks = any((callee_name(t2) or "") == MAXW for g in [fn] + list(F.closures_of(fn)) for _, t2 in g.body.calls())
            okorg = bool(org) and all((o[0] == "const") or (o[0] == "call" and (o[1].endswith("Iterator::max") or o[1].endswith("Iterator>::max")
                                                                                or o[1] == MAXW or o[1].endswith("cmp::max") or o[1].endswith("Ord>::max")))
                                      for o in org) and any(o[0] == "call" for o in org)
            ok = asks and okorg
            rep.ob(R, "%s|render-margin" % fn.q, ok, {"fn": fn.q, "margin_origins": sorted(map(str, org)), "asks_max_line_no_width": asks})
            if not ok:
                rep.violation(R, "%s|render-margin" % fn.q,
                              "%s passes Annotations::render a margin width that is not the maximum of max_line_no_width() "
                              "(origins %s): a span ending on a line with more digits than the margin allows makes the renderer "
                              "underflow" % (fn.q, sorted(map(str, org))), fn.body.span(t["sp"]))
    rep.floor(R, n, 1, "Annotations::render call sites")
    rep.trust("sourceannot 0.3: Annotations::render(max_line_no_width, ..) requires max_line_no_width >= self.max_line_no_width()")


def _unique_defs(body):
    defs = {}
    for bi, blk in enumerate(body.blocks):
        if blk["cleanup"]:
            continue
        for st in blk["s"]:
            if st["k"] == "assign" and not st["p"]["p"]:
                defs.setdefault(st["p"]["l"], []).append((bi, st["rv"]))
        t = blk["t"]
        if t["k"] == "call" and not t["dst"]["p"]:
            defs.setdefault(t["dst"]["l"], []).append((bi, {"k": "callres"}))
    return defs


def _field_root(body, defs, x, depth=12, names=None):
    """follow copies, `+ const`, `<< const`, casts and overflow-checked forms back to the variable they were computed from"""
    if x.get("k") not in ("move", "copy"):
        return None
    names = names if names is not None else body.local_names()
    l = x["l"]
    for _ in range(depth):
        if l in names or l <= body.argc:
            return l
        d = defs.get(l, [])
        if len(d) != 1:
            return l
        rv = d[0][1]
        k = rv["k"]
        if k == "use" and rv["x"].get("k") in ("move", "copy"):
            l = rv["x"]["l"]
            continue
        if k == "cast" and rv["x"].get("k") in ("move", "copy"):
            l = rv["x"]["l"]
            continue
        if k == "binop" and rv["op"] in ("Add", "AddWithOverflow", "AddUnchecked", "Shl", "ShlUnchecked", "Sub", "SubWithOverflow") \
                and rv["a"].get("k") in ("move", "copy") and rv["b"].get("k") == "const":
            l = rv["a"]["l"]
            continue
        return l
    return l


def rule_r5(F, rep):
    R = rep.rule("C16.R5", "a value packed into a bit field of SpanId (`a | b << k`) was compared with a constant bound on the way to "
                 "the packing site: the test that chooses the inline encoding is made on the very variables that are packed "
                 "(a global offset checked through the file-local start overflows into the length bits for later files)")
    n = 0
    for fn in F.fn_list:
        if fn.body is None or not fn.loc or not fn.loc.startswith("rsjsonnet-lang/src/span.rs"):
            continue
        body = fn.body
        defs = None
        for bi, blk in enumerate(body.blocks):
            if blk["cleanup"]:
                continue
            for st in blk["s"]:
                if st["k"] != "assign" or st["rv"]["k"] != "binop" or st["rv"]["op"] != "BitOr":
                    continue
                if defs is None:
                    defs = _unique_defs(body)
                ops = [st["rv"]["a"], st["rv"]["b"]]
                # field packing: one side is a non-constant shifted left
                shifted = False
                for x in ops:
                    if x.get("k") in ("move", "copy"):
                        d = defs.get(x["l"], [])
                        if len(d) == 1 and d[0][1]["k"] == "binop" and d[0][1]["op"].startswith("Shl") \
                                and d[0][1]["a"].get("k") in ("move", "copy"):
                            shifted = True
                if not shifted:
                    continue
                rep.fn(fn)
                for x in ops:
                    root = _field_root(body, defs, x)
                    if root is None:
                        continue
                    n += 1
                    name = body.local_names().get(root) or "(unnamed temporary)"
                    guarded = False
                    for si, sblk in enumerate(body.blocks):
                        t = sblk["t"]
                        if sblk["cleanup"] or t["k"] != "switch" or t["x"].get("k") not in ("move", "copy"):
                            continue
                        cd = defs.get(t["x"]["l"], [])
                        if len(cd) != 1 or cd[0][1]["k"] != "binop" or cd[0][1]["op"] not in ("Gt", "Ge", "Lt", "Le"):
                            continue
                        a, b = cd[0][1]["a"], cd[0][1]["b"]
                        var = a if b.get("k") == "const" else b if a.get("k") == "const" else None
                        if var is None or _field_root(body, defs, var) != root:
                            continue
                        for tgt in set(body.succs(si)):
                            if bi not in cfg.reachable(body.succ_map(), [0], blocked_nodes=[tgt]) and bi != tgt:
                                guarded = True
                            if bi == tgt and len([p for p in body.pred_map().get(bi, [])]) == 1:
                                guarded = True
                    rep.ob(R, "%s|pack|%s" % (fn.q, name), guarded, {"fn": fn.q, "packed": name, "bounded_before_packing": guarded})
                    if not guarded:
                        rep.violation(R, "%s|unbounded-field|%s" % (fn.q, name),
                                      "%s packs `%s` into a bit field of the span id but no comparison of `%s` with a constant "
                                      "guards the packing site: a value that does not fit spills into the neighbouring field and "
                                      "the span decodes to another file or position" % (fn.q, name, name), fn.loc)
    rep.floor(R, n, 2, "packed span-id fields")


def rule_r6(F, rep):
    R = rep.rule("C16.R6", "an interned span's identifier is the position of its triple in the table: wherever the span manager "
                 "both appends to a table (`Vec::push`) and takes the table's length for an index in the same body, the length "
                 "is taken before the append (on no path does the append come first). An index taken after the push is one past "
                 "the slot that holds the triple: get_span then returns the next interned span's coordinates, or panics on the "
                 "last one — only spans beyond the inline encoding (len >= 2^25 or offset >= 2^38) are interned, so no test sees it")
    SM = "rsjsonnet_lang::span::SpanManager"
    n = 0
    fns = [f for f in F.fn_list if f.crate.name == "rsjsonnet_lang" and (f.q.startswith("<%s>::" % SM))]
    if not fns:
        raise facts_AnchorMissing("SpanManager methods")
    for fn in fns:
        body = fn.body
        pushes, lens = [], []
        for bb, t in body.calls():
            nm = callee_name(t) or ""
            if nm == "<alloc::vec::Vec>::push":
                pushes.append((bb, t))
            elif nm == "<alloc::vec::Vec>::len":
                lens.append((bb, t))
        if not pushes or not lens:
            continue
        rep.fn(fn)
        succ = body.succ_map()
        for pbb, pt in pushes:
            pty = body.ty(pt["xs"][0]["t"])["s"] if "t" in pt["xs"][0] else "?"
            after = cfg.reachable(succ, [pt["t"]] if pt["t"] is not None else [])
            for lbb, lt in lens:
                lty = body.ty(lt["xs"][0]["t"])["s"] if "t" in lt["xs"][0] else "?"
                if pty.replace("&mut ", "&") != lty.replace("&mut ", "&"):
                    continue
                n += 1
                ok = lbb not in after
                rep.ob(R, "%s|len-before-push" % fn.q.rsplit("::", 2)[-1] if "{closure" not in fn.q else "%s|len-before-push" % fn.q.split("SpanManager>::")[-1], ok,
                       {"function": fn.q, "table": lty})
                if not ok:
                    rep.violation(R, "%s|index-after-push" % fn.q, "%s takes the length of %s after appending to it and uses it as the "
                                  "new entry's index: the identifier points one past the slot of the span just interned"
                                  % (fn.q.split("SpanManager>::")[-1], lty), body.span(lt["sp"]))
    rep.floor(R, n, 1, "append / length pairs on the span manager's tables")


def rule_r7(F, rep):
    R = rep.rule("C16.R7", "the report header names the primary span: put_spans_and_labels takes the labels in the order the error "
                 "renderers list them (primary label first; the `--> file:line:col` header is taken from the first label of each "
                 "source) — neither it nor a helper introduced later sorts, reverses or otherwise reorders the labels. Reordering "
                 "makes a secondary `previously defined here` label supply the header position")
    fns = [f for f in F.fn_list if f.crate.name == "rsjsonnet_front" and f.q.endswith("::put_spans_and_labels")]
    if not fns:
        raise facts_AnchorMissing("report::message::put_spans_and_labels")
    fn = fns[0]
    todo = [fn]
    seen = {fn.q}
    allf = []
    while todo:
        g = todo.pop()
        allf.append(g)
        for h in F.closures_of(g):
            if h.q not in seen:
                seen.add(h.q)
                todo.append(h)
        for bb, t in g.body.calls():
            q = t["f"].get("r") if t["f"].get("rlocal") else None
            if q and q not in seen and F.is_new_fn(q):
                h = F.fn_opt(q)
                if h is not None and h.body is not None:
                    seen.add(q)
                    todo.append(h)
    REORDER = ("<[T]>::sort", "<[T]>::sort_by", "<[T]>::sort_by_key", "<[T]>::sort_unstable", "<[T]>::sort_unstable_by",
               "<[T]>::sort_unstable_by_key", "<[T]>::sort_by_cached_key", "<[T]>::reverse", "<[T]>::rotate_left", "<[T]>::rotate_right",
               "<[T]>::swap", "core::iter::traits::iterator::Iterator::rev", "<alloc::vec::Vec>::swap_remove", "<alloc::vec::Vec>::dedup_by_key")
    n = 0
    for g in allf:
        rep.fn(g)
        for bb, t in g.body.calls():
            n += 1
            nm = callee_name(t) or ""
            d = t["f"].get("d", "") if t["f"]["k"] == "def" else ""
            if nm in REORDER or d in REORDER or "BinaryHeap" in nm or "BTreeMap" in nm and nm.endswith("::insert"):
                rep.ob(R, "%s|%s" % (g.q.rsplit("::", 1)[-1], nm.rsplit("::", 1)[-1]), False)
                rep.violation(R, "%s|reorders-labels|%s" % (g.q, nm.rsplit("::", 1)[-1]), "%s calls %s: the labels are no longer taken in "
                              "the order given by the renderer, so the header position can come from a secondary label"
                              % (g.q.rsplit("::", 1)[-1], nm), g.body.span(t["sp"]))
    rep.ob(R, "put_spans_and_labels|order-preserved", True, {"functions": [g.q for g in allf], "calls scanned": n})
    rep.floor(R, n, 10, "calls scanned in put_spans_and_labels")


def run(F, rep, tier):
    rep.attempt(rule_r1, F, rep)
    rep.attempt(rule_r2, F, rep)
    rep.attempt(rule_r3, F, rep)
    rep.attempt(rule_r4, F, rep)
    rep.attempt(rule_r5, F, rep)
    rep.attempt(rule_r6, F, rep)
    rep.attempt(rule_r7, F, rep)
    from . import c14
    rep.attempt(c14.rule_r8, F, rep)      # error spans end at the lexer cursor (inside the source)
    rep.assume("the SpanId bit-packing round trip, line/column computation and rendering inside `sourceannot` are not decided")
    return EXPLANATION
