"""C04 — evaluation is call-by-need: unused parts never run, used parts run once.

The rewrite-invariance consequence needs execution and is NOT decided.  Decided clauses:
  R1  thunk typestate Pending -> InProgress -> Done: the state cell is mutated only by switch_state and
      set_done; switch_state hands a pending payload out exactly once (leaving InProgress), returns a
      finished value without touching the cell; set_done requires InProgress; set_done is called only
      by the GotThunk handler ("each delayed expression is evaluated at most once")
  R2  lazy positions of the IR (local binds, array items, call arguments, parameter defaults, object
      fields and locals, comprehension bodies) reach evaluation only through a pending thunk: no flow
      from such a position to State::Expr that bypasses PendingThunk
  R3  forcing is justified: a thunk created and forced in the same handler is guarded by `tailstrict`
"""
from . import kwalk, cg, prov, irflow, evalmarks as em
from .facts import callee_name, AnchorMissing

EXPLANATION = (
    "Static analysis: who-may-mutate queries and decision tables (over ThunkState) of switch_state / set_done "
    "and the DoThunk / GotThunk arms; IRFLOW — a whole-crate field-based flow graph of IR expression "
    "references (struct fields, State payloads, parameters, closures bound through generic Fn parameters) "
    "with reachability from every lazy IR position to State::Expr that must pass a PendingThunk node."
)

D = "rsjsonnet_lang::program::data::"
THUNK = D + "ThunkData"
TSTATE = D + "ThunkState"
E = em.EVAL

LAZY = {
    "Expr.Local.bindings": "local bind values",
    "Expr.Array.0": "array elements",
    "Expr.Call.positional_args": "positional call arguments",
    "Expr.Call.named_args": "named call arguments",
    "Expr.Func.params": "parameter default values",
    "ObjectField.value": "object field values",
    "Expr.Object.locals": "object locals",
    "Expr.ObjectComp.locals": "comprehension-object locals",
    "Expr.ArrayComp.value": "array comprehension body",
    "Expr.ObjectComp.field_value": "object comprehension field value",
}
FORCING = {("fld", "PendingThunk.Expr.expr"), ("fld", "PendingThunk.FieldPlus.expr")}
SINK = ("fld", "State.Expr.expr")


def rule_r2(F, rep):
    R = rep.rule("C04.R2", "a local binding, function argument, parameter default, array element, object field/local "
                 "or comprehension body is never handed to the expression evaluator directly: every flow from such "
                 "an IR position to State::Expr passes through a pending thunk (so an unused one is never run)")
    G = irflow.IRFlow(F)
    rep.fn(*G.fns)
    n_edges = sum(len(v) for v in G.edges.values())
    rep.floor(R, n_edges, 80, "IR-reference flow edges")
    for pos, what in LAZY.items():
        src = ("ir", pos)
        # tuple-qualified variants of the same position
        srcs = [n for n in G.edges if n[0] == "ir" and (n[1] == pos or n[1].startswith(pos + "#"))]
        if not srcs:
            rep.ob(R, "lazy|%s" % pos, False)
            rep.violation(R, "lazy-position|%s|unseen" % pos, "lazy IR position %s (%s) has no outgoing flow: the matcher no "
                          "longer sees how it is consumed (fail closed)" % (pos, what))
            continue
        seen, parent = G.reach(srcs, stop=lambda n: n in FORCING)
        eager = SINK in seen
        delayed = bool(FORCING & seen)
        ok = (not eager) and delayed
        rep.ob(R, "lazy|%s" % pos, ok, {"position": pos, "what": what, "reaches_thunk": delayed, "reaches_evaluator_directly": eager,
                                        "reachable_locations": len(seen)})
        if eager:
            ch = G.chain(parent, SINK)
            first_site = G.sites.get((ch[-2], ch[-1])) if len(ch) >= 2 else None
            rep.violation(R, "lazy-position|%s|eager" % pos,
                          "%s (IR position %s) reach the expression evaluator without a pending thunk: %s — they are "
                          "evaluated even when unused" % (what, pos, " -> ".join("%s:%s" % (n[0], n[1].rsplit("::", 1)[-1] if isinstance(n[1], str) else n[1]) for n in ch)),
                          first_site)
        elif not delayed:
            rep.violation(R, "lazy-position|%s|not-delayed" % pos, "%s (IR position %s) never reach a pending thunk" % (what, pos))
    # the only flows into the evaluator from thunks are the DoThunk arm's
    into = sorted(n for n, ds in G.edges.items() if SINK in ds and n in FORCING)
    ok = set(into) == FORCING
    rep.ob(R, "forcing-points", ok, {"thunk_payloads_reaching_evaluator": [n[1] for n in into]})
    if not ok:
        rep.violation(R, "forcing-points", "pending thunk payloads reaching State::Expr: %s (expected both Expr and FieldPlus payloads, via DoThunk)" % into)
    return G


def rule_r1(F, rep):
    R = rep.rule("C04.R1", "each delayed expression is evaluated at most once: the thunk state cell is mutated only by "
                 "switch_state (Pending -> InProgress, payload handed out once) and set_done (InProgress -> Done), "
                 "and set_done is only called by the frame that was pushed when the thunk was taken")
    # who mutates ThunkData.state
    muts = []
    for fn in F.fn_list:
        if fn.crate.name != "rsjsonnet_lang":
            continue
        P = None
        for bb, t in fn.body.calls():
            n = callee_name(t) or ""
            if n in ("<core::cell::RefCell>::borrow_mut", "<core::cell::RefCell>::replace", "<core::cell::RefCell>::swap",
                     "<core::cell::RefCell>::take", "<core::cell::RefCell>::get_mut", "<core::cell::RefCell>::try_borrow_mut",
                     "<core::cell::RefCell>::replace_with", "<core::cell::RefCell>::as_ptr"):
                P = P or prov.Prov(F, fn.body)
                org = P.origins_op(t["xs"][0])
                if any(o[0] == "field" and o[1] == THUNK and o[2] == "state" for o in org):
                    muts.append((fn, bb, t))
    allowed = {"<%s>::switch_state" % THUNK, "<%s>::set_done" % THUNK}
    for fn, bb, t in muts:
        ok = fn.q in allowed
        rep.ob(R, "mutates-state|%s" % fn.q, ok, {"fn": fn.q})
        if not ok:
            rep.violation(R, "%s|mutates|ThunkData.state" % fn.q, "ThunkData.state is mutably borrowed outside switch_state/set_done",
                          fn.body.span(t["sp"]))
    rep.floor(R, len(muts), 2, "mutable borrows of ThunkData.state")
    # field privacy: state is private to data.rs
    a = F.adt(THUNK)
    vis = [f.get("vis") for f in a["variants"][0]["fields"] if f["n"] == "state"]
    ok = bool(vis) and str(vis[0]).startswith("in:rsjsonnet_lang::program::data")
    rep.ob(R, "state-private", ok, {"vis": vis})
    if not ok:
        rep.violation(R, "ThunkData.state|visibility", "ThunkData.state is visible outside program::data (%s)" % vis)
    # switch_state decision table
    sw = F.fn("<%s>::switch_state" % THUNK)
    rep.fn(sw)
    for st in F.variants(TSTATE):
        def after(w, bb, idx, s, env, st=st):
            rv = s["rv"]
            if rv["k"] == "discr" and rv.get("adt") == TSTATE:
                env[w.norm(env, rv["p"])] = ("var", TSTATE, st)
                env[w.norm(env, s["p"])] = w.discr_of_variant(TSTATE, st)

        def on_term(w, bb, t, env):
            if t["k"] == "call":
                n = callee_name(t) or ""
                if n == "core::mem::replace":
                    v = w.val(env, t["xs"][1])
                    return ("replace-with", v[2] if isinstance(v, tuple) and v[0] == "var" else "?")
                if n in ("core::mem::swap", "core::mem::take"):
                    return ("other-write", n)
            return None

        def on_stmt(w, bb, idx, s, env):
            if s["k"] == "assign" and s["p"]["p"] and "*" in [p for p in s["p"]["p"] if p == "*"]:
                t = w.body.ty(s["p"]["t"])
                if t["k"] == "adt" and t["d"] == TSTATE:
                    return ("direct-write",)
            return None
        w = kwalk.Walker(F, sw.body, after_stmt=after, on_term=on_term, on_stmt=on_stmt, want_ret=True)
        outs = w.run(0, {})
        rep.states += w.states_explored
        res = set()
        for kind, marks, ret in outs:
            if kind != "return":
                continue
            d = dict(ret or ())
            top = d.get("0")
            res.add((top[2] if isinstance(top, tuple) and top[0] == "var" else "payload-of-cell",
                     tuple(sorted(m for m in marks if m[0] in ("replace-with", "other-write", "direct-write")))))
        if st == "Pending":
            exp = {("payload-of-cell", (("replace-with", "InProgress"),))}
        elif st == "Done":
            exp = {("Done", ())}
        else:
            exp = {("InProgress", ())}
        ok = res == exp
        if st == "InProgress" and not ok:
            # handing the cell's content out while leaving InProgress behind is the same thing for a cell that holds InProgress
            ok = bool(res) and res <= {("InProgress", ()), ("payload-of-cell", (("replace-with", "InProgress"),))}
        rep.ob(R, "switch_state|%s" % st, ok, {"cell_state": st, "returned/written": sorted(map(str, res))})
        if not ok:
            rep.violation(R, "%s|%s" % (sw.q, st), "switch_state on a %s thunk: (returned, writes) = %s, the protocol needs %s"
                          % (st, sorted(map(str, res)), sorted(map(str, exp))), sw.loc)
    # set_done: requires InProgress, writes Done
    sd = F.fn("<%s>::set_done" % THUNK)
    rep.fn(sd)
    for st in F.variants(TSTATE):
        def after(w, bb, idx, s, env, st=st):
            rv = s["rv"]
            if rv["k"] == "discr" and rv.get("adt") == TSTATE:
                env[w.norm(env, rv["p"])] = ("var", TSTATE, st)
                env[w.norm(env, s["p"])] = w.discr_of_variant(TSTATE, st)

        def on_stmt(w, bb, idx, s, env):
            if s["k"] == "assign" and s["rv"]["k"] == "agg" and s["rv"].get("adt") == TSTATE:
                return ("build", s["rv"]["v"])
            return None
        w = kwalk.Walker(F, sd.body, after_stmt=after, on_stmt=on_stmt, want_ret=True)
        outs = w.run(0, {})
        rep.states += w.states_explored
        kinds = set()
        for kind, marks, ret in outs:
            if kind == "return":
                kinds.add(("returns", tuple(sorted(m[1] for m in marks if m[0] == "build"))))
            else:
                kinds.add(("panics",))
        exp = {("returns", ("Done",))} if st == "InProgress" else {("panics",)}
        ok = kinds == exp
        rep.ob(R, "set_done|%s" % st, ok, {"cell_state": st, "outcome": sorted(map(str, kinds))})
        if not ok:
            rep.violation(R, "%s|%s" % (sd.q, st), "set_done on a %s thunk: %s, the protocol needs %s" % (st, sorted(map(str, kinds)), sorted(map(str, exp))), sd.loc)
    # callers
    callers = cg.who_calls(F, "<%s>::set_done" % THUNK, crates=("rsjsonnet_lang",))
    okc = len(callers) == 1 and callers[0][0].q == "<%s>::run" % E
    rep.ob(R, "set_done|callers", okc, {"callers": [c[0].q for c in callers]})
    if not okc:
        rep.violation(R, "set_done|callers", "set_done is called from %s (expected only the GotThunk arm of Evaluator::run)" % [c[0].q for c in callers])
    outs = em.walk_run_arm(F, rep, "GotThunk", want_calls=False,
                           extra_hook=lambda w, bb, t, env, args: None)
    # the GotThunk arm is the one calling set_done: walk with a call marker
    run = F.fn("<%s>::run" % E)
    sites = [bb for bb, t in run.body.calls() if (callee_name(t) or "") == "<%s>::set_done" % THUNK]
    arm_hits = set()
    for variant in ("GotThunk", "DoThunk", "DiscardValue"):
        hit = [False]

        def hook(w, bb, t, env, args, hit=hit):
            if (callee_name(t) or "") == "<%s>::set_done" % THUNK:
                hit[0] = True
            return None
        em.walk_run_arm(F, rep, variant, want_calls=False, extra_hook=hook)
        if hit[0]:
            arm_hits.add(variant)
    ok = arm_hits == {"GotThunk"}
    rep.ob(R, "set_done|arm", ok, {"arms_calling_set_done": sorted(arm_hits)})
    if not ok:
        rep.violation(R, "run|set_done-arm", "set_done is reached from arms %s (expected GotThunk only)" % sorted(arm_hits), run.loc)
    # GotThunk frame carries the thunk that was switched: tag the DoThunk payload and look at the pushed frame
    def pend(w, bb, t, env, args):
        if (callee_name(t) or "") == "<%s>::switch_state" % THUNK:
            return ("var", TSTATE, "Pending")
        return None
    outs = em.walk_run_arm(F, rep, "DoThunk", payload={0: ("str", "THE-THUNK")}, want_calls=False, extra_hook=pend)
    okp = True
    seen_any = False
    for o in outs:
        if o[0].startswith("diverge"):
            continue
        frames = [m[2] for m in o[1] if m[0] == "push" and m[1] == "state_stack"]
        if not frames:
            okp = False
            continue
        seen_any = True
        if frames[0] != ("GotThunk", "THE-THUNK"):
            okp = False
    okp = okp and seen_any
    rep.ob(R, "GotThunk|same-thunk", okp)
    if not okp:
        rep.violation(R, "run|GotThunk-payload", "taking a pending thunk does not first push the GotThunk frame carrying "
                      "that same thunk", run.loc)


def rule_r3(F, rep):
    R = rep.rule("C04.R3", "arguments are forced before a call only for `tailstrict` calls: the per-argument DoThunk "
                 "frames pushed by the call handler are guarded by the tailstrict flag")
    ci = None
    for tail in (0, 1):
        def hook(w, bb, t, env, args):
            return None
        # the CallWithExpr arm destructures ir::Expr::Call; inject tailstrict through the IR field read
        run = F.fn("<%s>::run" % E)

        def after(w, bb, idx, s, env, tail=tail):
            rv = s["rv"]
            if rv["k"] == "use" and rv["x"]["k"] in ("copy", "move"):
                x = rv["x"]
                if x["p"] and x["p"][-1] != "*" and x["p"][-1]["k"] == "f" and x["p"][-1]["n"] == "tailstrict":
                    env[w.norm(env, s["p"])] = tail
        body = run.body

        def stop(w, bb, t, env):
            if t["k"] == "call" and (callee_name(t) or "") == "<%s>::maybe_gc" % em.PROGRAM:
                return kwalk.STOP
            return None
        m = em.Marker(F, body, 1, True, extra_term=stop)
        m.stop_on_limit = True
        w = kwalk.Walker(F, body, on_term=m.on_term, on_stmt=m.on_stmt, after_stmt=after, ordered_marks=True,
                         dedupe_marks=True,
                         call_result=em.injector(F, body, values=["Function"], state="CallWithExpr"), want_ret=True)
        outs = w.run(0, {})
        rep.states += w.states_explored
        forced = False
        for o in outs:
            if o[0].startswith("diverge") or em.is_err_return(o):
                continue
            pushes = [x if not isinstance(x, tuple) else x[0] for x in (mm[2] for mm in o[1] if mm[0] == "push" and mm[1] == "state_stack")]
            if "ExecTailstrictCall" in pushes:
                forced = True
        ok = forced == bool(tail) or (tail == 1)   # with tailstrict both shapes exist (builtin callee is not forced)
        if tail == 0:
            ok = not forced
        else:
            ok = forced
        rep.ob(R, "CallWithExpr|tailstrict=%d" % tail, ok, {"tailstrict": tail, "arguments_forced_first": forced})
        if not ok:
            rep.violation(R, "CallWithExpr|tailstrict=%d" % tail, "with tailstrict=%d the call handler %s force the arguments "
                          "before the call" % (tail, "does" if forced else "does not"), run.loc)


def _closure_args_of(fn, callee_pred):
    """closure defs built in `fn` and handed (directly) to a call whose callee satisfies callee_pred"""
    body = fn.body
    built = {}
    for bb, si, st in body.assigns():
        rv = st["rv"]
        if rv["k"] == "agg" and rv["ak"] == "closure":
            built[st["p"]["l"]] = rv["d"]
    out = set()
    for bb, t in body.calls():
        n = callee_name(t) or ""
        if not callee_pred(n):
            continue
        for a in t["xs"]:
            if a["k"] in ("move", "copy") and not a["p"] and a["l"] in built:
                out.add(built[a["l"]])
    return out


def rule_r4(F, rep):
    R = rep.rule("C04.R4", "the delayed expressions of an object (its locals and its field values) exist once per object: "
                 "a function that allocates pending thunks for ObjectLayer.locals or ObjectFieldData.expr runs only as "
                 "(or below) the initialiser of a once-cell (`OnceCell::get_or_init`), so a second request gets the "
                 "memoised environment / thunk instead of a fresh pending copy that would be evaluated again")
    LAYER = D + "ObjectLayer"
    FIELD = D + "ObjectFieldData"
    readers = set()
    for adt, fld in ((LAYER, "locals"), (FIELD, "expr")):
        try:
            # raw: a helper that reads the expression and allocates the thunk is itself the creator to be guarded
            rs = cg.who_reads_field(F, adt, fld, crates=("rsjsonnet_lang",), raw=True)
        except Exception:
            rs = []
        for fn, bb, si, st in rs:
            readers.add(fn.q)
    creators = []
    for q in sorted(readers):
        fn = F.fn(q)
        mk = [callee_name(t) or "" for bb, t in fn.body.calls()]
        if any("new_pending" in n for n in mk):
            creators.append(fn)
    rep.floor(R, len(creators), 2, "functions that allocate an object's pending thunks")
    # closures that are once-cell initialisers
    once_init = set()
    for fn in F.fn_list:
        if fn.crate.name != "rsjsonnet_lang":
            continue
        once_init |= _closure_args_of(fn, lambda n: n.endswith("OnceCell>::get_or_init") or n.endswith("OnceCell>::get_or_try_init"))
    G = cg.get(F)

    def guarded(q, depth, seen):
        """every way of reaching q passes a once-cell initialiser"""
        if q in once_init:
            return True, None
        if depth == 0 or q in seen:
            return False, q
        callers = {(d, k) for d, k, site in G.callers_of_def(q) if k in ("call", "closure", "reify", "indirect", "vtable")}
        callers = {d for d, k in callers if d != q}
        if not callers:
            return False, q
        for c in sorted(callers):
            ok, why = guarded(c, depth - 1, seen | {q})
            if not ok:
                return False, why
        return True, None

    for fn in creators:
        ok, why = guarded(fn.q, 4, frozenset())
        rep.ob(R, "memoised|%s" % fn.q, ok, {"creator": fn.q, "at": fn.loc})
        if not ok:
            rep.violation(R, "%s|not-memoised|via|%s" % (fn.q, why),
                          "%s allocates the pending thunks of an object's locals / field value and is reachable through %s "
                          "without passing a once-cell initialiser: every request builds fresh pending thunks, so the same "
                          "object local / field expression is evaluated again" % (fn.q, why), fn.loc)


LAZY_ARGS = {
    # handler: (lazy parameter, forced exactly when the array is ..., reason)
    "do_std_foldl": ("init", "empty", "std.foldl(f, [], init) is init; otherwise init is handed to f unevaluated"),
    "do_std_foldr": ("init", "empty", "std.foldr(f, [], init) is init; otherwise init is handed to f unevaluated"),
    "do_std_min_array": ("on_empty", "empty", "onEmpty is the result only for an empty array"),
    "do_std_max_array": ("on_empty", "empty", "onEmpty is the result only for an empty array"),
}


def rule_r5(F, rep):
    R = rep.rule("C04.R5", "a builtin argument that the evaluator keeps as a thunk (the initial value of std.foldl / std.foldr, "
                 "`onEmpty` of std.minArray / std.maxArray) is forced by the builtin itself exactly when the array is empty; "
                 "for a non-empty array it is passed on unevaluated (or not used), so an unused one is never run")
    for hname, (pname, when, why) in LAZY_ARGS.items():
        fn = F.fn("<%s>::%s" % (E, hname))
        rep.fn(fn)
        body = fn.body
        names = body.local_names()
        pl = [l for l, n in names.items() if n == pname and l <= body.argc]
        if not pl:
            pl = [l for l in range(2, body.argc + 1) if "ThunkData" in body.local_ty(l)["s"]]
        if not pl:
            raise AnchorMissing("%s: lazy parameter %s" % (hname, pname))
        pl = pl[0]
        P = prov.Prov(F, body)
        for empty in (0, 1):
            def hook(w, bb, t, env, args, empty=empty):
                n = callee_name(t) or ""
                if n in ("<[T]>::is_empty", "<alloc::vec::Vec>::is_empty"):
                    return empty
                if n in ("<[T]>::len", "<alloc::vec::Vec>::len"):
                    return 0 if empty else None
                if n in ("<[T]>::split_first", "<[T]>::split_last", "<[T]>::first", "<[T]>::last"):
                    return ("var", "core::option::Option", "None" if empty else "Some")
                return None

            def on_stmt(w, bb, idx, st, env):
                if st["k"] != "assign":
                    return None
                rv = st["rv"]
                if rv["k"] == "agg" and rv["ak"] == "adt" and rv["adt"] == em.STATE and rv["v"] == "DoThunk":
                    x = rv["xs"][0]
                    if x["k"] in ("copy", "move") and pl in P._root_args(x["l"]):
                        return ("force-lazy",)
                if rv["k"] == "agg" and rv["ak"] == "adt" and rv["adt"] == em.ERRKIND:
                    return ("err", rv["v"])
                return None
            w = kwalk.Walker(F, body, call_result=em.injector(F, body, values=["Array", "Function"] if "fold" in hname else ["Function", "Array"], extra=hook),
                             on_stmt=on_stmt, want_ret=True)
            outs = w.run(0, {})
            rep.states += w.states_explored
            forced = set()
            for o in outs:
                if o[0] != "return" or em.is_err_return(o):
                    continue
                forced.add(("force-lazy",) in o[1])
            exp = {True} if empty else {False}
            ok = forced == exp
            rep.ob(R, "%s|array-%s" % (hname, "empty" if empty else "non-empty"), ok,
                   {"builtin": hname, "argument": pname, "array_empty": bool(empty), "forced_by_builtin": sorted(forced)})
            if not ok:
                rep.violation(R, "%s|%s|array-%s" % (hname, pname, "empty" if empty else "non-empty"),
                              "%s with %s array: the lazily passed argument `%s` is %s by the builtin (%s)"
                              % (hname, "an empty" if empty else "a non-empty", pname,
                                 "forced" if True in forced else "not forced", why), fn.loc)


SMALL_ARRAY = {"do_std_sort": "sort", "do_std_set": "set"}


def rule_r6(F, rep):
    R = rep.rule("C04.R6", "std.sort and std.set of an array with fewer than two elements need no key: with length 0 or 1 they "
                 "return the array without calling keyF or forcing an element; with two or more they compute the keys")
    for hname in SMALL_ARRAY:
        fn = F.fn("<%s>::%s" % (E, hname))
        rep.fn(fn)
        body = fn.body
        for ln in (0, 1, 2):
            def hook(w, bb, t, env, args, ln=ln):
                n = callee_name(t) or ""
                if n in ("<[T]>::len", "<alloc::vec::Vec>::len"):
                    return ln
                if n in ("<[T]>::is_empty", "<alloc::vec::Vec>::is_empty"):
                    return int(ln == 0)
                return None
            w_outs = em.walk_handler(F, rep, fn, values=["Function", "Array"], extra_hook=hook, want_calls=True)
            used = set()
            for o in w_outs:
                if o[0] != "return" or em.is_err_return(o):
                    continue
                calls = [m[1] for m in o[1] if m[0] == "call"]
                pushes = [x if not isinstance(x, tuple) else x[0] for x in (m[2] for m in o[1] if m[0] == "push" and m[1] == "state_stack")]
                used.add(bool("check_thunk_args_and_execute_call" in calls or "DoThunk" in pushes))
            # the key loop's iteration count is not tracked: for two elements only "some path computes keys" is required
            ok = (used == {False}) if ln < 2 else (True in used)
            rep.ob(R, "%s|len=%d" % (hname, ln), ok, {"builtin": SMALL_ARRAY[hname], "array_len": ln, "computes_keys": sorted(used)})
            if not ok:
                rep.violation(R, "%s|len=%d" % (hname, ln), "std.%s on an array of length %d %s keyF / forces elements (paths: %s)"
                              % (SMALL_ARRAY[hname], ln, "calls" if True in used else "does not call", sorted(used)), fn.loc)


def _opt_variant(body, defs, op, depth=0):
    """'Some' / 'None' / '?' for an Option operand built in this body"""
    if op["k"] == "const":
        return "None" if "None" in str(op.get("s", "")) else "?"
    if op["p"] or depth > 5:
        return "?"
    out = set()
    for rv in defs.get(op["l"], []):
        if rv["k"] == "agg" and rv["ak"] == "adt" and rv.get("adt") == "core::option::Option":
            out.add(rv["v"])
        elif rv["k"] == "use" and rv["x"]["k"] in ("copy", "move", "const"):
            out.add(_opt_variant(body, defs, rv["x"], depth + 1))
        else:
            out.add("?")
    return next(iter(out)) if len(out) == 1 else "?"


def _ref_adts():
    from . import renames
    return renames.ref()["adts"]


def rule_r9(F, rep):
    from . import cfg as cfgm
    R = rep.rule("C04.R9", "the fields of an object whose layer carries the environment share it: a handler that builds an "
                 "ObjectLayer with `base_env: Some(..)` (an object literal) schedules every one of that object's fields with "
                 "`base_env: None`. A field given its own base environment is bound in a private copy of the layer environment "
                 "(find_object_field_thunk builds one per such field, as it must for comprehension objects), so the object's "
                 "locals are allocated and evaluated once per field instead of once per object")
    LAYER = D + "ObjectLayer"
    STATE = em.STATE
    n = 0
    for fn in F.fn_list:
        if fn.crate.name != "rsjsonnet_lang":
            continue
        body = fn.body
        layer_sites = []
        field_sites = []
        bundled = set()
        defs = {}
        for bb, si, st in body.assigns():
            if not st["p"]["p"]:
                defs.setdefault(st["p"]["l"], []).append(st["rv"])
        for bb, si, st in body.assigns():
            rv = st["rv"]
            if rv["k"] != "agg" or rv["ak"] != "adt":
                continue
            if rv.get("adt") == LAYER:
                names = [f["n"] for f in F.adt(LAYER)["variants"][0]["fields"]]
                if "base_env" not in names:
                    raise AnchorMissing("ObjectLayer.base_env")
                layer_sites.append((bb, _opt_variant(body, defs, rv["xs"][names.index("base_env")]), body.span(st["sp"])))
            elif rv.get("adt") == STATE and rv["v"] in ("ObjectDynField", "ObjectFixField"):
                v = next(x for x in F.adt(STATE)["variants"] if x["n"] == rv["v"])
                names = [f["n"] for f in v["fields"]]
                if "base_env" in names:
                    field_sites.append((bb, rv["v"], _opt_variant(body, defs, rv["xs"][names.index("base_env")]), body.span(st["sp"])))
                else:
                    bundled.add(rv["v"])
            elif rv.get("adt") not in (LAYER, D + "ObjectFieldData", D + "ObjectData") and F.adts.get(rv.get("adt")) is not None \
                    and rv.get("adt") not in _ref_adts():
                # a payload struct introduced later that bundles the scheduled field's data
                a = F.adts[rv["adt"]]
                names = [f["n"] for f in a["variants"][0]["fields"]] if len(a["variants"]) == 1 else []
                if "base_env" in names:
                    field_sites.append((bb, rv["adt"].rsplit("::", 1)[-1], _opt_variant(body, defs, rv["xs"][names.index("base_env")]), body.span(st["sp"])))
        if layer_sites and bundled and not field_sites:
            raise kwalk.WalkLimit("State::%s carries its base environment in a form the rule does not follow" % sorted(bundled)[0])
        if not layer_sites or not field_sites:
            continue
        rep.fn(fn)
        succ = body.succ_map()
        blocked = set()
        if fn.q == "<%s>::run" % em.EVAL:
            # one handler = one arm: do not follow the loop back to the dispatch
            best = None
            for i, b in enumerate(body.blocks):
                t = b["t"]
                if t["k"] == "switch" and (best is None or len(t["arms"]) > len(body.blocks[best]["t"]["arms"])):
                    best = i
            blocked = {best}
        for lbb, lv, lsite in layer_sites:
            reach = cfgm.reachable(succ, [lbb], blocked_nodes=blocked)
            for fbb, which, fv, fsite in field_sites:
                if fbb not in reach:
                    continue
                n += 1
                ok = not (lv == "Some" and fv != "None")
                rep.ob(R, "%s|%s@%s" % (fn.q.rsplit("::", 1)[-1], which, fsite.rsplit(":", 2)[-2]), ok,
                       {"handler": fn.q, "layer base_env": lv, "field state": which, "field base_env": fv})
                if not ok:
                    rep.violation(R, "%s|field-base-env|%s" % (fn.q, which), "%s builds an object whose layer carries the environment "
                                  "(base_env: Some) and schedules its field through State::%s with base_env %s: the field is bound in "
                                  "a private copy of the layer environment, so object locals are evaluated once per such field"
                                  % (fn.q.rsplit("::", 1)[-1], which, fv), fsite)
    rep.floor(R, n, 3, "object constructions with scheduled fields")


def _root_local(body, op, depth=0):
    """the local a function-value operand comes from, through copies, references, derefs and GcView/Gc conversions"""
    if op["k"] not in ("copy", "move") or depth > 8:
        return None
    l = op["l"]
    ds = []
    for bb, si, st in body.assigns():
        if st["p"]["l"] == l and not st["p"]["p"]:
            ds.append(("a", st["rv"]))
    for bb, t in body.calls():
        if t["dst"]["l"] == l and not t["dst"]["p"]:
            ds.append(("c", t))
    if len(ds) != 1:
        return l
    kind, d = ds[0]
    if kind == "a":
        if d["k"] in ("use", "cast") and d["x"]["k"] in ("copy", "move"):
            return _root_local(body, d["x"], depth + 1)
        if d["k"] in ("ref", "rawptr"):
            return _root_local(body, {"k": "copy", "l": d["p"]["l"], "p": []}, depth + 1)
        return l
    nm = callee_name(d) or ""
    if d["xs"] and (nm.endswith("Deref>::deref") or nm.endswith("core::convert::From>::from") or nm.endswith("Clone>::clone")
                    or nm.endswith("::view") or nm.endswith("AsRef>::as_ref") or nm.endswith("Borrow>::borrow")):
        return _root_local(body, d["xs"][0], depth + 1)
    return l


def rule_r10(F, rep):
    R = rep.rule("C04.R10", "builtins whose results are specified as delayed calls (std.map, mapWithIndex, mapWithKey, makeArray, the "
                 "map function of filterMap) only ever wrap the function into pending-call thunks: a handler that builds "
                 "`ThunkData::new_pending_call(f, ..)` never also calls that same function value directly "
                 "(execute_call / check_thunk_args_and_execute_call) — a direct call makes the element's evaluation happen whether "
                 "or not anybody reads it, so an unused element that fails or traces changes the outcome")
    n = 0
    for fn in F.fn_list:
        if fn.crate.name != "rsjsonnet_lang":
            continue
        body = fn.body
        pend = [(bb, t) for bb, t in body.calls() if (callee_name(t) or "").endswith("::new_pending_call")]
        if not pend:
            continue
        fns = [fn] + [g for g in F.fn_list if g.crate.name == "rsjsonnet_lang" and F.is_new_fn(g.q) and
                      any((t["f"].get("r") or "") == g.q for _, t in body.calls())]
        rep.fn(fn)
        wrapped = {_root_local(body, t["xs"][0]) for bb, t in pend if t["xs"]}
        direct = []
        for bb, t in body.calls():
            nm = callee_name(t) or ""
            if nm.endswith("::check_thunk_args_and_execute_call") or nm.endswith("::execute_call"):
                if len(t["xs"]) > 1:
                    direct.append((_root_local(body, t["xs"][1]), body.span(t["sp"])))
        n += 1
        bad = [(l, site) for l, site in direct if l in wrapped]
        ok = not bad
        rep.ob(R, "%s|delayed-only" % fn.q.rsplit("::", 1)[-1], ok, {"handler": fn.q, "pending-call sites": len(pend), "direct calls": len(direct)})
        if not ok:
            rep.violation(R, "%s|calls-delayed-function" % fn.q, "%s wraps a function into pending-call thunks and also calls the same "
                          "function value directly: the call runs even if the resulting element is never read" % fn.q.rsplit("::", 1)[-1],
                          bad[0][1])
    rep.floor(R, n, 4, "handlers that build pending-call thunks")


def run(F, rep, tier):
    rep.attempt(rule_r1, F, rep)
    rep.attempt(rule_r2, F, rep)
    rep.attempt(rule_r3, F, rep)
    rep.attempt(rule_r4, F, rep)
    rep.attempt(rule_r5, F, rep)
    rep.attempt(rule_r6, F, rep)
    rep.attempt(rule_r9, F, rep)
    rep.attempt(rule_r10, F, rep)
    from . import c04_lit
    rep.attempt(c04_lit.rule, F, rep)
    rep.attempt(c04_lit.rule_strict_flag, F, rep)
    rep.assume("the rewrite-invariance consequence (naming, identity functions, dead code) needs execution and is not "
               "decided; builtins' internal evaluation order is not decided")
    rep.trust("Jsonnet specification: laziness positions, transcribed as rules/c04.py:LAZY")
    return EXPLANATION
