"""Pretty-printer of extracted MIR facts (development / --explain aid)."""
import sys
from . import facts
from .facts import pk


def op_s(x, body=None):
    k = x["k"]
    if k in ("copy", "move"):
        return "%s _%s" % (k, pk(x))
    if k == "const":
        if "v" in x:
            return "const %s" % x["v"]
        if "str" in x:
            return "const %r" % x["str"]
        return x["s"]
    return k


def rv_s(rv):
    k = rv["k"]
    if k == "use":
        return op_s(rv["x"])
    if k == "ref":
        return "&%s_%s" % ("mut " if rv["m"] else "", pk(rv["p"]))
    if k == "rawptr":
        return "&raw _%s" % pk(rv["p"])
    if k == "cast":
        return "%s as [%s]" % (op_s(rv["x"]), rv["ck"])
    if k == "binop":
        return "%s(%s, %s)" % (rv["op"], op_s(rv["a"]), op_s(rv["b"]))
    if k == "unop":
        return "%s(%s)" % (rv["op"], op_s(rv["a"]))
    if k == "discr":
        return "discriminant(_%s)" % pk(rv["p"])
    if k == "agg":
        ak = rv["ak"]
        head = ak
        if ak == "adt":
            head = "%s::%s" % (rv["adt"].split("::")[-1], rv["v"])
        elif ak == "closure":
            head = "closure %s" % rv["d"]
        return "%s{%s}" % (head, ", ".join(op_s(x) for x in rv["xs"]))
    if k == "repeat":
        return "[%s; %s]" % (op_s(rv["x"]), rv["n"])
    return k


def term_s(t):
    k = t["k"]
    if k == "goto":
        return "goto -> bb%d" % t["t"]
    if k == "switch":
        arms = ", ".join("%s: bb%d" % (v, b) for v, b in t["arms"])
        return "switchInt(%s) -> [%s, otherwise: bb%d]" % (op_s(t["x"]), arms, t["else"])
    if k == "call":
        f = t["f"]
        name = (f.get("r") or f.get("d")) if f["k"] == "def" else "indirect(%s)" % op_s(f["x"])
        return "_%s = %s(%s) -> %s" % (pk(t["dst"]), name, ", ".join(op_s(x) for x in t["xs"]),
                                       "bb%d" % t["t"] if t["t"] is not None else "!")
    if k == "drop":
        return "drop(_%s) -> bb%d" % (pk(t["p"]), t["t"])
    if k == "assert":
        return "assert(%s == %s, %s) -> bb%d" % (op_s(t["x"]), t["exp"], t["msg"], t["t"])
    return k


def dump_body(body, out=sys.stdout, cleanup=False):
    names = body.local_names()
    for i, l in enumerate(body.locals):
        out.write("  let _%d: %s%s\n" % (i, body.ty(l["t"])["s"], "  // " + names[i] if i in names else ""))
    for i, b in enumerate(body.blocks):
        if b["cleanup"] and not cleanup:
            continue
        out.write("bb%d%s:\n" % (i, " (cleanup)" if b["cleanup"] else ""))
        for s in b["s"]:
            if s["k"] == "assign":
                out.write("    _%s = %s%s\n" % (pk(s["p"]), rv_s(s["rv"]), "   [%s]" % s["mac"] if s.get("mac") else ""))
            else:
                out.write("    %s\n" % s["k"])
        t = b["t"]
        out.write("    %s   @%s\n" % (term_s(t), body.span(t["sp"])))


if __name__ == "__main__":
    F = facts.load()
    pat = sys.argv[1]
    for fn in F.fn_list:
        if pat in fn.q:
            print("fn", fn.q, "@", fn.loc)
            dump_body(fn.body)
            if "--promoted" in sys.argv:
                for i, p in enumerate(fn.promoted):
                    print("promoted[%d]" % i)
                    dump_body(p)
