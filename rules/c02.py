"""C02 — the core language evaluates as the Jsonnet specification defines.

Values are out of reach of static analysis.  Decided clause: "when the specification makes the
program fail for a type reason, evaluation fails" (and the converse) for the operator layer and the
receiver/condition dispatch of the evaluator:
  R1  binary-operator typing table of do_binary_op  (19 ops x 7 x 7 operand types)
  R2  unary-operator typing table                    (4 ops x 7)
  R3  receiver / condition dispatch: index, field, call, if, assert, comprehension specs, slice
"""
from . import kwalk, evalmarks as em
from . import facts
from .facts import callee_name

EXPLANATION = (
    "Static analysis of MIR: do_binary_op, the UnaryOp arm and the receiver-dispatch arms of Evaluator::run "
    "are walked once per combination of (operator, operand variants); per combination the set of "
    "error kinds constructed on all CFG paths is compared with the Jsonnet specification's typing "
    "table (rules/c02.py). Nothing is executed; values are not decided."
)

VAL = ["Null", "Bool", "Number", "String", "Array", "Object", "Function"]
BINOP = "rsjsonnet_lang::ast::BinaryOp"
UNOP = "rsjsonnet_lang::ast::UnaryOp"


def spec_binop(op, l, r):
    """'ok' | 'type-error' | 'unreachable' per the Jsonnet specification's operator typing."""
    if op in ("Lt", "Le", "Gt", "Ge", "Eq", "Ne"):
        return "unreachable"     # lowered through CompareValue / EqualsValue (C08)
    if op == "Add":
        if l == r and l in ("Number", "String", "Array", "Object"):
            return "ok"
        if l == "String" or r == "String":
            return "ok"
        return "type-error"
    if op in ("Sub", "Mul", "Div", "Shl", "Shr", "BitwiseAnd", "BitwiseOr", "BitwiseXor"):
        return "ok" if (l, r) == ("Number", "Number") else "type-error"
    if op == "Rem":
        if (l, r) == ("Number", "Number") or l == "String":
            return "ok"
        return "type-error"
    if op in ("LogicAnd", "LogicOr"):
        return "ok" if (l, r) == ("Bool", "Bool") else "type-error"
    if op == "In":
        return "ok" if (l, r) == ("String", "Object") else "type-error"
    raise KeyError(op)


def rule_r1(F, rep):
    R = rep.rule("C02.R1", "a binary operator applied to operand types outside the specification's typing table "
                 "fails with the invalid-operand-types error, and inside the table never does")
    fn = F.fn("<%s>::do_binary_op" % em.EVAL)
    body = fn.body
    opl = None
    for l in range(2, body.argc + 1):
        t = body.local_ty(l)
        if t["k"] == "adt" and t["d"] == BINOP:
            opl = l
    if opl is None:
        raise kwalk.WalkLimit("do_binary_op: operator argument not found")
    ops = F.variants(BINOP)
    n = 0
    for op in ops:
        for l in VAL:
            for r in VAL:
                outs = em.walk_handler(F, rep, fn, values=[r, l], env={str(opl): ("var", BINOP, op)},
                                       want_calls=False)
                es = set()
                kinds = set()
                for o in outs:
                    errs = {m[1] for m in o[1] if m[0] == "err"}
                    es |= errs
                    if o[0].startswith("diverge") or o[0] == "unreachable":
                        kinds.add("unreachable")
                    elif "InvalidBinaryOpTypes" in errs:
                        kinds.add("type-error")
                    else:
                        kinds.add("ok")
                want = spec_binop(op, l, r)
                if want == "ok":
                    ok = "type-error" not in kinds and "ok" in kinds
                elif want == "type-error":
                    ok = kinds == {"type-error"}
                else:
                    ok = kinds == {"unreachable"}
                n += 1
                rep.ob(R, "%s|%s|%s" % (op, l, r), ok,
                       {"op": op, "lhs": l, "rhs": r, "observed": sorted(kinds), "spec": want}
                       if (op, l, r) in (("Add", "String", "Null"), ("Sub", "String", "String"), ("In", "String", "Object")) else None)
                if not ok:
                    rep.violation(R, "do_binary_op|%s|%s|%s" % (op, l, r),
                                  "operator %s on (%s, %s): evaluator outcome classes %s (errors %s), specification: %s"
                                  % (op, l, r, sorted(kinds), sorted(es), want), fn.loc)
    rep.floor(R, n, 19 * 49, "operator/type combinations")
    # R1b: on numbers each operator applies its own machine operation
    R2 = rep.rule("C02.R1b", "on two numbers each arithmetic/bitwise operator applies the matching IEEE / 64-bit "
                  "integer operation and none of its siblings")
    PRIMARY = {"Add": ("Add", "f64"), "Sub": ("Sub", "f64"), "Mul": ("Mul", "f64"), "Div": ("Div", "f64"),
               "Rem": ("Rem", "f64"), "Shl": ("Shl", "i64"), "Shr": ("Shr", "i64"),
               "BitwiseAnd": ("BitAnd", "i64"), "BitwiseOr": ("BitOr", "i64"), "BitwiseXor": ("BitXor", "i64")}
    FSIB = {"Add", "Sub", "Mul", "Div", "Rem"}
    ISIB = {"BitAnd", "BitOr", "BitXor"}
    for op, (mop, ty) in PRIMARY.items():
        seen = set()

        def on_stmt(w, bb, idx, s2, env):
            if s2["k"] == "assign" and s2["rv"]["k"] == "binop":
                a = s2["rv"]["a"]
                t = w.body.ty(a["t"])["s"] if "t" in a else "?"
                o = s2["rv"]["op"].replace("Unchecked", "").replace("WithOverflow", "")
                if t in ("f64", "i64"):
                    seen.add((o, t))
            return None
        m = em.Marker(F, body, 1, False)
        w = kwalk.Walker(F, body, on_term=m.on_term, on_stmt=on_stmt,
                         call_result=em.injector(F, body, values=["Number", "Number"]), want_ret=True)
        w.run(0, {str(opl): ("var", BINOP, op)})
        rep.states += w.states_explored
        sib = FSIB if ty == "f64" else ISIB
        wrong = {(o, t) for o, t in seen if t == ty and o in sib and o != mop}
        if op == "Shl":
            wrong -= {("BitAnd", "i64")}
        if op == "Shr":
            wrong -= {("BitAnd", "i64")}
        ok = (mop, ty) in seen and not wrong
        rep.ob(R2, "arith|%s" % op, ok, {"op": op, "machine_ops": sorted(map(str, seen))})
        if not ok:
            rep.violation(R2, "do_binary_op|arith|%s" % op,
                          "operator %s on numbers applies machine operations %s; expected %s on %s and no sibling operation"
                          % (op, sorted(map(str, seen)), mop, ty), fn.loc)
    # the comparison operators never reach do_binary_op: checked by C08.R2 (lowering table)


def spec_unop(op, r):
    if op in ("Minus", "Plus", "BitwiseNot"):
        return r == "Number"
    if op == "LogicNot":
        return r == "Bool"
    raise KeyError(op)


def rule_r2(F, rep):
    R = rep.rule("C02.R2", "a unary operator applied to an operand type outside the specification's table fails "
                 "with the invalid-operand-type error, and inside the table never does")
    ops = F.variants(UNOP)
    opi = em.state_field_index(F, "UnaryOp", "op")
    for op in ops:
        for r in VAL:
            outs = em.walk_run_arm(F, rep, "UnaryOp", values=[r], payload={opi: ("var", UNOP, op)}, want_calls=False)
            kinds = set()
            for o in outs:
                errs = {m[1] for m in o[1] if m[0] == "err"}
                kinds.add("type-error" if "InvalidUnaryOpType" in errs else "ok")
            want = spec_unop(op, r)
            ok = (kinds == {"type-error"}) if not want else ("type-error" not in kinds)
            rep.ob(R, "%s|%s" % (op, r), ok, {"op": op, "rhs": r, "observed": sorted(kinds)} if r in ("Bool",) else None)
            if not ok:
                rep.violation(R, "UnaryOp|%s|%s" % (op, r), "unary %s on %s: outcome classes %s, specification says %s"
                              % (op, r, sorted(kinds), "accepted" if want else "type error"))
    rep.floor(R, len(ops) * 7, 28, "operator/type combinations")


# receiver / condition dispatch: (state variant, popped values (pop order), acceptable?, error kinds)
def rule_r3(F, rep):
    R = rep.rule("C02.R3", "indexing, field access, calling, conditions, assertions, comprehension sources and "
                 "slices reject receiver/condition types outside the specification with their specific error")
    def walk(variant, values):
        outs = em.walk_run_arm(F, rep, variant, values=values, want_calls=False)
        es = set()
        allerr = True
        for o in outs:
            e = {m[1] for m in o[1] if m[0] == "err"}
            es |= e
            if o[0].startswith("diverge"):
                continue    # `unreachable!()` on an impossible payload shape: not an outcome
            if not em.is_err_return(o):
                allerr = False
        return es, allerr
    # Index: pops index then object
    for recv in VAL:
        for idx in VAL:
            es, allerr = walk("Index", [idx, recv])
            if recv in ("Null", "Bool", "Number", "Function"):
                want = {"InvalidIndexedType"}
                ok = es == want and allerr
            elif recv == "String":
                ok = (es >= {"StringIndexIsNotNumber"} and allerr) if idx != "Number" else ("StringIndexIsNotNumber" not in es and "InvalidIndexedType" not in es)
                want = "StringIndexIsNotNumber iff index not number"
            elif recv == "Array":
                ok = (es >= {"ArrayIndexIsNotNumber"} and allerr) if idx != "Number" else ("ArrayIndexIsNotNumber" not in es and "InvalidIndexedType" not in es)
                want = "ArrayIndexIsNotNumber iff index not number"
            else:
                ok = (es >= {"ObjectIndexIsNotString"} and allerr) if idx != "String" else ("ObjectIndexIsNotString" not in es and "InvalidIndexedType" not in es)
                want = "ObjectIndexIsNotString iff index not string"
            rep.ob(R, "Index|%s|%s" % (recv, idx), ok, {"receiver": recv, "index": idx, "errors": sorted(es)} if (recv, idx) == ("Number", "Number") else None)
            if not ok:
                rep.violation(R, "Index|%s|%s" % (recv, idx), "indexing %s with %s: errors %s (always fails: %s); specification: %s"
                              % (recv, idx, sorted(es), allerr, want))
    simple = [
        ("Field", "FieldOfNonObject", {"Object"}),
        ("CallWithExpr", "CalleeIsNotFunction", {"Function"}),
        ("TopLevelCall", "CalleeIsNotFunction", {"Function"}),
        ("If", "CondIsNotBool", {"Bool"}),
        ("Assert", "CondIsNotBool", {"Bool"}),
        ("GotInitCompSpec", "ForSpecValueIsNotArray", {"Array"}),
        ("SuperIndex", "ObjectIndexIsNotString", {"String"}),
        ("InSuper", "InvalidBinaryOpTypes", {"String"}),
    ]
    for variant, err, accepted in simple:
        for v in VAL:
            es, allerr = walk(variant, [v])
            if v in accepted:
                ok = err not in es
            else:
                ok = es == {err} and allerr
            rep.ob(R, "%s|%s" % (variant, v), ok, {"state": variant, "value": v, "errors": sorted(es)} if v == "Null" else None)
            if not ok:
                rep.violation(R, "%s|%s" % (variant, v), "%s with a %s value: errors %s (always fails: %s); specification: %s %s"
                              % (variant, v, sorted(es), allerr, "accepts" if v in accepted else "must fail with", sorted(accepted) if v in accepted else err))
    # ObjectDynField: name must be string, null skips the field, anything else is an error
    for v in VAL:
        es, allerr = walk("ObjectDynField", [v])
        if v in ("String", "Null"):
            ok = "FieldNameIsNotString" not in es
        else:
            ok = es == {"FieldNameIsNotString"} and allerr
        rep.ob(R, "ObjectDynField|%s" % v, ok)
        if not ok:
            rep.violation(R, "ObjectDynField|%s" % v, "computed field name of type %s: errors %s" % (v, sorted(es)))
    rep.floor(R, rep.rules[R]["obligations"], 100, "dispatch rows")


def rule_r5(F, rep):
    R = rep.rule("C02.R5", "`&&` and `||` short-circuit and compute the boolean connectives: a false left operand of `&&` (true of "
                 "`||`) is the result without evaluating the right operand; otherwise the right operand is evaluated and combined "
                 "by the operator's own truth table")
    def pushes(o, stack):
        return [m[2] for m in o[1] if m[0] == "push" and m[1] == stack]

    def short(x):
        if isinstance(x, tuple):
            pay = dict(x[1]) if len(x) > 1 and isinstance(x[1], tuple) else {}
            return (x[0], pay.get(0)) if x[0] == "Bool" else x[0]
        return x
    for st, op, absorbing in (("LogicAnd", "LogicAnd", 0), ("LogicOr", "LogicOr", 1)):
        for lhs in (0, 1):
            m = None
            outs = em.walk_run_arm(F, rep, st, values=[("Bool", lhs)], want_calls=False, full=True)
            res = set()
            for o in outs:
                if o[0].startswith("diverge"):
                    continue
                res.add((tuple(short(x) for x in pushes(o, "value_stack")), tuple(short(x) for x in pushes(o, "state_stack"))))
            if lhs == absorbing:
                exp = {((("Bool", absorbing),), ())}
            else:
                exp = {((), ("BinaryOp", "Expr"))}
            ok = res == exp
            rep.ob(R, "%s|lhs=%d" % (st, lhs), ok, {"operator": st, "lhs": bool(lhs), "outcome": sorted(map(str, res))})
            if not ok:
                rep.violation(R, "run|%s|lhs=%d" % (st, lhs), "%s with left operand %s: %s, expected %s (short-circuit / evaluate the "
                              "right operand and combine)" % (st, bool(lhs), sorted(map(str, res)), sorted(map(str, exp))))
    fn = F.fn("<%s>::do_binary_op" % em.EVAL)
    body = fn.body
    opl = [l for l in range(2, body.argc + 1) if body.local_ty(l)["k"] == "adt" and body.local_ty(l)["d"] == BINOP][0]
    for op, f in (("LogicAnd", lambda a, b: a and b), ("LogicOr", lambda a, b: a or b)):
        for a in ((1,) if op == "LogicAnd" else (0,)):     # the other value of the left operand was short-circuited
            for b in (0, 1):
                outs = em.walk_handler(F, rep, fn, values=[("Bool", b), ("Bool", a)], env={str(opl): ("var", BINOP, op)}, want_calls=False, full=True)
                res = set()
                for o in outs:
                    if o[0] != "return" or em.is_err_return(o):
                        res.add("error")
                        continue
                    res.add(tuple(short(x) for x in pushes(o, "value_stack")))
                exp = {(("Bool", int(bool(f(a, b)))),)}
                ok = res == exp
                rep.ob(R, "do_binary_op|%s|%d%d" % (op, a, b), ok, {"op": op, "lhs": a, "rhs": b, "result": sorted(map(str, res))})
                if not ok:
                    rep.violation(R, "do_binary_op|%s|%d%d" % (op, a, b), "%s on (%s, %s) gives %s, expected %s"
                                  % (op, bool(a), bool(b), sorted(map(str, res)), sorted(map(str, exp))), fn.loc)


def rule_r6(F, rep):
    from . import cfg as _cfg
    R = rep.rule("C02.R6", "division and remainder by zero are errors: in do_binary_op the f64 `/` and `%` on two numbers are "
                 "reached only behind a test of the divisor against zero whose zero edge reports DivByZero")
    fn = F.fn("<%s>::do_binary_op" % em.EVAL)
    body = fn.body
    n = 0
    zero_tests = []
    for bb, si, st in body.assigns():
        rv = st["rv"]
        if rv["k"] == "binop" and rv["op"] in ("Eq", "Ne"):
            for x in (rv["a"], rv["b"]):
                if x["k"] == "const" and body.ty(x["t"])["s"] == "f64" and str(x.get("s", "")).startswith(("0.0", "0f", "0_f", "-0.0", "0E0", "0e0")):
                    zero_tests.append((bb, st["p"]["l"], rv["op"]))
    succ = body.succ_map()
    for bb, si, st in body.assigns():
        rv = st["rv"]
        if rv["k"] == "binop" and rv["op"] in ("Div", "Rem") and body.ty(st["p"]["t"])["s"] == "f64":
            n += 1
            # some zero test must edge-dominate this block through its non-zero edge
            guarded = False
            for zb, zl, zop in zero_tests:
                t = body.blocks[zb]["t"]
                if t["k"] != "switch":
                    continue
                # Eq: value 0 (false) edge = non-zero divisor; Ne: otherwise edge
                nz = [tb for v, tb in t["arms"] if v == 0] if zop == "Eq" else [t["else"]]
                z = [t["else"]] if zop == "Eq" else [tb for v, tb in t["arms"] if v == 0]
                if not nz:
                    continue
                reach_wo = _cfg.reachable(succ, [0], blocked_edges=[(zb, nz[0])])
                if bb not in reach_wo:
                    # and the zero edge leads to DivByZero
                    zr = _cfg.reachable(succ, z)
                    dz = any(s2["k"] == "assign" and s2["rv"]["k"] == "agg" and s2["rv"].get("adt") == em.ERRKIND and s2["rv"]["v"] == "DivByZero"
                             for b2 in zr for s2 in body.blocks[b2]["s"])
                    if dz:
                        guarded = True
            rep.ob(R, "do_binary_op|%s@%s" % (rv["op"], body.span(st["sp"]).rsplit(":", 2)[-2]), guarded, {"op": rv["op"], "site": body.span(st["sp"])})
            if not guarded:
                rep.violation(R, "do_binary_op|%s|unguarded" % rv["op"], "the f64 %s in do_binary_op is not behind a divisor-is-zero test "
                              "whose zero edge reports DivByZero" % rv["op"], body.span(st["sp"]))
    rep.floor(R, n, 2, "float division / remainder sites")


def rule_r7(F, rep):
    """Comprehension scoping: `for x in ...` binds x on top of the variables bound so far (an inner `for x` shadows an outer one)."""
    from . import pushgraph, cfg
    R = rep.rule("C02.R7", "in a comprehension the variable of a `for` is bound after the variables inherited from the enclosing "
                 "`for`s: in the GotForSpec arm the insert of the loop variable is the last write to the per-iteration map "
                 "before the map is stored (a later bulk copy would let an outer variable of the same name win)")
    G = pushgraph.PushGraph(F)
    run = G.run
    body = run.body
    sw, ent = G.arm_entries()
    if "GotForSpec" not in ent:
        raise facts.AnchorMissing("State::GotForSpec arm")
    tail = {bb for bb, t in body.calls() if (callee_name(t) or "") == "<%s>::maybe_gc" % em.PROGRAM}
    arm = cfg.reachable(body.succ_map(), [ent["GotForSpec"]], blocked_nodes=list(tail | {sw}))
    n = 0
    for bb in sorted(arm):
        blk = body.blocks[bb]
        t = blk["t"]
        if blk["cleanup"] or t["k"] != "call":
            continue
        nm = callee_name(t) or ""
        if not (nm.endswith("HashMap>::insert") or nm.endswith("::insert")) or "Map" not in nm:
            continue
        # which local is the map?  first argument is `&mut M` (possibly via a temporary)
        def map_local(x):
            if x.get("k") not in ("move", "copy") or x["p"]:
                return None
            defs = [st for b2 in arm for st in body.blocks[b2]["s"]
                    if st["k"] == "assign" and st["p"]["l"] == x["l"] and not st["p"]["p"]]
            if len(defs) == 1 and defs[0]["rv"]["k"] == "ref":
                pl = defs[0]["rv"]["p"]
                if not [p for p in pl["p"] if p != "*"]:
                    return pl["l"]
            return None
        M = map_local(t["xs"][0])
        if M is None:
            continue
        n += 1
        # forward from the insert until the map is moved away
        seen = set()
        todo = [t["t"]] if t.get("t") is not None else []
        late = []
        ins_ref = t["xs"][0].get("l")
        all_borrows = {st["p"]["l"] for b2 in arm for st in body.blocks[b2]["s"]
                       if st["k"] == "assign" and st["rv"]["k"] == "ref" and st["rv"]["m"] and st["rv"]["p"]["l"] == M
                       and not [p for p in st["rv"]["p"]["p"] if p != "*"]} - {ins_ref}
        while todo:
            b = todo.pop()
            if b in seen or b not in arm:
                continue
            seen.add(b)
            bk = body.blocks[b]
            if bk["cleanup"]:
                continue
            borrows = set(all_borrows)
            for st in bk["s"]:
                if st["k"] == "assign" and st["rv"]["k"] == "ref" and st["rv"]["m"] and st["rv"]["p"]["l"] == M \
                        and not [p for p in st["rv"]["p"]["p"] if p != "*"]:
                    borrows.add(st["p"]["l"])
            tt = bk["t"]
            moved = False
            if tt["k"] == "call":
                for x in tt["xs"]:
                    if x.get("k") == "move" and x.get("l") == M and not x["p"]:
                        moved = True
                    if x.get("k") in ("move", "copy") and x.get("l") in borrows:
                        late.append((b, callee_name(tt) or "?"))
            if tt["k"] == "drop" and tt["p"]["l"] == M:
                moved = True
            if moved:
                continue
            todo.extend(body.succs(b))
        ok = not late
        rep.ob(R, "GotForSpec|insert@bb%d" % bb, ok, {"map_local": M, "writes_after_insert": [c for _, c in late]})
        if not ok:
            rep.violation(R, "GotForSpec|write-after-loop-variable|%s" % late[0][1].rsplit("::", 1)[-1],
                          "after binding the `for` variable the per-iteration map is written again by %s: entries copied later "
                          "replace the loop variable when an enclosing `for` used the same name (`[x for x in a for x in b]` "
                          "yields the outer x)" % late[0][1], run.loc)
    rep.floor(R, n, 1, "loop-variable inserts in the GotForSpec arm")


def run(F, rep, tier):
    rep.attempt(rule_r1, F, rep)
    rep.attempt(rule_r2, F, rep)
    rep.attempt(rule_r3, F, rep)
    from . import objflags
    rep.attempt(objflags.rule, F, rep, "C02.R4")
    rep.attempt(rule_r5, F, rep)
    rep.attempt(rule_r6, F, rep)
    rep.attempt(rule_r7, F, rep)
    from . import c07
    rep.attempt(c07.rule_r5, F, rep)      # super / +: inside a field resolve from the layer the field was found in
    # late binding: a derived object re-evaluates inherited fields against itself (fresh thunk / environment cells on clone)
    r12 = rep.attempt(c07.rule_r1_r2_objects, F, rep)
    if r12:
        rep.attempt(c07.rule_r2_clones, F, rep, r12[1])
    from . import visibility
    rep.attempt(visibility.rule, F, rep, "C07.R4")
    rep.attempt(visibility.rule_partition, F, rep, "C07.R6")
    rep.assume("value-level semantics (arithmetic results, environments, defaults, inheritance) are not decided: "
               "no reference interpreter is in reach of static analysis")
    rep.trust("Jsonnet specification operator typing, transcribed in rules/c02.py")
    return EXPLANATION
