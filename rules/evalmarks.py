"""Markers and arm-walkers for the explicit-stack evaluator (`Evaluator::run` and its `do_*` handlers).

A *handler* is either an arm of the big `match state` in `Evaluator::run` or a `do_*` method.  The
marker turns the interesting effects of a handler path into marks:
    ("push", <stack field>, <what>)     Vec::push on one of the evaluator's stacks
    ("err", <EvalErrorKind variant>)     construction of an error kind
    ("call", <method name>)              call of an Evaluator method (push_trace_item, want_field, …)
Keys (state payload, popped values / orderings / bools) are injected so that the path walker decides
the branches that depend on them and explores all others.
"""
from . import kwalk
from .facts import callee_name, AnchorMissing

EVAL = "rsjsonnet_lang::program::eval::Evaluator"
STATE = "rsjsonnet_lang::program::eval::state::State"
VALUE = "rsjsonnet_lang::program::data::ValueData"
ERRKIND = "rsjsonnet_lang::program::error::EvalErrorKind"
ORDERING = "core::cmp::Ordering"
OPTION = "core::option::Option"
PROGRAM = "rsjsonnet_lang::program::Program"


def eval_fields(F):
    a = F.adt(EVAL)
    return [f["n"] for f in a["variants"][0]["fields"]]


def describe_full(w, env, op):
    """(variant, ((field idx, value), ...)) with every tracked scalar / enum payload field."""
    v = w.val(env, op)
    if isinstance(v, tuple) and v[0] == "var":
        key = w.place_key_of_operand(env, op)
        pays = []
        if key is not None:
            a = w.F.adts.get(v[1])
            base = key + ("@%s" % v[2] if a and a["kind"] == "enum" else "")
            pre = base + "."
            for k, pv in env.items():
                if k.startswith(pre) and k[len(pre):].isdigit():
                    if isinstance(pv, int):
                        pays.append((int(k[len(pre):]), pv))
                    elif isinstance(pv, tuple) and pv[0] == "var":
                        pays.append((int(k[len(pre):]), pv[2]))
        return (v[2], tuple(sorted(pays)))
    return describe(w, env, op)


def describe(w, env, op):
    """Short description of an operand's tracked value for marks."""
    v = w.val(env, op)
    if isinstance(v, int):
        return v
    if isinstance(v, tuple):
        if v[0] == "var":
            # include known scalar / enum payload of field 0 when tracked
            key = w.place_key_of_operand(env, op)
            pay = None
            if key is not None:
                a = w.F.adts.get(v[1])
                base = key + ("@%s" % v[2] if a and a["kind"] == "enum" else "")
                pv = env.get(base + ".0")
                if isinstance(pv, int):
                    pay = pv
                elif isinstance(pv, tuple) and pv[0] == "var":
                    pay = pv[2]
                elif isinstance(pv, tuple) and pv[0] == "str":
                    pay = pv[1]
                elif isinstance(pv, tuple) and pv[0] == "fn":
                    pay = pv[1].rsplit("::", 1)[1]
            return (v[2], pay) if pay is not None else v[2]
        if v[0] == "str":
            return v
    return "?"


class Marker:
    """Builds on_term/on_stmt callbacks for a body whose `self_local` is `&mut Evaluator`."""

    def __init__(self, F, body, self_local=1, want_calls=True, extra_term=None):
        self.F = F
        self.body = body
        self.self_local = self_local
        self.fields = eval_fields(F)
        self.want_calls = want_calls
        self.extra_term = extra_term

    def stack_of(self, w, env, op):
        """Which evaluator stack does this `&mut Vec<_>` operand refer to?"""
        v = w.val(env, op)
        if isinstance(v, tuple) and v[0] == "ref":
            key = v[1]
            pre = "%d.*." % self.self_local
            if key.startswith(pre):
                rest = key[len(pre):]
                try:
                    i = int(rest.split(".")[0].split("@")[0])
                    return self.fields[i]
                except (ValueError, IndexError):
                    return None
        return None

    def on_term(self, w, bb, t, env):
        if self.extra_term:
            r = self.extra_term(w, bb, t, env)
            if r is not None:
                return r
        if t["k"] != "call":
            return None
        n = callee_name(t) or ""
        if n == "<alloc::vec::Vec>::push":
            st = self.stack_of(w, env, t["xs"][0])
            if st is not None:
                d = describe_full if getattr(self, "full", False) else describe
                return ("push", st, d(w, env, t["xs"][1]))
            return None
        if self.want_calls and n.startswith("<%s>::" % EVAL):
            short = n.rsplit("::", 1)[1]
            if short in ("report_error", "get_stack_trace", "inc_trace_len", "dec_trace_len"):
                return None
            return ("call", short)
        return None

    def on_stmt(self, w, bb, idx, s, env):
        if s["k"] != "assign":
            return None
        rv = s["rv"]
        if rv["k"] == "agg" and rv["ak"] == "adt" and rv["adt"] == ERRKIND:
            if rv["v"] == "StackOverflow" and getattr(self, "stop_on_limit", False):
                # the per-iteration limit check after the `match`: end of the arm
                return kwalk.STOP
            return ("err", rv["v"])
        return None


def injector(F, body, *, values=(), ords=(), bools=(), state=None, payload=None, extra=None):
    """call_result hook injecting keys:
       values: ValueData variants for successive pops of the value stack (pop order),
       ords:   Ordering variants for successive pops of cmp_ord_stack,
       bools:  ints for successive pops of bool_stack,
       state:  State variant returned by the state-stack pop (for `run`), payload: {field idx: value}.
    """
    values = list(values)
    ords = list(ords)
    bools = list(bools)

    def hook(w, bb, t, env, args):
        if extra:
            r = extra(w, bb, t, env, args)
            if r is not None:
                return r
        n = callee_name(t) or ""
        dty = w.body.ty(t["dst"]["t"])
        dst = w.norm(env, t["dst"])
        if n in ("<core::option::Option>::unwrap", "<core::option::Option>::expect"):
            if dty["k"] == "adt" and dty["d"] == VALUE:
                i = env.get("#vpop", 0)
                env["#vpop"] = i + 1
                if i < len(values) and values[i] is not None:
                    v = values[i]
                    if isinstance(v, tuple):
                        env["%s@%s.0" % (dst, v[0])] = v[1]
                        return ("var", VALUE, v[0])
                    return ("var", VALUE, v)
                return None
            if dty["k"] == "adt" and dty["d"] == ORDERING:
                i = env.get("#opop", 0)
                env["#opop"] = i + 1
                if i < len(ords):
                    return ("var", ORDERING, ords[i])
                return None
            if dty["s"] == "bool":
                i = env.get("#bpop", 0)
                env["#bpop"] = i + 1
                if i < len(bools):
                    return bools[i]
                return None
            if dty["k"] == "ref":
                inner = w.body.ty(dty["t"])
                if inner["k"] == "adt" and inner["d"] == VALUE and values:
                    # `value_stack.last().unwrap()` peeks the top value: same key as the next pop
                    i = env.get("#vpop", 0)
                    if i < len(values) and values[i] is not None:
                        v = values[i]
                        if isinstance(v, tuple):
                            env["VS%d@%s.0" % (i, v[0])] = v[1]
                            env["VS%d" % i] = ("var", VALUE, v[0])
                        else:
                            env["VS%d" % i] = ("var", VALUE, v)
                        return ("ref", "VS%d" % i)
            return None
        if n == "<alloc::vec::Vec>::pop" and state is not None:
            if dty["k"] == "adt" and dty["d"] == OPTION and dty["a"]:
                inner = w.body.ty(dty["a"][0])
                if inner["k"] == "adt" and inner["d"] == STATE:
                    if env.get("#spop"):
                        return None
                    env["#spop"] = 1
                    env["%s@Some.0" % dst] = ("var", STATE, state)
                    for fi, fv in (payload or {}).items():
                        env["%s@Some.0@%s.%d" % (dst, state, fi)] = fv
                    return ("var", OPTION, "Some")
        return None
    return hook


def state_field_index(F, variant, field):
    a = F.adt(STATE)
    for v in a["variants"]:
        if v["n"] == variant:
            for i, f in enumerate(v["fields"]):
                if f["n"] == field:
                    return i
            raise AnchorMissing("State::%s has no field %s" % (variant, field))
    raise AnchorMissing("State::%s" % variant)


def walk_run_arm(F, rep, variant, *, values=(), ords=(), bools=(), payload=None, ordered=True,
                 want_calls=True, extra_hook=None, max_states=400000, full=False):
    """Walk the arm of `Evaluator::run` that handles State::<variant>; stops at the end of the loop
    iteration (the stack-limit check / maybe_gc) or at a return."""
    run = F.fn("<%s>::run" % EVAL)
    rep.fn(run)
    body = run.body

    def stop_at_loop_end(w, bb, t, env):
        if t["k"] == "call":
            n = callee_name(t) or ""
            if n == "<%s>::maybe_gc" % PROGRAM:
                return kwalk.STOP
            if n == "<alloc::vec::Vec>::pop" and env.get("#spop"):
                # back at the loop head without passing maybe_gc
                dty = w.body.ty(t["dst"]["t"])
                if dty["k"] == "adt" and dty["a"]:
                    inner = w.body.ty(dty["a"][0])
                    if inner["k"] == "adt" and inner["d"] == STATE:
                        return (kwalk.STOP, ("loop-without-limit-check",))
        return None

    m = Marker(F, body, 1, want_calls, extra_term=stop_at_loop_end)
    m.stop_on_limit = True
    m.full = full
    w = kwalk.Walker(F, body, on_term=m.on_term, on_stmt=m.on_stmt, ordered_marks=ordered,
                     call_result=injector(F, body, values=values, ords=ords, bools=bools, state=variant,
                                          payload=payload, extra=extra_hook),
                     want_ret=True, max_states=max_states, ret_prefixes=("0", "BS", "VS", "#"))
    outs = w.run(0, {})
    rep.states += w.states_explored
    return outs


def walk_handler(F, rep, fn, *, values=(), ords=(), bools=(), env=None, ordered=True, want_calls=True,
                 extra_hook=None, extra_term=None, max_states=400000, pure_calls=None, full=False):
    """Walk a `do_*` handler method (self = _1) with injected keys."""
    rep.fn(fn)
    body = fn.body
    m = Marker(F, body, 1, want_calls, extra_term=extra_term)
    m.full = full
    w = kwalk.Walker(F, body, on_term=m.on_term, on_stmt=m.on_stmt, ordered_marks=ordered,
                     call_result=injector(F, body, values=values, ords=ords, bools=bools, extra=extra_hook),
                     want_ret=True, max_states=max_states, pure_calls=pure_calls,
                     ret_prefixes=("0", "BS", "VS"))
    outs = w.run(0, dict(env or {}))
    rep.states += w.states_explored
    return outs


def is_err_return(outcome):
    kind, marks, ret = outcome
    if kind != "return" or ret is None:
        return False
    d = dict(ret)
    v = d.get("0")
    return isinstance(v, tuple) and v[0] == "var" and v[2] == "Err"


def marks_of(outcome, kind):
    return [m for m in outcome[1] if m[0] == kind]
