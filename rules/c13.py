"""C13 — imports resolve deterministically, load once and deliver exact content.

Decided clauses (file-system semantics of canonicalize/symlinks are trusted):
  R1  search order: absolute paths bypass the search; relative paths try the importing file's directory
      first and then the library directories in stored order, first existing candidate wins; the CLI
      registers -J directories right-most first
  R2  one load per file: the cache is looked up and filled with the canonicalized path, filled only after
      a successful load, and hands out the cached thunk
  R3  exact content: importbin delivers the bytes read, importstr their lossy UTF-8 decoding, std.thisFile
      the path the file was loaded by; bytes become numbers through u8 -> f64
  R4  failures are reported at the import site: every failing step of the three callbacks returns
      ImportError and the evaluator turns it into ImportFailed carrying the import expression's span
"""
from . import kwalk, prov, cfg, cg, evalmarks as em
from .facts import callee_name

EXPLANATION = (
    "Static analysis of the front-end's MIR: origin analysis of the candidate-directory iterator (chain "
    "order), of the cache keys, of the delivered payloads and of std.thisFile; edge dominance of the cache "
    "insertion by the successful-load edge; forced-failure walks of the three import callbacks and of the "
    "evaluator's import arms."
)

SI = "rsjsonnet_front::session::SessionInner"
PROGRAM = "rsjsonnet_lang::program::Program"
OPTION = "core::option::Option"
RESULT = "core::result::Result"


def deep_origins(P, op, depth=0, seen=None):
    """origins of an operand, following *all* call arguments of non-local calls (adapter chains)"""
    seen = seen if seen is not None else set()
    out = set()
    if op["k"] not in ("copy", "move") or depth > 10:
        return P.origins_op(op)
    key = (op["l"], tuple(str(p) for p in op["p"]))
    if key in seen:
        return out
    seen.add(key)
    org = P.origins_op(op)
    out |= org
    for d in P.defs.get(op["l"], []):
        if d[0] == "call":
            for a in d[3]["xs"]:
                if a["k"] in ("copy", "move"):
                    out |= deep_origins(P, a, depth + 1, seen)
                elif a["k"] == "const":
                    out |= P.origins_op(a)
        elif d[0] == "assign":
            rv = d[3]["rv"]
            for key2 in ("x", "a", "b"):
                y = rv.get(key2)
                if isinstance(y, dict) and y.get("k") in ("copy", "move"):
                    out |= deep_origins(P, y, depth + 1, seen)
            if rv["k"] in ("ref", "rawptr"):
                y = dict(rv["p"])
                y["k"] = "copy"
                out |= deep_origins(P, y, depth + 1, seen)
            if rv["k"] == "agg":
                for y in rv["xs"]:
                    if y.get("k") in ("copy", "move"):
                        out |= deep_origins(P, y, depth + 1, seen)
    return out


def fields_of(org, adt):
    return {o[2] for o in org if o[0] == "field" and o[1] == adt}


ITERATOR = "core::iter::traits::iterator::Iterator"
PATH = "std::path::Path"
# consumers / filters of an iterator whose choice among several existing candidates this rule has no model of
UNMODELLED_SEARCH = ("find_map", "rfind", "position", "rposition", "try_fold", "try_for_each", "try_rfold", "filter", "filter_map",
                     "skip_while", "take_while", "map_while", "last", "nth", "nth_back", "next_back", "max", "min", "max_by",
                     "min_by", "max_by_key", "min_by_key", "fold", "reduce", "scan", "flat_map", "flatten")


def iter_method(name, method):
    """`name` is Iterator::<method>, as the trait item or resolved to an implementation"""
    return name == "%s::%s" % (ITERATOR, method) or name.endswith(" as %s>::%s" % (ITERATOR, method))


def producer_call(P, op, depth=0):
    """(bb, terminator) of the one call whose result the operand holds, looking through moves, copies and borrows of whole
    locals; None when the local has several definitions or is not a call result"""
    if op.get("k") not in ("copy", "move") or depth > 8 or any(p != "*" for p in op["p"]):
        return None
    ds = P.defs.get(op["l"], [])
    if len(ds) != 1:
        return None
    d = ds[0]
    if d[0] == "call":
        return d[1], d[3]
    if d[0] == "assign":
        rv = d[3]["rv"]
        if rv["k"] in ("use", "cast") and rv["x"]["k"] in ("copy", "move"):
            return producer_call(P, rv["x"], depth + 1)
        if rv["k"] == "ref":
            y = dict(rv["p"])
            y["k"] = "copy"
            return producer_call(P, y, depth + 1)
    return None


def closure_body(F, body, op):
    if "t" not in op:
        return None
    ty = body.ty(op["t"])
    if ty["k"] != "closure":
        return None
    c = F.fn_opt(ty["d"])
    return c if c is not None and c.body is not None else None


def is_returned(P, body, dst):
    """the call result is what the function returns (written to the return place, directly or by whole-local moves)"""
    if dst["p"]:
        return False
    cur = {dst["l"]}
    for _ in range(4):
        if 0 in cur:
            return True
        nxt = set()
        for bb, si, s in body.assigns():
            rv = s["rv"]
            if rv["k"] == "use" and rv["x"]["k"] in ("copy", "move") and not rv["x"]["p"] and rv["x"]["l"] in cur and not s["p"]["p"]:
                nxt.add(s["p"]["l"])
        cur = nxt
    return False


def arg_roots(org):
    return {o[1] for o in org if o[0] == "arg"}


def predicate_is_exists(F, clo):
    """the closure answers exactly `<its item>.exists()`"""
    cb = clo.body
    sites = [t for _, t in cb.calls() if (callee_name(t) or "") == "<%s>::exists" % PATH]
    if len(sites) != 1 or cb.argc != 2:
        return False
    if arg_roots(deep_origins(prov.Prov(F, cb), sites[0]["xs"][0])) != {2}:
        return False
    for v in (0, 1):
        def hook(w, bb, t, env, args, v=v):
            return v if (callee_name(t) or "") == "<%s>::exists" % PATH else None
        w = kwalk.Walker(F, cb, call_result=hook, want_ret=True)
        outs = w.run(0, {})
        if not outs or {dict(o[2] or ()).get("0") if o[0] == "return" else "diverge" for o in outs} != {v}:
            return False
    return True


def lazy_first_wins(F, body, P, chain_bbs):
    """`<candidate directories>.map(|dir| dir.join(path)).find(|c| c.exists())` returned as the result: Iterator::map is lazy and
    order preserving and Iterator::find stops at the first item its predicate accepts (std), so this is the search loop.
    Returns True / False; raises WalkLimit for iterator searches this rule has no model of."""
    finds = [(bb, t) for bb, t in body.calls() if iter_method(callee_name(t) or "", "find")]
    if not finds:
        other = sorted({m for _, t in body.calls() for m in UNMODELLED_SEARCH if iter_method(callee_name(t) or "", m)})
        if other:
            raise kwalk.WalkLimit("find_import searches the candidates with Iterator::%s: which existing candidate wins is not "
                                  "modelled for this adapter" % "/".join(other))
        return False
    if len(finds) != 1:
        return False
    bb, t = finds[0]
    if not is_returned(P, body, t["dst"]):
        return False
    pred = closure_body(F, body, t["xs"][1])
    if pred is None or not predicate_is_exists(F, pred):
        return False
    # the items searched: join(candidate directory, import path), one per directory, in the order of the directories
    m = producer_call(P, t["xs"][0])
    if m is None or not iter_method(callee_name(m[1]) or "", "map"):
        return False
    mt = m[1]
    jc = closure_body(F, body, mt["xs"][1])
    if jc is None or jc.body.argc != 2:
        return False
    P2 = prov.Prov(F, jc.body)
    j = producer_call(P2, {"k": "move", "l": 0, "p": []})
    if j is None or (callee_name(j[1]) or "") != "<%s>::join" % PATH:
        return False
    if arg_roots(deep_origins(P2, j[1]["xs"][0])) != {2} or arg_roots(deep_origins(P2, j[1]["xs"][1])) != {1}:
        return False
    # what the closure captured is the import path (an argument of find_import), nothing read from the session
    cap = deep_origins(P, mt["xs"][1])
    if not arg_roots(cap) or fields_of(cap, SI) or any(body.local_ty(a)["s"] != "&str" for a in arg_roots(cap)):
        return False
    src = producer_call(P, mt["xs"][0])
    return src is not None and src[0] in chain_bbs


def rule_r1(F, rep):
    R = rep.rule("C13.R1", "a relative import is looked up first next to the importing file and then in the library "
                 "directories in registration order, the first existing candidate wins; an absolute path is only "
                 "tested itself; the CLI registers -J directories right-most first")
    fn = F.fn("<%s>::find_import" % SI)
    rep.fn(fn)
    body = fn.body
    P = prov.Prov(F, body)
    # chain(a, b)
    chains = [(bb, t) for bb, t in body.calls() if (callee_name(t) or "").endswith("Iterator::chain")]
    ok = False
    detail = None
    if len(chains) == 1:
        bb, t = chains[0]
        oa = deep_origins(P, t["xs"][0])
        ob = deep_origins(P, t["xs"][1])
        fa, fb = fields_of(oa, SI), fields_of(ob, SI)
        detail = {"first": sorted(fa), "second": sorted(fb)}
        ok = fa == {"source_paths"} and fb == {"search_paths"}
        # no reversal / sorting of the library directories
        names = {callee_name(t2) or "" for _, t2 in body.calls()}
        if any(n.endswith("Iterator::rev") or "sort" in n for n in names):
            ok = False
            detail["reordered"] = True
    if len(chains) == 0:
        # no `a.chain(b)`: the candidates are built at several places — the importing file's directory must be tried at a point
        # from which the library directories are still ahead, and never the other way round
        succ0 = body.succ_map()
        joins = []
        for bb, t in body.calls():
            if (callee_name(t) or "") == "<std::path::Path>::join":
                fa = fields_of(deep_origins(P, t["xs"][0]), SI)
                joins.append((bb, fa))
        A = [bb for bb, fa in joins if fa == {"source_paths"}]
        B = [bb for bb, fa in joins if fa == {"search_paths"}]
        other = [sorted(fa) for bb, fa in joins if fa not in ({"source_paths"}, {"search_paths"})]
        detail = {"importer_dir_candidates": len(A), "library_candidates": len(B), "other": other}
        ok = bool(A) and bool(B) and not other
        for a in A:
            for b in B:
                if a in cfg.reachable(succ0, [b]) or b not in cfg.reachable(succ0, [a]):
                    ok = False
                    detail["order"] = "a library directory can be tried before the importing file's directory"
        names = {callee_name(t2) or "" for _, t2 in body.calls()}
        if any(n.endswith("Iterator::rev") or "sort" in n for n in names):
            ok = False
            detail["reordered"] = True
    rep.ob(R, "find_import|candidate-order", ok, detail)
    if not ok:
        rep.violation(R, "%s|candidate-order" % fn.q, "candidate directories are not `importing file's directory` followed by "
                      "the library directories in stored order (%s)" % detail, fn.loc)
    # first existing wins: return Some(candidate) inside the loop on the exists() true edge
    succ = body.succ_map()
    loops = set()
    for tail, head in cfg.back_edges(succ, 0):
        loops |= cfg.natural_loop(succ, body.pred_map(), tail, head)
    exists_sites = [(bb, t) for bb, t in body.calls() if (callee_name(t) or "") == "<std::path::Path>::exists"]
    okw = False
    for bb, t in exists_sites:
        nb = t["t"]
        tb = body.blocks[nb]["t"]
        if tb["k"] != "switch":
            continue
        true_t = tb["else"]
        # the true target builds Some(...) and leaves the loop without another iteration
        builds = any(s["k"] == "assign" and s["rv"]["k"] == "agg" and s["rv"].get("adt") == OPTION and s["rv"]["v"] == "Some"
                     and not s["p"]["p"] and s["p"]["l"] == 0 for s in body.blocks[true_t]["s"])
        if bb in loops and builds:
            r = cfg.reachable(succ, [true_t])
            heads = {h for _, h in cfg.back_edges(succ, 0)}
            if not (r & heads):
                # candidate = join(base, path)
                org = deep_origins(P, t["xs"][0])
                if any(o[0] == "call" and o[1] == "<std::path::Path>::join" for o in org):
                    okw = True
    undecided = None
    if not okw:
        # no search loop in the body: the same search written as a lazy iterator pipeline
        try:
            okw = lazy_first_wins(F, body, P, [bb for bb, _ in chains])
        except kwalk.WalkLimit as e:
            undecided = e           # raised after the remaining clauses have been checked
    if undecided is None:
        rep.ob(R, "find_import|first-existing-wins", okw)
    if not okw and undecided is None:
        rep.violation(R, "%s|first-wins" % fn.q, "the search loop does not return the first existing `dir.join(path)` candidate", fn.loc)
    # absolute: is_absolute true edge only tests the path itself
    ok_abs = False
    for bb, t in body.calls():
        if (callee_name(t) or "") == "<std::path::Path>::is_absolute":
            tb = body.blocks[t["t"]]["t"]
            if tb["k"] == "switch":
                true_t = tb["else"]
                false_t = dict((v, b) for v, b in tb["arms"]).get(0)
                r = cfg.reachable(succ, [true_t], blocked_nodes=[false_t] if false_t is not None else [])
                calls = {callee_name(body.blocks[b]["t"]) or "" for b in r if body.blocks[b]["t"]["k"] == "call"}
                ok_abs = "<std::path::Path>::exists" in calls and not any("chain" in c or "search_paths" in c or c.endswith("HashMap>::get") for c in calls)
    rep.ob(R, "find_import|absolute-bypasses-search", ok_abs)
    if not ok_abs:
        rep.violation(R, "%s|absolute" % fn.q, "an absolute import path does not bypass the directory search", fn.loc)
    # CLI: add_search_path(path) for path in jpath.iter().rev()
    mi = F.fn("rsjsonnet::main_inner")
    Pm = prov.Prov(F, mi.body)
    okr = False
    for bb, t in mi.body.calls():
        if (callee_name(t) or "") == "<rsjsonnet_front::session::Session>::add_search_path":
            org = deep_origins(Pm, t["xs"][1])
            names = set()
            # collect adapter calls feeding the loop variable
            stack = [t["xs"][1]]
            seen = set()
            jpath = False
            while stack:
                x = stack.pop()
                if x.get("k") in ("copy", "move") and any(p != "*" and p["k"] == "f" and p.get("n") == "jpath" for p in x["p"]):
                    jpath = True
                if x.get("k") not in ("copy", "move") or x["l"] in seen:
                    continue
                seen.add(x["l"])
                for d in Pm.defs.get(x["l"], []):
                    if d[0] == "call":
                        names.add(callee_name(d[3]) or "")
                        stack += [a for a in d[3]["xs"]]
                    elif d[0] == "assign":
                        rv = d[3]["rv"]
                        for k2 in ("x",):
                            if isinstance(rv.get(k2), dict):
                                stack.append(rv[k2])
                        if rv["k"] in ("ref",):
                            y = dict(rv["p"])
                            y["k"] = "copy"
                            stack.append(y)
            # the whole list is registered, reversed and nothing else: no adapter that drops, reorders or de-duplicates entries
            # (a directory repeated further right must keep the priority of its right-most position)
            reshaping = sorted(n for n in names if any(n.endswith("Iterator::" + a) or n.endswith("Iterator>::" + a) or ("::" + a) in n.rsplit("<", 1)[-1]
                                                      for a in ("filter", "filter_map", "skip", "take", "step_by", "skip_while", "take_while",
                                                                "dedup", "dedup_by_key", "sort", "sort_by", "sort_unstable", "retain")))
            okr = any(n.endswith("Iterator::rev") for n in names) and jpath and not reshaping
            if reshaping:
                rep.note("jpath adapters: %s" % reshaping)
    rep.ob(R, "cli|jpath-reversed", okr)
    if not okr:
        rep.violation(R, "rsjsonnet::main_inner|jpath-order", "-J directories are not registered in reverse order (the right-most "
                      "-J must be searched first)", mi.loc)
    if undecided is not None:
        raise undecided


def rule_r2(F, rep):
    R = rep.rule("C13.R2", "the source cache is consulted and filled with the canonicalized path, only after the source "
                 "loaded successfully; a hit returns the cached thunk without loading again")
    fn = F.fn("<%s>::load_real_file" % SI)
    rep.fn(fn)
    body = fn.body
    P = prov.Prov(F, body)
    succ = body.succ_map()
    gets = [(bb, t) for bb, t in body.calls() if (callee_name(t) or "").endswith("HashMap>::get")]
    ins = [(bb, t) for bb, t in body.calls() if (callee_name(t) or "").endswith("HashMap>::insert")]
    def is_cache(t):
        return "source_cache" in fields_of(deep_origins(P, t["xs"][0]), SI)
    gets = [(bb, t) for bb, t in gets if is_cache(t)]
    ins = [(bb, t) for bb, t in ins if is_cache(t)]
    ok = len(gets) == 1 and len(ins) == 1
    if ok:
        kg = deep_origins(P, gets[0][1]["xs"][1])
        ki = deep_origins(P, ins[0][1]["xs"][1])
        canon = lambda o: any(x[0] == "call" and x[1] == "<std::path::Path>::canonicalize" for x in o)
        raw = lambda o: any(x[0] == "arg" for x in o) and not canon(o)
        ok = canon(kg) and canon(ki) and not raw(kg) and not raw(ki)
        detail = {"lookup_key": sorted(map(str, kg))[:4], "insert_key": sorted(map(str, ki))[:4]}
    else:
        detail = {"gets": len(gets), "inserts": len(ins)}
    rep.ob(R, "cache-key|canonical", ok, detail)
    if not ok:
        rep.violation(R, "%s|cache-key" % fn.q, "the source cache is not keyed by the canonicalized path on both lookup and "
                      "insertion (%s): one file reached by two spellings would be loaded twice" % detail, fn.loc)
    # insertion only on the Ok edge of load_source
    oki = False
    if len(ins) == 1:
        ibb = ins[0][0]
        for bb, t in body.calls():
            if (callee_name(t) or "") == "<%s>::load_source" % PROGRAM:
                # the block after the call switches on the discriminant: Ok arm
                nb = t["t"]
                tb = body.blocks[nb]["t"]
                if tb["k"] == "switch":
                    ok_t = dict((v, b) for v, b in tb["arms"]).get(0)
                    if ok_t is not None and ibb not in cfg.reachable(succ, [0], blocked_edges=[(nb, ok_t)]):
                        oki = True
    rep.ob(R, "cache-insert|after-successful-load", oki)
    if not oki:
        rep.violation(R, "%s|cache-insert" % fn.q, "the cache is filled on a path that does not pass the successful-load edge: a "
                      "failed load would poison later requests", fn.loc)
    # a hit returns the cached thunk before any read
    okh = False
    if len(gets) == 1:
        gbb, gt = gets[0]
        tb = body.blocks[gt["t"]]["t"]
        if tb["k"] == "switch":
            some_t = dict((v, b) for v, b in tb["arms"]).get(1, tb["else"])
            r = cfg.reachable(succ, [some_t])
            calls = {callee_name(body.blocks[b]["t"]) or "" for b in r if body.blocks[b]["t"]["k"] == "call"}
            okh = "std::fs::read" not in calls and "<%s>::load_source" % PROGRAM not in calls
    rep.ob(R, "cache-hit|no-reload", okh)
    if not okh:
        rep.violation(R, "%s|cache-hit" % fn.q, "a cache hit still reads or loads the file again", fn.loc)



def ok_payload_calls(F, fn, depth=0):
    """for every way `fn` returns Ok(payload): the set of functions the payload is computed by.  A helper that did not exist on
    the reference tree and whose result is returned as is counts as part of `fn` (its own Ok sites are listed instead)."""
    out = []
    P = prov.Prov(F, fn.body)
    for bb, si, s in fn.body.assigns():
        rv = s["rv"]
        if rv["k"] == "agg" and rv.get("adt") == RESULT and rv["v"] == "Ok" and not s["p"]["p"] and s["p"]["l"] == 0:
            org = deep_origins(P, rv["xs"][0])
            out.append({o[1] for o in org if o[0] == "call"})
    if depth < 3:
        for bb, t in fn.body.calls():
            d = t["dst"]
            f = t["f"]
            if d["l"] == 0 and not d["p"] and f.get("rlocal") and f.get("r") and F.is_new_fn(f["r"]):
                g = F.fn_opt(f["r"])
                if g is not None and g.body is not None:
                    out += ok_payload_calls(F, g, depth + 1)
    return out


def rule_r3(F, rep):
    R = rep.rule("C13.R3", "importbin returns exactly the bytes read, importstr their lossy UTF-8 decoding, bytes become "
                 "numbers by u8 -> f64, and std.thisFile is the display form of the path the file was loaded by")
    for name, want in (("import_bin", None), ("import_str", "alloc::string::String::from_utf8_lossy")):
        fn = F.fn("<%s as rsjsonnet_lang::program::Callbacks>::%s" % (SI, name))
        rep.fn(fn)
        ok = False
        detail = None
        for calls in ok_payload_calls(F, fn):
            if True:
                detail = sorted(calls)
                if name == "import_bin":
                    ok = calls == {"std::fs::read"} or calls == {"std::fs::read", "<%s>::find_import" % SI}
                else:
                    allowed = {"std::fs::read", "<alloc::string::String>::from_utf8_lossy", "<alloc::borrow::Cow>::into_owned",
                               "<%s>::find_import" % SI}
                    ok = "<alloc::string::String>::from_utf8_lossy" in calls and calls <= allowed
        rep.ob(R, "%s|payload" % name, ok, {"callback": name, "payload_derives_from": detail})
        if not ok:
            rep.violation(R, "%s|payload" % fn.q, "%s delivers a payload derived from %s (expected the bytes read%s, nothing else)"
                          % (name, detail, " through from_utf8_lossy" if name == "import_str" else ""), fn.loc)
    # bytes -> numbers: the closure in do_expr's ImportBin arm
    de = F.fn("<%s>::do_expr" % em.EVAL)
    okb = False
    for c in F.closures_of(de):
        t = c.body.local_ty(2)
        if t["k"] == "ref" and c.body.ty(t["t"])["s"] == "u8":
            names = {callee_name(tt) or "" for _, tt in c.body.calls()}
            casts = [s for _, _, s in c.body.assigns() if s["rv"]["k"] == "cast"]
            okb = names == {"<f64 as core::convert::From>::from"} and not casts
    rep.ob(R, "importbin|u8-to-number", okb)
    if not okb:
        rep.violation(R, "%s|importbin-bytes" % de.q, "imported bytes are not turned into numbers by a plain u8 -> f64 conversion", de.loc)
    # std.thisFile: repr_path passed to load_source = path.display().to_string()
    fn = F.fn("<%s>::load_real_file" % SI)
    P = prov.Prov(F, fn.body)
    okt = False
    for bb, t in fn.body.calls():
        if (callee_name(t) or "") == "<%s>::load_source" % PROGRAM:
            org = deep_origins(P, t["xs"][-1])
            calls = {o[1] for o in org if o[0] == "call"}
            okt = "<std::path::Path>::display" in calls and not any("canonicalize" in c for c in calls)
    rep.ob(R, "thisFile|path-as-given", okt)
    if not okt:
        rep.violation(R, "%s|thisFile" % fn.q, "the path recorded for std.thisFile is not the display form of the path the file "
                      "was loaded by", fn.loc)


def rule_r4(F, rep):
    R = rep.rule("C13.R4", "a missing or unreadable import is an ImportError in every callback, and the evaluator reports it "
                 "as ImportFailed with the span of the import expression")
    for name in ("import", "import_str", "import_bin"):
        fn = F.fn("<%s as rsjsonnet_lang::program::Callbacks>::%s" % (SI, name))
        body = fn.body
        sites = [(bb, callee_name(t)) for bb, t in body.calls()
                 if (callee_name(t) or "") in ("<%s>::find_import" % SI, "std::fs::read", "<%s>::load_real_file" % SI)]
        for fbb, fname in sites:
            def hook(w, bb, t, env, args, fbb=fbb):
                if bb == fbb:
                    dty = w.body.ty(t["dst"]["t"])
                    env["#forced"] = ("f",)
                    if dty["d"] == OPTION:
                        return ("var", OPTION, "None")
                    return ("var", RESULT, "Err")
                return None
            w = kwalk.Walker(F, body, call_result=hook, want_ret=True, ret_prefixes=("0", "#forced"))
            outs = w.run(0, {})
            rep.states += w.states_explored
            ok = True
            reached = False
            for kind, marks, ret in outs:
                d = dict(ret or ())
                if d.get("#forced") is None or kind != "return":
                    continue
                reached = True
                top = d.get("0")
                if not (isinstance(top, tuple) and top[0] == "var" and top[2] == "Err"):
                    ok = False
            rep.ob(R, "%s|fail|%s" % (name, fname.rsplit("::", 1)[1]), ok and reached)
            if not (ok and reached):
                rep.violation(R, "%s|fail|%s" % (fn.q, fname.rsplit("::", 1)[1]), "when %s fails inside %s the callback does not "
                              "return ImportError" % (fname.rsplit("::", 1)[1], name), fn.loc)
    # evaluator arms
    de = F.fn("<%s>::do_expr" % em.EVAL)
    IR = "rsjsonnet_lang::program::ir::Expr"
    ex = F.adt(IR)
    expr_l = None
    for l in range(1, de.body.argc + 1):
        t = de.body.local_ty(l)
        if t["k"] == "ref" and de.body.ty(t["t"]).get("d") == IR:
            expr_l = l
    for variant, cb in (("Import", "import"), ("ImportStr", "import_str"), ("ImportBin", "import_bin")):
        v = [x for x in ex["variants"] if x["n"] == variant][0]
        si = [i for i, f in enumerate(v["fields"]) if f["n"] == "span"][0]
        env = {"%d.*" % expr_l: ("var", IR, variant), "%d.*@%s.%d" % (expr_l, variant, si): ("str", "THE-SPAN")}

        def hook(w, bb, t, env2, args, cb=cb):
            f = t["f"]
            if f["k"] == "def" and f["d"] == "rsjsonnet_lang::program::Callbacks::%s" % cb:
                return ("var", RESULT, "Err")
            return None

        def on_stmt(w, bb, idx, s, env2):
            if s["k"] == "assign" and s["rv"]["k"] == "agg" and s["rv"].get("adt") == em.ERRKIND:
                rv = s["rv"]
                sp = None
                if "span" in rv["fn"]:
                    sp = w.val(env2, rv["xs"][rv["fn"].index("span")])
                return ("err", rv["v"], sp[1] if isinstance(sp, tuple) and sp[0] == "str" else "?")
            return None
        w = kwalk.Walker(F, de.body, call_result=hook, on_stmt=on_stmt, want_ret=True)
        outs = w.run(0, env)
        rep.states += w.states_explored
        res = set()
        for kind, marks, ret in outs:
            if kind != "return":
                continue
            res.add(tuple(sorted(m for m in marks if m[0] == "err")))
        ok = res == {(("err", "ImportFailed", "THE-SPAN"),)}
        rep.ob(R, "do_expr|%s|callback-error" % variant, ok, {"variant": variant, "outcome": sorted(map(str, res))})
        if not ok:
            rep.violation(R, "%s|%s|import-error" % (de.q, variant), "a failing %s callback yields %s instead of ImportFailed with "
                          "the expression's span" % (cb, sorted(map(str, res))), de.loc)


def run(F, rep, tier):
    rep.attempt(rule_r1, F, rep)
    rep.attempt(rule_r2, F, rep)
    rep.attempt(rule_r3, F, rep)
    rep.attempt(rule_r4, F, rep)
    rep.assume("canonicalize / exists / symlink semantics of the file system are trusted; import cycles are not decided")
    return EXPLANATION
