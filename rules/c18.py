"""C18 — strings are sequences of Unicode code points in every string function.

Decided clauses (the defining identities of split/join/strip are delegated to std and NOT decided):
  R1  byte and code-point quantities never mix (UNITS engine: mix rule, char-position and
      user-number sinks)
  R2  the code-point primitives are the ones used: length / index / slice / substr / stringChars /
      codepoint / reverse / map over strings go through chars(); byte views only where the
      specification says bytes (encodeUTF8, base64, hashes)
  (C01.R4 — boundary-exact byte indices — is the panic-side twin, reported here as R3.)
"""
from . import units, kwalk
from .facts import callee_name

EXPLANATION = (
    "Static analysis of MIR: unit inference (Bytes / Chars / User / Trunc) over the integer quantities "
    "of every string-handling function of rsjsonnet-lang with unification through copies, +, -, "
    "comparisons and casts; contradiction (one class both Bytes and Chars) and sink rules; a who-calls "
    "table of the code-point primitives per string builtin."
)

E = "rsjsonnet_lang::program::eval::Evaluator"

# builtin handler -> must use chars() (code points); may not take byte views
CHAR_HANDLERS = ["do_std_length", "do_std_substr", "do_std_find_substr", "do_std_string_chars", "do_std_codepoint",
                 "do_std_reverse", "do_slice_string", "do_std_strip_chars", "do_std_lstrip_chars", "do_std_rstrip_chars"]
BYTE_OK = ["do_std_encode_utf8", "do_std_base64", "do_std_md5", "do_std_sha1", "do_std_sha256", "do_std_sha512", "do_std_sha3"]


# byte / UTF-16 views of a string (the byte length is tolerated outside std.length: it sizes buffers and is policed by R1)
BYTE_VIEWS = ("<str>::as_bytes", "<str>::bytes", "<str>::encode_utf16", "<alloc::string::String>::as_bytes",
              "<alloc::string::String>::into_bytes", "<str>::len")
# str functions generic over core::str::pattern::Pattern: what they match is decided by the pattern TYPE they are instantiated with
PATTERN_FNS = ("strip_prefix", "strip_suffix", "trim_start_matches", "trim_end_matches", "trim_matches", "trim_left_matches",
               "trim_right_matches", "find", "rfind", "contains", "starts_with", "ends_with", "split", "rsplit", "splitn", "rsplitn",
               "split_terminator", "rsplit_terminator", "split_inclusive", "split_once", "rsplit_once", "matches", "rmatches",
               "match_indices", "rmatch_indices")


def _with_new_callees(F, fn):
    """fn, its closures and, transitively, the local functions they call that did not exist on the reference tree (extracted
    helpers are transparent: their body is part of the handler that calls them), each with its closures."""
    out, seen, work = [], set(), [fn]
    while work:
        g = work.pop()
        if g is None or g.q in seen or g.body is None:
            continue
        seen.add(g.q)
        out.append(g)
        work.extend(F.closures_of(g))
        for bb, t in g.body.calls():
            f = t["f"]
            q = f.get("r") if f.get("rlocal") else None
            if q and q not in seen and F.is_new_fn(q):
                work.append(F.fn_opt(q))
    return out


def _codepoint_pattern(body, ti, depth=0):
    """True when type #ti, used as a str Pattern, matches whole code points one at a time: `char`, a slice / array of `char`
    (any of them) or a `FnMut(char) -> bool` predicate (closure, fn item, fn pointer: the only callable Pattern impl) — behind any
    number of references.  `&str` / `&String` patterns (substring search) are not: they say nothing about code-point iteration."""
    try:
        ty = body.ty(ti)
    except Exception:
        return False
    k = ty.get("k")
    if k == "prim":
        return ty.get("s") == "char"
    if k in ("closure", "fndef", "fnptr"):
        return True
    if k in ("ref", "slice", "array") and depth < 4 and "t" in ty:
        return _codepoint_pattern(body, ty["t"], depth + 1)
    return False


def _codepoint_primitives(g):
    """resolved callees of g that read a string code point by code point: chars() / char_indices() / anything on the Chars
    iterator, or a str pattern function instantiated with a code-point pattern (`&[char]`, `char`, `FnMut(char) -> bool`)"""
    out = set()
    for bb, t in g.body.calls():
        n = callee_name(t) or ""
        if n in ("<str>::chars", "<str>::char_indices") or "core::str::iter::Chars" in n or "core::str::iter::CharIndices" in n:
            out.add(n)
        elif n.startswith("<str>::") and n[len("<str>::"):] in PATTERN_FNS:
            f = t["f"]
            ga = f.get("rga") or f.get("ga") or []
            if ga and all(_codepoint_pattern(g.body, x) for x in ga):
                out.add("%s::<%s>" % (n, ", ".join(g.body.ty(x)["s"] for x in ga)))
    return out


def rule_r2(F, rep):
    R = rep.rule("C18.R2", "the string builtins that are defined on code points iterate with chars() and take no "
                 "byte or UTF-16 view of the string")
    n = 0
    for h in CHAR_HANDLERS:
        fn = F.fn_opt("<%s>::%s" % (E, h))
        if fn is None:
            continue
        n += 1
        names = set()
        prims = set()
        # the handler is read together with its closures and the helpers extracted from it (functions new w.r.t. the reference
        # tree): a byte view hidden in such a helper counts against the handler, a chars() in it counts for it
        fns = _with_new_callees(F, fn)
        for g in fns:
            for bb, t in g.body.calls():
                names.add(callee_name(t) or "")
            prims |= _codepoint_primitives(g)
        byte_views = sorted(x for x in names if x in BYTE_VIEWS)
        uses_chars = bool(prims)
        # std.length on strings must count chars; other handlers must at least iterate chars
        ok = uses_chars and not [b for b in byte_views if b != "<str>::len"]
        if h == "do_std_length":
            ok = ok and "<str>::len" not in byte_views
        rep.ob(R, "handler|%s" % h, ok, {"handler": h, "chars": uses_chars, "byte_views": byte_views,
                                         "code_point_primitives": sorted(prims), "read_with": sorted(g.q for g in fns if g is not fn)})
        if not ok:
            rep.violation(R, "%s|code-point-primitive" % fn.q,
                          "%s %s" % (h, "does not iterate code points (no chars(), no code-point pattern)" if not uses_chars else "takes a byte view of the string: %s" % byte_views),
                          fn.loc)
    rep.floor(R, n, 7, "code-point string handlers")
    # string indexing in Evaluator::run (State::Index on a string) uses chars().nth — in run itself or in a helper extracted from it
    run = F.fn("<%s>::run" % E)
    ok = False
    where = []
    for g in _with_new_callees(F, run):
        for bb, t in g.body.calls():
            f = t["f"]
            if f["k"] == "def" and f["d"].endswith("Iterator::nth") and "self" in f and "Chars" in g.body.ty(f["self"])["s"]:
                ok = True
                where.append(g.q)
    rep.ob(R, "string-index|chars().nth", ok, {"in": sorted(set(where))})
    if not ok:
        rep.violation(R, "run|string-index", "string indexing in Evaluator::run no longer uses chars().nth()", run.loc)


def rule_r4(F, rep):
    from . import prov as _prov, evalmarks as em
    R = rep.rule("C18.R4", "std.join puts a separator before every item except the first one it emits: whether a separator is "
                 "due is tracked by position (the `first` flag), never read off the output built so far — the output is still "
                 "empty after leading empty items, whose separators would be lost (join(c, split(s, c)) != s when s starts with c)")
    n = 0
    for hname, acc_stack in (("do_std_join_str_item", "string_stack"), ("do_std_join_array_item", "array_stack")):
        fn = F.fn_opt("<%s>::%s" % (em.EVAL, hname))
        if fn is None:
            rep.violation(R, "anchor|%s" % hname, "%s not found (anchor)" % hname)
            continue
        rep.fn(fn)
        n += 1
        body = fn.body
        P = _prov.Prov(F, body)
        bad = []
        for bb, t in body.calls():
            nme = callee_name(t) or ""
            if nme.rsplit("::", 1)[-1] in ("is_empty", "len") and t["xs"]:
                org = P.origins_op(t["xs"][0])
                if any(o[0] == "field" and o[2] == acc_stack for o in org) or \
                        any(o[0] == "call" and ("last_mut" in o[1] or o[1].endswith("::last")) for o in org):
                    bad.append((nme, body.span(t["sp"])))
        ok = not bad
        rep.ob(R, "%s|separator-by-position" % hname, ok, {"handler": hname})
        for nme, site in bad:
            rep.violation(R, "%s|separator-from-output" % hname,
                          "%s asks %s of the output built so far to decide whether a separator is due: leading empty items "
                          "leave the output empty, so their separators are dropped" % (hname, nme.rsplit("::", 1)[-1]), site)
    rep.floor(R, n, 2, "join item handlers")


TRIM_SET = {0x09, 0x0A, 0x0C, 0x0D, 0x20, 0x85, 0xA0}


def rule_r5(F, rep):
    from . import kwalk, chartab, evalmarks as em
    R = rep.rule("C18.R5", "std.trim strips exactly the Jsonnet whitespace characters (tab, LF, FF, CR, space, U+0085, U+00A0): it "
                 "calls trim_matches with a predicate whose accepted set is exactly that, not the Unicode White_Space class of "
                 "str::trim")
    fn = F.fn("<%s>::do_std_trim" % em.EVAL)
    rep.fn(fn)
    names = [callee_name(t) or "" for _, t in fn.body.calls()]
    uni = [n for n in names if n in ("<str>::trim", "<str>::trim_start", "<str>::trim_end", "core::str::<impl str>::trim")]
    for n in uni:
        rep.violation(R, "do_std_trim|unicode-whitespace", "std.trim calls %s, which strips the whole Unicode White_Space class "
                      "(vertical tab, U+2000-U+200A, U+3000, ...) instead of Jsonnet's seven characters" % n, fn.loc)
    clos = list(F.closures_of(fn))
    tm = [n for n in names if "trim_matches" in n]
    ok = bool(tm) and not uni and len(clos) >= 1
    rep.ob(R, "do_std_trim|trim_matches", ok)
    if not tm and not uni:
        rep.violation(R, "do_std_trim|no-trim_matches", "std.trim no longer strips with trim_matches over a character predicate", fn.loc)
    n = 0
    for c in clos:
        classes = chartab.representatives(c.body, "char", extra=[0x09, 0x0A, 0x0B, 0x0C, 0x0D, 0x0E, 0x20, 0x21, 0x85, 0x86, 0xA0, 0xA1, 0x1680, 0x2000, 0x200B, 0x2028, 0x3000, 0x3001])
        bad = []
        for a, b in classes:
            w = kwalk.Walker(F, c.body, want_ret=True)
            res = set()
            for kind, marks, ret in w.run(0, {"2": a}):
                res.add(dict(ret or ()).get("0"))
            rep.states += w.states_explored
            n += 1
            want = 1 if (a in TRIM_SET and a == b) else 0
            if a != b and any(x in TRIM_SET for x in (a, b)):
                bad.append(("U+%04X..U+%04X" % (a, b), "class not split"))
            elif res != {want}:
                bad.append(("U+%04X..U+%04X" % (a, b), sorted(map(str, res))))
        rep.ob(R, "do_std_trim|predicate", not bad, {"classes": len(classes)})
        if bad:
            rep.violation(R, "do_std_trim|predicate", "the predicate of std.trim accepts a different set than Jsonnet's whitespace: %s" % bad[:5], c.loc)
    rep.floor(R, n, 8, "character classes of the trim predicate")


def run(F, rep, tier):
    rep.attempt(units.rule_mix, F, rep, "C18.R1")
    rep.attempt(units.rule_char_and_user, F, rep, "C18.R1b")
    rep.attempt(rule_r2, F, rep)
    rep.attempt(units.rule_byte_index, F, rep, "C18.R3")
    rep.attempt(rule_r4, F, rep)
    rep.attempt(rule_r5, F, rep)
    from . import stdlike
    rep.attempt(stdlike.rule_lookalikes, F, rep, "C20.R9")
    rep.assume("join/split/strip/replace/trim identities are delegated to str::{split,splitn,rsplitn,replace,"
               "strip_prefix,trim_matches} and not decided; `+- constant` after a search is accepted (documented miss)")
    return EXPLANATION
