"""C09 — scoping errors are found before anything runs, and only real ones.

Decided clauses:
  R1  guards dominate every IR node the evaluator trusts: ir::Expr::Var only behind env.vars.contains(name),
      self/$/super nodes only behind env.is_obj; those IR variants are only built by the analyzer
  R2  duplicate binders are rejected per scope (local, parameter, object local, static field name),
      positional-after-named and non-literal import paths are static errors
  R3  every syntactic position is analysed in the environment the specification gives it (ENVFLOW table)
Not decided: agreement of the evaluator's run-time environments with the same table.
"""
from . import cfg, cg, prov, envflow, kwalk, ty
from .facts import callee_name

EXPLANATION = (
    "Static analysis of the analyzer's MIR: CFG dominance of guard edges over IR-node construction sites "
    "with origin equality between the tested and the used name; pairing of every binder insertion with a "
    "per-scope duplicate check; and ENVFLOW — for every analyze_* call the child's AST path and the abstract "
    "value of the environment argument (creation, inserted binder lists with all/previous qualifier, "
    "is_obj), compared with the scoping table transcribed from the Jsonnet specification."
)

A = "rsjsonnet_lang::program::analyze::Analyzer"
IR = "rsjsonnet_lang::program::ir::Expr"
ENV = "rsjsonnet_lang::program::analyze::Env"
AERR = "rsjsonnet_lang::program::error::AnalyzeError"


def true_edge_targets(body, bb):
    """for a block ending in switchInt on a bool: (false_target, true_target)"""
    t = body.blocks[bb]["t"]
    if t["k"] != "switch":
        return None
    arms = dict((v, b) for v, b in t["arms"])
    if 0 in arms:
        return arms[0], t["else"]
    return None


def edge_dominates(succ, edge, bb):
    """every path from the entry to `bb` traverses `edge` (S, T)"""
    return bb not in cfg.reachable(succ, [0], blocked_edges=[edge])


def rule_r1(F, rep):
    R = rep.rule("C09.R1", "a variable reference is lowered to IR only when the name is in the static environment, and "
                 "self / $ / super nodes only inside an object: the lookups the evaluator performs without checks "
                 "(get_var panics, get_object unwraps) are covered by these guards")
    fn = F.fn("<%s>::analyze_expr" % A)
    rep.fn(fn)
    body = fn.body
    P = prov.Prov(F, body)
    P.variant_fields = True
    P.field_pick = "last"
    succ = body.succ_map()
    dom = cfg.dominators(succ, 0)
    # guard edges
    contains_true = []   # (true_target_bb, origin of tested name)
    for bb, t in body.calls():
        n = callee_name(t) or ""
        if n.endswith("HashSet>::contains") or n.endswith("::contains"):
            recv = P.origins_op(t["xs"][0])
            if not any(o[0] == "field" and o[1] == ENV and o[2] == "vars" for o in recv):
                continue
            nb = t["t"]
            te = true_edge_targets(body, nb) if nb is not None else None
            if te:
                contains_true.append(((nb, te[1]), frozenset(P.origins_op(t["xs"][1])), bb))
    isobj_true = []
    for bb, b in enumerate(body.blocks):
        t = b["t"]
        if t["k"] == "switch" and t["x"]["k"] in ("copy", "move"):
            org = P.origins_op(t["x"])
            if any(o[0] == "field" and o[1] == ENV and o[2] == "is_obj" for o in org):
                te = true_edge_targets(body, bb)
                if te:
                    isobj_true.append((bb, te[1]))
    n_sites = 0
    # Var construction
    for bb, si, s in body.assigns():
        rv = s["rv"]
        if rv["k"] == "agg" and rv["ak"] == "adt" and rv["adt"] == IR:
            v = rv["v"]
            if v == "Var":
                n_sites += 1
                name_org = frozenset(P.origins_op(rv["xs"][0]))
                ok = any(edge_dominates(succ, e, bb) and org == name_org for e, org, _ in contains_true)
                rep.ob(R, "Var@%s" % body.span(s["sp"]), ok, {"site": body.span(s["sp"]), "name_origin": sorted(map(str, name_org))})
                if not ok:
                    rep.violation(R, "%s|Var-unguarded" % fn.q, "ir::Expr::Var is built without being dominated by the "
                                  "success edge of env.vars.contains(<the same name>): an unbound variable would reach the "
                                  "evaluator, whose lookup panics", body.span(s["sp"]))
            elif v in ("SuperField", "SuperIndex", "InSuper"):
                n_sites += 1
                ok = any(edge_dominates(succ, e, bb) for e in isobj_true)
                rep.ob(R, "%s@%s" % (v, body.span(s["sp"])), ok)
                if not ok:
                    rep.violation(R, "%s|%s-unguarded" % (fn.q, v), "ir::Expr::%s is built outside the env.is_obj guard" % v,
                                  body.span(s["sp"]))
    # uses of the shared self_obj / top_obj nodes: reads of Exprs.self_obj / top_obj
    EXPRS = "rsjsonnet_lang::program::Exprs"
    for bb, si, s in body.assigns():
        rv = s["rv"]
        if rv["k"] == "use" and rv["x"]["k"] in ("copy", "move"):
            f = prov.field_of(F, body, rv["x"], EXPRS)
            if f in ("self_obj", "top_obj") and prov.field_write(F, body, rv["x"], EXPRS) == f:
                n_sites += 1
                ok = any(edge_dominates(succ, e, bb) for e in isobj_true)
                rep.ob(R, "%s@%s" % (f, body.span(s["sp"])), ok)
                if not ok:
                    rep.violation(R, "%s|%s-unguarded" % (fn.q, f), "the shared %s node is used outside the env.is_obj guard" % f,
                                  body.span(s["sp"]))
    rep.floor(R, n_sites, 6, "guarded IR construction sites")
    # who may construct the trusted IR variants
    for v in ("Var", "SuperField", "SuperIndex", "InSuper", "SelfObj", "TopObj"):
        for f2, bb, si, s in cg.who_constructs(F, IR, v, crates=("rsjsonnet_lang",)):
            ok = f2.q.startswith("<%s>::" % A) or (v in ("SelfObj", "TopObj") and f2.q == "<rsjsonnet_lang::program::Program>::new")
            rep.ob(R, "construct|%s|%s" % (v, f2.q), ok)
            if not ok:
                rep.violation(R, "%s|constructs|%s" % (f2.q, v), "ir::Expr::%s is constructed outside the analyzer (%s)" % (v, f2.q),
                              f2.body.span(s["sp"]))


def rule_r2(F, rep):
    R = rep.rule("C09.R2", "within one scope a repeated local, parameter, object-local or statically named field is a "
                 "static error; a positional argument after a named one is a static error; import paths must be "
                 "plain string literals")
    n = 0
    want_err = {"Bind.name": "RepeatedLocalName", "Param.name": "RepeatedParamName"}
    todo = [F.fn("<%s>::%s" % (A, name)) for name in envflow.ANALYZE]
    # helpers introduced later that insert binders are checked like the analysis functions themselves
    seen_q = {f.q for f in todo}
    for f in list(todo):
        for g in _with_new_callees(F, f)[1:]:
            if g.q not in seen_q:
                seen_q.add(g.q)
                todo.append(g)
    for fn in todo:
        name = fn.q.rsplit("::", 1)[-1]
        rep.fn(fn)
        fl = envflow.FnEnvFlow(F, fn)
        body = fn.body
        succ = body.succ_map()
        dom = fl.dom
        envs = fl.env_locals()
        # per-scope duplicate maps: HashMap::entry(name) calls
        entries = []
        for bb, t in body.calls():
            nme = callee_name(t) or ""
            if nme.endswith("HashMap>::entry"):
                entries.append((bb, fl.ast_path(t["xs"][1]), t))
        for l, e in envs.items():
            for ibb, path in e["inserts"]:
                kind = None
                for k in want_err:
                    if k in path:
                        kind = k
                if kind is None:
                    continue   # comprehension variables may shadow: no duplicate rule
                n += 1
                # the insertion must sit on the Vacant arm of an entry() on the same name
                ok = False
                why = "no entry() on the same name dominates the insertion"
                for ebb, epath, et in entries:
                    if epath == path and ebb in dom.get(ibb, ()):
                        # Occupied arm of that entry returns the matching error
                        errs = _errors_reachable_without(body, et["t"], ibb, succ)
                        if want_err[kind] in errs:
                            ok = True
                        else:
                            why = "the occupied arm does not return %s (found %s)" % (want_err[kind], sorted(errs))
                rep.ob(R, "%s|insert|%s" % (fn.q, "/".join(path)), ok, {"fn": fn.q, "binder": "/".join(path)})
                if not ok:
                    rep.violation(R, "%s|dup-unchecked|%s" % (fn.q, kind), "binder %s is added to the environment in %s "
                                  "without a per-scope duplicate check: %s" % ("/".join(path), name, why), fn.loc)
        # static field names
        if name == "analyze_objinside":
            errs_all = {s["rv"]["v"] for bb, si, s in body.assigns() if s["rv"]["k"] == "agg" and s["rv"].get("adt") == AERR}
            ok = "RepeatedFieldName" in errs_all and any("FieldName" in "/".join(p) or "Ident.value" in "/".join(p) for _, p, _ in entries)
            rep.ob(R, "static-field-names", ok)
            if not ok:
                rep.violation(R, "%s|field-dups" % fn.q, "statically named fields are not checked for repetition", fn.loc)
    rep.floor(R, n, 4, "binder insertion sites with a duplicate rule")
    # positional after named; import paths
    fn = F.fn("<%s>::analyze_expr" % A)
    errs = {s["rv"]["v"] for g in _with_new_callees(F, fn) for bb, si, s in g.body.assigns()
            if s["rv"]["k"] == "agg" and s["rv"].get("adt") == AERR}
    for e in ("PositionalArgAfterNamed", "ComputedImportPath", "TextBlockAsImportPath", "UnknownVariable",
              "SelfOutsideObject", "DollarOutsideObject", "SuperOutsideObject"):
        ok = e in errs
        rep.ob(R, "error-kind|%s" % e, ok)
        if not ok:
            rep.violation(R, "%s|missing|%s" % (fn.q, e), "analyze_expr never reports AnalyzeError::%s" % e, fn.loc)
    # import operands: only a String literal path is accepted, per import kind
    _import_table(F, rep, R, fn)


def _with_new_callees(F, fn):
    """fn and, transitively, the local functions it calls that did not exist on the reference tree (extracted helpers)"""
    out, work = [fn], [fn]
    seen = {fn.q}
    while work:
        g = work.pop()
        for bb, t in g.body.calls():
            f = t["f"]
            q = f.get("r") if f.get("rlocal") else None
            if q and q not in seen and F.is_new_fn(q):
                h = F.fn_opt(q)
                if h is not None and h.body is not None:
                    seen.add(q)
                    out.append(h)
                    work.append(h)
    return out


def _errors_reachable_without(body, start, avoid, succ):
    if start is None:
        return set()
    r = cfg.reachable(succ, [start], blocked_nodes=[avoid])
    out = set()
    for b in r:
        for s in body.blocks[b]["s"]:
            if s["k"] == "assign" and s["rv"]["k"] == "agg" and s["rv"].get("adt") == AERR:
                out.add(s["rv"]["v"])
    return out


def _import_table(F, rep, R, fn):
    EK = "rsjsonnet_lang::ast::ExprKind"
    body = fn.body
    kinds = F.variants(EK)
    # the arms of the dispatch on the expression's own kind (the switch on an ExprKind discriminant with the most targets);
    # each import arm is walked from its entry, helper functions introduced later are walked in place, and the first ExprKind
    # discriminant read on the way is the operand's kind
    best = None
    for i, b in enumerate(body.blocks):
        t = b["t"]
        if t["k"] != "switch" or not b["s"]:
            continue
        last = [x for x in b["s"] if x["k"] == "assign"]
        if last and last[-1]["rv"]["k"] == "discr" and last[-1]["rv"].get("adt") == EK:
            if best is None or len(t["arms"]) > len(body.blocks[best]["t"]["arms"]):
                best = i
    if best is None or len(body.blocks[best]["t"]["arms"]) < len(kinds) // 2:
        raise kwalk.WalkLimit("analyze_expr: dispatch on the expression kind not found")
    byd = F.variant_by_discr(EK)
    sites = []
    for v, tgt in body.blocks[best]["t"]["arms"]:
        nm = byd.get(v)
        if nm and nm.startswith("Import"):
            sites.append((tgt, nm))
    heads = set()
    for b0, i0, s0 in body.assigns():
        if s0["rv"]["k"] == "discr" and s0["rv"].get("adt") == "<%s>::analyze_expr::State" % A:
            heads.add(b0)
    for bb, which in sites:
        for k in kinds:
            def after(w, b2, i2, s2, env, k=k):
                rv2 = s2["rv"]
                if rv2["k"] == "discr" and rv2.get("adt") == EK and not env.get("#operand-kind"):
                    env["#operand-kind"] = 1
                    env[w.norm(env, rv2["p"])] = ("var", EK, k)
                    env[w.norm(env, s2["p"])] = w.discr_of_variant(EK, k)

            def on_stmt(w, b2, i2, s2, env):
                if s2["k"] == "assign" and s2["rv"]["k"] == "agg" and s2["rv"].get("adt") == AERR:
                    return ("err", s2["rv"]["v"])
                if s2["k"] == "assign" and s2["rv"]["k"] == "agg" and s2["rv"].get("adt") == IR and s2["rv"]["v"].startswith("Import"):
                    return ("ir", s2["rv"]["v"])
                return None

            def on_term(w, b2, t2, env):
                if not w.pre and b2 in heads:
                    return kwalk.STOP
                return None
            w = kwalk.Walker(F, body, after_stmt=after, on_stmt=on_stmt, on_term=on_term, want_ret=True, max_states=50000,
                             refine=False, keep_ints=True)
            outs = w.run(bb, {})
            got_err, got_ir = set(), set()
            per_path = []
            for kind, ms, ret in outs:
                e = {m[1] for m in ms if m[0] == "err"} & {"ComputedImportPath", "TextBlockAsImportPath"}
                i = {m[1] for m in ms if m[0] == "ir"}
                per_path.append((e, i))
                got_err |= e
                got_ir |= i
            # an IR node built on a path that also returned an error is not an accepted import (the `?` left before it)
            got_ir = {x for e, i in per_path if not e for x in i}
            if k == "String":
                ok = which in got_ir and not got_err
            elif k == "TextBlock":
                ok = got_err == {"TextBlockAsImportPath"} and which not in got_ir
            else:
                ok = got_err == {"ComputedImportPath"} and which not in got_ir
            rep.ob(R, "import|%s|%s" % (which, k), ok)
            if not ok:
                rep.violation(R, "%s|import|%s|%s" % (fn.q, which, k), "%s with a %s operand: errors %s, IR %s"
                              % (which, k, sorted(got_err), sorted(got_ir)), fn.loc)
    if len(sites) != 3:
        rep.violation(R, "%s|import-dispatch" % fn.q, "expected 3 import-path dispatches, found %d" % len(sites), fn.loc)


# ---- R3: the scoping table ---------------------------------------------------------------------------

def _is_inherit(e):
    return e == ("inherit",)


def _local(e, base_pred, binders, obj):
    """binders: list of (mode, required path fragments)"""
    if not (isinstance(e, tuple) and e and e[0] == "local"):
        return False
    _, bases, ins, o = e
    if len(bases) != 1 or not base_pred(bases[0]):
        return False
    if (o == "obj") != obj:
        return False
    if len(ins) != len(binders):
        return False
    for mode, frags in binders:
        if not any(m == mode and all(f in "/".join(p) for f in frags) for m, p in ins):
            return False
    return True


def _is_comp(e):
    return e == ("comp-result",) or _local(e, lambda b: b == ("comp-result",), [], False)


SPEC = [
    # (child path suffix, description, predicate)
    ("ExprKind.Error.0", "inherits", _is_inherit),
    ("ExprKind.Assert.0", "inherits", _is_inherit),
    ("ExprKind.Assert.1", "inherits", _is_inherit),
    ("ExprKind.Func.0", "inherits (parameters are added by analyze_function)", _is_inherit),
    ("ExprKind.ObjExt.0", "inherits", _is_inherit),
    ("ExprKind.ObjExt.1", "inherits (object scope is added by analyze_objinside)", _is_inherit),
    ("ExprKind.Object.0", "inherits (object scope is added by analyze_objinside)", _is_inherit),
    ("ExprKind.If.0", "inherits", _is_inherit), ("ExprKind.If.1", "inherits", _is_inherit), ("ExprKind.If.2", "inherits", _is_inherit),
    ("ExprKind.Call.0", "inherits", _is_inherit),
    ("ExprKind.Call.1/Arg.Named.1", "inherits", _is_inherit), ("ExprKind.Call.1/Arg.Positional.0", "inherits", _is_inherit),
    ("ExprKind.Slice.0", "inherits", _is_inherit), ("ExprKind.Slice.1", "inherits", _is_inherit),
    ("ExprKind.Slice.2", "inherits", _is_inherit), ("ExprKind.Slice.3", "inherits", _is_inherit),
    ("ExprKind.Index.0", "inherits", _is_inherit), ("ExprKind.Index.1", "inherits", _is_inherit),
    ("ExprKind.Field.0", "inherits", _is_inherit),
    ("ExprKind.SuperIndex.1", "inherits", _is_inherit),
    ("ExprKind.InSuper.0", "inherits", _is_inherit),
    ("ExprKind.ArrayComp.1", "comprehension clauses start from the enclosing scope", _is_inherit),
    ("ExprKind.ArrayComp.0", "enclosing scope + all for-variables", _is_comp),
    ("ExprKind.Local.1", "enclosing scope + all binds of this local",
     lambda e: _local(e, _is_inherit, [("all", ["ExprKind.Local.0", "Bind.name"])], False)),
    ("ExprKind.Local.0/Bind.value", "enclosing scope + all binds of this local",
     lambda e: _local(e, _is_inherit, [("all", ["ExprKind.Local.0", "Bind.name"])], False)),
    ("ExprKind.Local.0/Bind.params/#0", "enclosing scope + all binds (parameters added by analyze_function)",
     lambda e: _local(e, _is_inherit, [("all", ["ExprKind.Local.0", "Bind.name"])], False)),
    ("analyze_function:arg3", "enclosing scope + all parameters (function body)",
     lambda e: _local(e, _is_inherit, [("all", ["Param.name"])], False)),
    ("Param.default_value", "enclosing scope + all parameters (default values)",
     lambda e: _local(e, _is_inherit, [("all", ["Param.name"])], False)),
    ("ObjInside.Comp.comp_spec", "comprehension clauses start from the enclosing scope", _is_inherit),
    ("ObjInside.Members.0/Member.Assert.0", "object scope: all object locals, self/$ allowed",
     lambda e: _local(e, _is_inherit, [("all", ["Member.Local.0", "Bind.name"])], True)),
    ("ObjInside.Members.0/Member.Local.0/ObjLocal.bind/Bind.params/#0", "object scope",
     lambda e: _local(e, _is_inherit, [("all", ["Member.Local.0", "Bind.name"])], True)),
    ("ObjInside.Members.0/Member.Local.0/ObjLocal.bind/Bind.value", "object scope",
     lambda e: _local(e, _is_inherit, [("all", ["Member.Local.0", "Bind.name"])], True)),
    ("ObjInside.Members.0/Member.Field.0/Field.Func.1", "object scope (method parameters added by analyze_function)",
     lambda e: _local(e, _is_inherit, [("all", ["Member.Local.0", "Bind.name"])], True)),
    ("ObjInside.Members.0/Member.Field.0/Field.Value.3", "object scope",
     lambda e: _local(e, _is_inherit, [("all", ["Member.Local.0", "Bind.name"])], True)),
    ("FieldName.Expr.0", "computed field names see the OUTER scope only (no object locals, no self)", _is_inherit),
    ("ObjInside.Comp.name", "comprehension variables, but no object locals and not inside the object", _is_comp),
    ("ObjInside.Comp.locals1/|/arg2/ObjInside.Comp.locals2/ObjLocal.bind/Bind.params/#0", "comprehension variables + all comprehension-object locals, object scope",
     lambda e: _local(e, _is_comp, [("all", ["ObjInside.Comp.locals1", "ObjInside.Comp.locals2", "Bind.name"])], True)),
    ("ObjInside.Comp.locals1/|/arg2/ObjInside.Comp.locals2/ObjLocal.bind/Bind.value", "comprehension variables + all comprehension-object locals, object scope",
     lambda e: _local(e, _is_comp, [("all", ["ObjInside.Comp.locals1", "ObjInside.Comp.locals2", "Bind.name"])], True)),
    ("ObjInside.Comp.body", "comprehension variables + all comprehension-object locals, object scope",
     lambda e: _local(e, _is_comp, [("all", ["ObjInside.Comp.locals1", "ObjInside.Comp.locals2", "Bind.name"])], True)),
    ("Assert.cond", "inherits", _is_inherit), ("Assert.msg", "inherits", _is_inherit),
    ("CompSpecPart.If.0/IfSpec.cond", "enclosing scope + for-variables to the left",
     lambda e: _local(e, _is_inherit, [("previous", ["ForSpec.var"])], False)),
    ("CompSpecPart.For.0/ForSpec.inner", "enclosing scope + for-variables strictly to the left (not its own)",
     lambda e: _local(e, _is_inherit, [("previous", ["ForSpec.var"])], False)),
]


def rule_r3(F, rep):
    R = rep.rule("C09.R3", "every syntactic position is analysed in the environment the specification gives it: "
                 "local binds and body see all binds; parameters' defaults and body see all parameters; object "
                 "members see object locals and self/$; computed field names see the outer scope only; comprehension "
                 "`for` sources see only the variables to their left; everything else inherits")
    rows = envflow.all_rows(F)
    seen = set()
    for r in rows:
        path = "/".join(r["child"])
        fnname = r["fn"].rsplit("::", 1)[1]
        key = None
        for suffix, desc, pred in SPEC:
            if suffix.startswith("analyze_function:"):
                if fnname == "analyze_function" and path == suffix.split(":", 1)[1]:
                    key = (suffix, desc, pred)
            elif path.endswith(suffix):
                if key is None or len(suffix) > len(key[0]):
                    key = (suffix, desc, pred)
        if key is None:
            rep.ob(R, "row|%s|%s" % (fnname, path), False)
            rep.violation(R, "%s|unknown-position|%s" % (r["fn"], path), "AST position %s is analysed (in %s) but is not in "
                          "the scoping table (fail closed)" % (path, fnname), r["site"])
            continue
        suffix, desc, pred = key
        seen.add(suffix)
        ok = bool(pred(r["env"]))
        rep.ob(R, "row|%s" % suffix, ok, {"position": suffix, "environment": str(r["env"])[:300], "required": desc}
               if suffix in ("FieldName.Expr.0", "CompSpecPart.For.0/ForSpec.inner", "ExprKind.Local.0/Bind.value") else None)
        if not ok:
            rep.violation(R, "%s|env|%s" % (r["fn"], suffix), "AST position %s is analysed in environment %s; the "
                          "specification requires: %s" % (suffix, str(r["env"])[:300], desc), r["site"])
    for suffix, desc, pred in SPEC:
        if suffix not in seen:
            rep.ob(R, "row|%s" % suffix, False)
            rep.violation(R, "missing-position|%s" % suffix, "AST position %s is never analysed: scoping faults there would "
                          "go unnoticed (%s)" % (suffix, desc))
    rep.floor(R, len(rows), 40, "analysed AST positions")
    # the iterative continuations of analyze_expr carry no environment of their own (they inherit)
    for q in ("<%s>::analyze_expr::State" % A, "<%s>::analyze_expr::StackItem" % A):
        a = F.adt(q)
        has_env = ty.find_owned(F, ty.adt_term(F, q), lambda t: (t[0] == "adt" and t[1] == ENV) or (t[0] == "ref" and t[1][0] == "adt" and t[1][1] == ENV))
        ok = has_env is None
        rep.ob(R, "iterative|%s" % q.rsplit("::", 1)[1], ok)
        if not ok:
            rep.violation(R, "%s|carries-env" % q, "the explicit-stack continuation %s carries an environment; ENVFLOW does not "
                          "model that (fail closed)" % q)
    rep.trust("Jsonnet specification static checking rules (binder by binder), transcribed as rules/c09.py:SPEC")


def rule_r5(F, rep):
    R = rep.rule("C09.R5", "no child expression is skipped: in every arm of analyze_expr's dispatch on the expression kind, each "
                 "operand of type `&Expr` of that kind is handed on for analysis (a call of an analyze_* function, a queued "
                 "State::Expr / stack item, or — for import operands — an inspection of its kind) on *every* path that does not end "
                 "in a static error; optional and list-valued children are handed on on some path. A fast path that lowers a node "
                 "without visiting one of its children (a constant-folded `if`, a short-circuited operator) leaves scoping errors in "
                 "that child unreported, although the property covers code that is never evaluated")
    EK = "rsjsonnet_lang::ast::ExprKind"
    fn = F.fn("<%s>::analyze_expr" % A)
    body = fn.body
    fl = envflow.FnEnvFlow(F, fn)
    ek = F.adt(EK)
    cr = ek["_crate"]
    best = None
    for i, b in enumerate(body.blocks):
        t = b["t"]
        if t["k"] != "switch":
            continue
        last = [x for x in b["s"] if x["k"] == "assign"]
        if last and last[-1]["rv"]["k"] == "discr" and last[-1]["rv"].get("adt") == EK:
            if best is None or len(t["arms"]) > len(body.blocks[best]["t"]["arms"]):
                best = i
    if best is None or len(body.blocks[best]["t"]["arms"]) < len(ek["variants"]) // 2:
        raise kwalk.WalkLimit("analyze_expr: dispatch on the expression kind not found")
    byd = F.variant_by_discr(EK)
    heads = {b0 for b0, i0, s0 in body.assigns() if s0["rv"]["k"] == "discr" and s0["rv"].get("adt") == "<%s>::analyze_expr::State" % A}
    n = 0
    for dv, tgt in body.blocks[best]["t"]["arms"]:
        vn = byd.get(dv)
        v = next((x for x in ek["variants"] if x["n"] == vn), None)
        if v is None:
            continue
        must, some = [], []
        for k, f in enumerate(v["fields"]):
            ts = cr.types[f["t"]]["s"]
            if "ast::Expr<" in ts and ts.startswith("&") and "[" not in ts and "Option" not in ts:
                must.append(k)
            elif "ast::" in ts and not any(x in ts for x in ("ast::Ident", "ast::BinaryOp", "ast::UnaryOp", "ast::Visibility")):
                some.append(k)
        if not must and not some:
            continue
        tag = "ExprKind.%s." % vn

        def child_of(op):
            if not isinstance(op, dict) or op.get("k") not in ("copy", "move"):
                return None
            for el in fl.ast_path(op):
                if isinstance(el, str) and el.startswith(tag):
                    rest = el[len(tag):]
                    if rest.isdigit():
                        return int(rest)
            return None

        def on_stmt(w, bb, idx, st, env):
            if w.pre or st["k"] != "assign":
                return None
            rv = st["rv"]
            if rv["k"] == "agg" and rv.get("ak") == "adt":
                if rv.get("adt") == AERR:
                    return ("err",)
                if rv["adt"].startswith("<%s>::analyze_expr::" % A):
                    cs = sorted({c for c in (child_of(x) for x in rv["xs"]) if c is not None})
                    if cs:
                        return ("children", tuple(cs))
            if rv["k"] == "discr" and rv.get("adt") == EK and vn.startswith("Import"):
                x = dict(rv["p"])
                x["k"] = "copy"
                c = child_of(x)
                if c is not None:
                    return ("child", c)
            return None

        def on_term(w, bb, t, env):
            if w.pre:
                return None
            if bb in heads and env.get("#left"):
                return kwalk.STOP
            env["#left"] = 1
            if t["k"] == "call":
                nm = callee_name(t) or ""
                if nm.endswith("FromResidual>::from_residual"):
                    return ("err",)         # `?` handing back an error reported further down
                hands_on = nm.startswith("<%s>::" % A)
                if not hands_on and any("t" in x and w.body.ty(x["t"])["k"] == "closure" for x in t["xs"]):
                    # `child.map(|e| self.analyze_expr(e, ..))`: the closure must itself call an analysis function
                    for x in t["xs"]:
                        if "t" in x and w.body.ty(x["t"])["k"] == "closure":
                            c2 = F.fn_opt(w.body.ty(x["t"])["d"])
                            if c2 is not None and any((callee_name(t2) or "").startswith("<%s>::analyze_" % A) for _, t2 in c2.body.calls()):
                                hands_on = True
                if hands_on:
                    ms = [child_of(x) for x in t["xs"]]
                    ms = [m for m in ms if m is not None]
                    if ms:
                        return ("child", ms[0]) if len(ms) == 1 else ("children", tuple(sorted(set(ms))))
            return None
        w = kwalk.Walker(F, body, on_stmt=on_stmt, on_term=on_term, max_states=100000, refine=False)
        outs = w.run(tgt, {})
        rep.states += w.states_explored
        paths = []
        for kind, marks, _ in outs:
            if kind not in ("stop", "return") or ("err",) in marks:
                continue
            got = set()
            for m in marks:
                if m[0] == "child":
                    got.add(m[1])
                elif m[0] == "children":
                    got |= set(m[1])
            paths.append(got)
        if not paths:
            continue
        for k in must:
            n += 1
            ok = all(k in g for g in paths)
            rep.ob(R, "%s.%d|every-path" % (vn, k), ok, {"node": vn, "child": k, "paths": len(paths)} if vn in ("If", "Binary") else None)
            if not ok:
                rep.violation(R, "%s|child-skipped|%s.%d" % (fn.q, vn, k), "analyze_expr lowers a `%s` node on some path without handing "
                              "its operand #%d on for analysis: scoping errors inside it are not reported" % (vn, k), fn.loc)
        for k in some:
            n += 1
            ok = any(k in g for g in paths)
            rep.ob(R, "%s.%d|some-path" % (vn, k), ok)
            if not ok:
                rep.violation(R, "%s|child-never-analysed|%s.%d" % (fn.q, vn, k), "analyze_expr never hands the operand #%d of a `%s` node "
                              "on for analysis" % (k, vn), fn.loc)
    rep.floor(R, n, 25, "child positions of expression kinds")


def run(F, rep, tier):
    rep.attempt(rule_r1, F, rep)
    rep.attempt(rule_r2, F, rep)
    rep.attempt(rule_r3, F, rep)
    rep.attempt(rule_r5, F, rep)
    from . import arity
    rep.attempt(arity.rule_default_env, F, rep, "C09.R4")
    rep.assume("agreement of the evaluator's other run-time environments with the same table is not decided")
    return EXPLANATION
