"""C01 — every input is answered with a value or a diagnosed error, never a crash.

The whole property (no panic on any input) is NOT decided.  Decided clauses, each a necessary
condition with a structural core:
  R1  the native stack is never a function of input depth: no call-graph SCC reachable from the public
      API (other than the recorded parser/analyzer recursion) and no recursive drop glue
  R2  exit status is 0, 1 or 2: main maps Ok/Generic/Usage to SUCCESS/1/2, nobody calls process::exit/abort
  R3  run-time width/precision arguments of format_args! are bounded by u16::MAX (core::fmt panics above)
  R4  byte indices into strings are boundary-exact (UNITS engine, shared with C18/C20)
  R5  builtin arity tables agree (registered parameter count = arguments destructured by the dispatcher)
  R6  all three crates forbid unsafe code
"""
from . import cg, ty, kwalk, cfg
from .facts import callee_name, AnchorMissing

EXPLANATION = (
    "Static analysis over the instance-level whole-workspace call graph and MIR: SCC detection from "
    "the public entry points (closures, fn-pointer states and trait objects included), ownership-graph "
    "cycle detection for recursive drop glue, a decision table of main's exit-code mapping, who-may-call "
    "for process::exit/abort, a concrete-key walk bounding every run-time fmt width/precision argument, "
    "unit inference for byte indices, and an arity-agreement table for the builtins."
)

ANCHORS = {
    "<rsjsonnet_lang::parser::Parser>::parse_expr": "scc-containing|Parser::parse_expr",
    "<rsjsonnet_lang::program::analyze::Analyzer>::analyze_expr": "scc-containing|Analyzer::analyze_expr",
}


def rule_r1(F, rep):
    R = rep.rule("C01.R1", "no native recursion (call-graph cycle, including through closures, stored function "
                 "pointers and trait objects) is reachable from the public API, and no owned type has recursive "
                 "drop glue: the native stack cannot grow with the input")
    G = cg.get(F)
    roots = cg.entry_points(F)
    reach = G.reachable_from(roots)
    sccs = G.sccs(reach)
    rep.fn(*[G.nodes[n]["def"] for n in reach if G.nodes[n].get("crate")])
    local_reach = [n for n in reach if G.nodes[n].get("crate")]
    rep.floor(R, len(local_reach), 600, "workspace function instances reachable from the public API")
    rep.floor(R, len(roots), 100, "entry points")
    seen_anchor = set()
    for comp in sccs:
        defs = sorted({G.nodes[n]["def"] for n in comp})
        anchor = None
        for d in defs:
            if d in ANCHORS:
                anchor = ANCHORS[d]
        # one cycle edge as witness
        wit = None
        cs = set(comp)
        for n in comp:
            for k, t, site in G.succ[n]:
                if t in cs:
                    wit = (G.nodes[n]["def"], k, G.nodes[t]["def"], site)
                    break
            if wit:
                break
        key = anchor or ("scc|" + defs[0])
        rep.ob(R, key, False, {"scc_size": len(comp), "members": [d for d in defs if "closure" not in d][:16], "witness_edge": wit})
        rep.violation(R, key, "native recursion reachable from the public API: %d functions, e.g. %s --%s--> %s; "
                      "input nesting depth drives the native stack (members: %s)"
                      % (len(comp), wit[0], wit[1], wit[2], ", ".join(d.rsplit("::", 1)[-1] for d in defs if "closure" not in d)[:300]),
                      wit[3], {"members": defs})
    # every other reachable local instance is recursion-free: one obligation per instance
    in_scc = {n for c in sccs for n in c}
    for n in local_reach:
        if n not in in_scc:
            rep.ob(R, "acyclic|" + n.split("[")[0], True)
    # recursive drop glue
    dsccs = ty.recursive_drop_sccs(F)
    n_adts = sum(1 for a in F.adts.values() if a.get("local"))
    for comp in dsccs:
        rep.ob(R, "drop|" + comp[0], False)
        rep.violation(R, "recursive-drop|" + comp[0], "type(s) %s own themselves through Box/Vec/Rc: dropping a deep "
                      "value recurses natively" % comp)
    for q, a in F.adts.items():
        if a.get("local") and not any(q in c for c in dsccs):
            rep.ob(R, "drop-acyclic|" + q, True)
    rep.floor(R, n_adts, 100, "local types in the ownership graph")
    rep.assume("recursion inside dependencies (saphyr-parser with its own depth limit, core::fmt, hashbrown) is out of scope")
    rep.assume("fn-pointer calls may reach every function whose address is taken anywhere in the workspace; "
               "trait-object calls every impl of that trait method in the workspace")


def rule_r2(F, rep):
    R = rep.rule("C01.R2", "the process exit status is 0, 1 or 2: main maps success to SUCCESS, RunError::Generic "
                 "to 1, RunError::Usage to 2, and no code in the workspace calls process::exit/abort")
    main = F.fn("rsjsonnet::main")
    rep.fn(main)
    rerr = F.adt("rsjsonnet::RunError")
    combos = [("Ok", None, "SUCCESS")] + [("Err", v["n"], None) for v in rerr["variants"]]
    want = {"Generic": 1, "Usage": 2}
    for res, ev, _ in combos:
        def hook(w, bb, t, env, args, res=res, ev=ev):
            n = callee_name(t) or ""
            if n == "rsjsonnet::main_inner":
                dst = w.norm(env, t["dst"])
                if ev:
                    env["%s@Err.0" % dst] = ("var", "rsjsonnet::RunError", ev)
                return ("var", "core::result::Result", res)
            return None

        def on_term(w, bb, t, env):
            if t["k"] == "call":
                n = callee_name(t) or ""
                if n == "<std::process::ExitCode as core::convert::From>::from":
                    return ("exit", w.val(env, t["xs"][0]))
            return None

        def on_stmt(w, bb, idx, s, env):
            if s["k"] == "assign" and s["rv"]["k"] == "use" and s["rv"]["x"]["k"] == "const":
                c = s["rv"]["x"]
                if "ExitCode" in w.body.ty(c["t"])["s"]:
                    return ("exit", c["s"].rsplit("::", 1)[-1])
            return None
        w = kwalk.Walker(F, main.body, call_result=hook, on_term=on_term, on_stmt=on_stmt)
        outs = w.run(0, {})
        rep.states += w.states_explored
        codes = set()
        for kind, marks, _ in outs:
            codes |= {m[1] for m in marks if m[0] == "exit"}
            if kind != "return":
                codes.add("diverge:" + kind)
        exp = {"SUCCESS"} if res == "Ok" else ({want[ev]} if ev in want else {"<unmapped variant>"})
        ok = codes == exp
        rep.ob(R, "main|%s|%s" % (res, ev), ok, {"main_inner_result": "%s(%s)" % (res, ev or ""), "exit_codes": sorted(map(str, codes))})
        if not ok:
            rep.violation(R, "rsjsonnet::main|%s|%s" % (res, ev), "main maps %s(%s) to exit status %s, the contract is %s"
                          % (res, ev or "", sorted(map(str, codes)), sorted(map(str, exp))), main.loc)
    # who-may-call exit/abort
    bad = []
    n_calls = 0
    for fn in F.fn_list:
        for bb, t in fn.body.calls():
            n_calls += 1
            n = callee_name(t) or ""
            d = t["f"].get("d", "") if t["f"]["k"] == "def" else ""
            for c in (n, d):
                if c in ("std::process::exit", "std::process::abort", "core::intrinsics::abort", "std::process::Termination::report"):
                    bad.append((fn, bb, c, t))
    rep.ob(R, "who-may-call|process::exit/abort", not bad, {"call_sites_scanned": n_calls})
    for fn, bb, c, t in bad:
        rep.violation(R, "%s|calls|%s" % (fn.q, c), "%s calls %s: the exit status is no longer decided by main's mapping"
                      % (fn.q, c), fn.body.span(t["sp"]))
    rep.floor(R, n_calls, 5000, "call sites scanned")


def rule_r6(F, rep):
    R = rep.rule("C01.R6", "all workspace crates forbid unsafe code, so an internal inconsistency surfaces as a "
                 "diagnosed panic, never as undefined behaviour")
    for name, c in F.crates.items():
        lv = [a["level"] for a in c.attrs if a.get("lint") == "unsafe_code"]
        ok = lv == ["Forbid"]
        rep.ob(R, "forbid-unsafe|" + name, ok, {"crate": name, "unsafe_code_level": lv})
        if not ok:
            rep.violation(R, "unsafe_code|" + name, "crate %s does not forbid unsafe code (level %s)" % (name, lv))


U16_MAX = 65535
BIG = 70000


def _minmax_pure():
    def deref(w, env, v):
        if isinstance(v, tuple) and v[0] == "ref":
            return env.get(v[1])
        return v

    def mn(w, env, args):
        a, b = (deref(w, env, x) for x in args[:2])
        if isinstance(a, int) and isinstance(b, int):
            return min(a, b)
        # min with one known bound is bounded by it: represent as that bound (upper bound semantics)
        if isinstance(a, int):
            return ("ub", a)
        if isinstance(b, int):
            return ("ub", b)
        return None

    def clamp(w, env, args):
        a, lo, hi = (deref(w, env, x) for x in args[:3])
        if isinstance(hi, int):
            if isinstance(a, int):
                return max(lo if isinstance(lo, int) else a, min(a, hi))
            return ("ub", hi)
        return None

    def frm(w, env, args):
        a = deref(w, env, args[0])
        return a if isinstance(a, int) or (isinstance(a, tuple) and a[0] == "ub") else None
    t = {}
    for n in ("core::cmp::Ord::min", "<usize as core::cmp::Ord>::min", "core::cmp::min", "<u32 as core::cmp::Ord>::min",
              "<u64 as core::cmp::Ord>::min"):
        t[n] = mn
    for n in ("core::cmp::Ord::clamp", "<usize as core::cmp::Ord>::clamp"):
        t[n] = clamp
    for n in ("<usize as core::convert::From>::from", "<u32 as core::convert::From>::from", "<u64 as core::convert::From>::from",
              "<T as core::convert::Into>::into"):
        t[n] = frm
    return t


def rule_r3(F, rep):
    R = rep.rule("C01.R3", "every run-time width/precision handed to core::fmt ({:.prec$}, {:w$}) is at most u16::MAX "
                 "on every path (larger values make the formatter panic)")
    sites = 0
    for fn in F.fn_list:
        hits = [(bb, t) for bb, t in fn.body.calls() if (callee_name(t) or "") == "<core::fmt::rt::Argument>::from_usize"]
        if not hits:
            continue
        rep.fn(fn)
        body = fn.body
        # keys: every integer-typed argument gets a value above u16::MAX
        env = {}
        for l in range(1, body.argc + 1):
            if body.local_ty(l)["s"] in ("usize", "u32", "u64", "u16"):
                env[str(l)] = BIG
        found = {}

        def on_term(w, bb, t, env):
            if t["k"] == "call" and (callee_name(t) or "") == "<core::fmt::rt::Argument>::from_usize":
                v = w.val(env, t["xs"][0])
                inner = env.get(v[1]) if isinstance(v, tuple) and v[0] == "ref" else None
                found.setdefault(bb, set()).add(inner if isinstance(inner, int) else (inner if isinstance(inner, tuple) and inner[0] == "ub" else "unknown"))
            return None
        w = kwalk.Walker(F, body, on_term=on_term, pure_calls=_minmax_pure(), arith=True)
        w.run(0, env)
        rep.states += w.states_explored
        # `{:e}` adds one to the precision inside core::fmt (u16), so its bound is one lower
        has_exp = any((callee_name(t2) or "") in ("<core::fmt::rt::Argument>::new_lower_exp",
                                                  "<core::fmt::rt::Argument>::new_upper_exp")
                      for _, t2 in body.calls())
        bound = U16_MAX - 1 if has_exp else U16_MAX
        for bb, t in hits:
            sites += 1
            vals = found.get(bb, {"unreached"})
            ok = all((isinstance(v, int) and v <= bound) or (isinstance(v, tuple) and v[0] == "ub" and v[1] <= bound) or v == "unreached"
                     for v in vals)
            rep.ob(R, "%s|from_usize@bb%d" % (fn.q, bb), ok, {"fn": fn.q, "site": body.span(t["sp"]),
                                                               "value_reaching_site_with_args=70000": sorted(map(str, vals))})
            if not ok:
                rep.violation(R, "%s|fmt-arg-unbounded" % fn.q,
                              "a run-time width/precision reaches format_args! unbounded (with every integer argument "
                              "= %d the formatter receives %s; core::fmt panics above %d)" % (BIG, sorted(map(str, vals)), U16_MAX),
                              body.span(t["sp"]))
    rep.floor(R, sites, 2, "run-time fmt width/precision sites")


def rule_r7(F, rep):
    from . import pushgraph, evalmarks as em
    R = rep.rule("C01.R7", "the evaluator's data stacks are used as stacks: a handler only ever removes *its own* entries from the "
                 "top — every `drain` on one of the Evaluator's stacks takes a suffix (`len - n ..`), and no stack is cleared, "
                 "retained or swap-removed. Evaluation is re-entrant (comparing array keys can start a nested sort in the middle "
                 "of a partition), so a handler that takes entries from the bottom, or all of them, consumes what an enclosing "
                 "handler parked there: results are paired with the wrong operands and a later `pop().unwrap()` finds the stack "
                 "short")
    n = 0
    DENY = ("clear", "retain", "retain_mut", "swap_remove", "dedup", "dedup_by", "dedup_by_key", "split_off")
    for fn in F.fn_list:
        if fn.crate.name != "rsjsonnet_lang":
            continue
        body = fn.body
        for bb, t in body.calls():
            nm = callee_name(t) or ""
            if not nm.startswith("<alloc::vec::Vec>::") or not t["xs"]:
                continue
            st = pushgraph._stack_field(F, body, t["xs"][0]) if fn.q.startswith("<%s>::" % em.EVAL) else None
            if not st or not st.endswith("_stack"):
                continue
            op = nm.rsplit("::", 1)[1]
            if op == "drain":
                n += 1
                rty = body.ty(t["xs"][1]["t"])["s"] if len(t["xs"]) > 1 and "t" in t["xs"][1] else "?"
                ok = "RangeFrom<" in rty
                rep.ob(R, "%s|drain|%s" % (fn.q.rsplit("::", 1)[-1], st), ok, {"handler": fn.q, "stack": st, "range": rty})
                if not ok:
                    rep.violation(R, "%s|drain-not-a-suffix|%s" % (fn.q, st), "%s drains %s with a range of type %s: only a suffix "
                                  "`len - n ..` is the handler's own; entries below belong to enclosing handlers" % (fn.q.rsplit("::", 1)[-1], st, rty),
                                  body.span(t["sp"]))
            elif op in DENY:
                n += 1
                rep.ob(R, "%s|%s|%s" % (fn.q.rsplit("::", 1)[-1], op, st), False)
                rep.violation(R, "%s|%s|%s" % (fn.q, op, st), "%s calls Vec::%s on %s: a shared evaluator stack is only pushed to and "
                              "popped from the top" % (fn.q.rsplit("::", 1)[-1], op, st), body.span(t["sp"]))
    rep.floor(R, n, 3, "drains on evaluator stacks")


def run(F, rep, tier):
    rep.attempt(rule_r1, F, rep)
    rep.attempt(rule_r2, F, rep)
    rep.attempt(rule_r3, F, rep)
    try:
        from . import units
        units.rule_byte_index(F, rep, "C01.R4")
    except ImportError:
        rep.note("C01.R4 (UNITS) not built yet")
    try:
        from . import arity
        arity.rule(F, rep, "C01.R5")
        arity.rule_default_env(F, rep, "C09.R4")
        arity.rule_tables(F, rep, "C01.R5b")
    except ImportError:
        rep.note("C01.R5 (arity tables) not built yet")
    rep.attempt(rule_r6, F, rep)
    from . import c19, c20, c06
    rep.attempt(c06.rule_r1, F, rep)      # a non-finite number reaching the renderers / comparisons panics (unwrap of partial_cmp, `{:e}` parsing)
    rep.attempt(c06.rule_r1b, F, rep)
    rep.attempt(c19.rule_r5, F, rep, "C19.R5")
    rep.attempt(c20.rule_r6, F, rep)
    # the text is built in a second run without import callbacks: anything the deep pass leaves pending panics there
    from . import c12, visibility
    rep.attempt(c12.rule_r7, F, rep)
    rep.attempt(visibility.rule_partition, F, rep, "C07.R6")
    # a parser panic on a malformed object comprehension (producer / consumer disagreement, C15.R7)
    from . import c15
    rep.attempt(c15.rule_r7, F, rep)
    rep.attempt(rule_r7, F, rep)
    # the lexer's lossy UTF-8 decoder: a sequence outside Unicode Table 3-7 that is accepted reaches char::from_u32(..).unwrap()
    from . import c14
    rep.attempt(c14.rule_r3, F, rep)
    rep.assume("evaluator data-stack balance, index/arithmetic-overflow panics and unreachable!() reachability are "
               "not decided (no whole-evaluator stack-effect typing)")
    return EXPLANATION
