"""C17 — sorting and set functions meet their mathematical contracts.

Permutation / orderedness / set algebra are value-level and NOT decided.  Decided clause:
  R1  tie-breaking and advance tables of the explicit-state sort / min / max / set-walk handlers,
      as finite decision tables over the popped `Ordering`:
        merge:      the left run's element is taken on {Less, Equal}              (stability)
        partition:  an element goes before the pivot on {Less} only               (stability)
        minArray:   the best element is replaced on {Greater} only; maxArray on {Less} only (first wins)
        set walks:  (advance a, advance b, emit) per ordering for inter / union / diff
"""
import re
from . import kwalk, evalmarks as em, prov
from .facts import callee_name

EXPLANATION = (
    "Static analysis of MIR: each handler is walked once per popped Ordering (and with concrete "
    "cursor values where cursors are arguments); on every CFG path the cursor updates, the run the "
    "emitted element is read from, the bucket an element is pushed to and the continuation state's "
    "payload are collected and compared with the tie-break table of the contract."
)

ORD = ["Less", "Equal", "Greater"]
E = em.EVAL


def _touch_marks(extra=None):
    """on_stmt producing ("touch", key) for reads through `*<arg>` tuple fields (key like '5.^.1')."""
    pat = re.compile(r"^\d+\.\^\.\d+$")

    def on_stmt(w, bb, idx, s, env):
        if s["k"] != "assign":
            return None
        rv = s["rv"]
        if rv["k"] == "use" and rv["x"]["k"] in ("copy", "move"):
            key = w.norm(env, rv["x"])
            m = re.match(r"^(\d+\.\^\.\d+)", key)
            if m and key != m.group(1) or (m and pat.match(key)):
                return ("touch", m.group(1))
        return None
    return on_stmt


def _walk(F, rep, fn, *, ords=(), env=None, arith=False, extra_term=None, on_stmt=None, extra_hook=None,
          dedupe=False):
    rep.fn(fn)
    body = fn.body
    m = em.Marker(F, body, 1, True, extra_term=extra_term)
    m.full = True

    def stmt_cb(w, bb, idx, s, e):
        if on_stmt:
            r = on_stmt(w, bb, idx, s, e)
            if r is not None:
                return r
        return m.on_stmt(w, bb, idx, s, e)
    w = kwalk.Walker(F, body, on_term=m.on_term, on_stmt=stmt_cb, ordered_marks=True, arith=arith,
                     call_result=em.injector(F, body, ords=ords, extra=extra_hook), want_ret=True,
                     max_marks=40, dedupe_marks=dedupe)
    outs = w.run(0, dict(env or {}))
    rep.states += w.states_explored
    return outs


def _cellset_term(w, bb, t, env):
    if t["k"] == "call":
        n = callee_name(t) or ""
        if n == "<core::cell::Cell>::set":
            v = w.val(env, t["xs"][0])
            if isinstance(v, tuple) and v[0] == "ref":
                return ("cellset", v[1])
    return None


def usize_args(body):
    return [l for l in range(2, body.argc + 1) if body.local_ty(l)["s"] == "usize"]


# ---------------------------------------------------------------------------------------------------------------
# The product type that carries the two runs of a merge.  It is recognised by what it holds — two `Cell<usize>` cursors and
# two `Box<[usize]>` runs — whether it is a tuple or a struct, and whatever the order / names of its fields are.  Fields are
# identified by (owner type, field index), which the driver records on every field projection.

class _Runs:
    pass


def _is_cursor_ty(types, t):
    return t["k"] == "adt" and t["d"] == "core::cell::Cell" and bool(t["a"]) and isinstance(t["a"][0], int) \
        and types[t["a"][0]]["s"] == "usize"


def _is_run_ty(types, t):
    if t["k"] != "adt" or t["d"] != "alloc::boxed::Box" or not t["a"] or not isinstance(t["a"][0], int):
        return False
    e = types[t["a"][0]]
    return e["k"] == "slice" and types[e["t"]]["s"] == "usize"


def _field_tys(F, body, T):
    """(type table, field type indices, field names) of a product type: the elements of a tuple or the fields of a struct"""
    if T["k"] == "tuple":
        return body.crate.types, list(T["ts"]), [None] * len(T["ts"])
    if T["k"] == "adt":
        a = F.adts.get(T["d"])
        if a and a["kind"] == "struct" and len(a["variants"]) == 1 and a.get("_crate") is not None:
            fs = a["variants"][0]["fields"]
            return a["_crate"].types, [f["t"] for f in fs], [f["n"] for f in fs]
    return None


def _merge_layout(F, fn):
    """The argument `Rc<T>` of a merge step whose payload T holds exactly two cursors and two runs."""
    body = fn.body
    for l in range(2, body.argc + 1):
        t = body.local_ty(l)
        if t["k"] != "adt" or t["d"] != "alloc::rc::Rc" or not t["a"] or not isinstance(t["a"][0], int):
            continue
        T = body.ty(t["a"][0])
        ft = _field_tys(F, body, T)
        if ft is None:
            continue
        types, tys, names = ft
        cur = [i for i, x in enumerate(tys) if _is_cursor_ty(types, types[x])]
        runs = [i for i, x in enumerate(tys) if _is_run_ty(types, types[x])]
        if len(cur) == 2 and len(runs) == 2:
            lay = _Runs()
            lay.arg, lay.ty, lay.s, lay.cursors, lay.runs, lay.names, lay.nfields = l, t["a"][0], T["s"], cur, runs, names, len(tys)
            return lay
    raise kwalk.WalkLimit("%s: no argument carries the two runs and two cursors of the merge" % fn.q)


def _run_cursor_pairs(F, fn, lay):
    """run field -> the cursor field every element read `run[cursor.get()]` of this function indexes it with"""
    body = fn.body
    defs = _defs(body)

    def fields(deps, wanted):
        return {d[2] for d in deps if d[0] == "f" and (d[1] == lay.ty or body.ty(d[1])["s"] == lay.s) and d[2] in wanted}
    pairs = {}
    for blk in body.blocks:
        if blk["cleanup"]:
            continue
        for st in blk["s"]:
            if st["k"] != "assign":
                continue
            for pl in _rv_places(st["rv"]):
                for k, p in enumerate(pl["p"]):
                    if p == "*" or p["k"] != "i":
                        continue
                    r = fields(_deps_place(F, body, defs, {"l": pl["l"], "p": pl["p"][:k]}), lay.runs)
                    if not r:
                        continue
                    c = fields(_deps_local(F, body, defs, p["l"]), lay.cursors)
                    if len(r) != 1 or len(c) != 1:
                        raise kwalk.WalkLimit("%s: an element read of run field(s) %s is indexed from cursor field(s) %s"
                                              % (fn.q, sorted(r), sorted(c)))
                    pairs.setdefault(next(iter(r)), set()).add(next(iter(c)))
    if sorted(pairs) != sorted(lay.runs) or any(len(v) != 1 for v in pairs.values()) \
            or len({next(iter(v)) for v in pairs.values()}) != 2:
        raise kwalk.WalkLimit("%s: cannot pair each run with the one cursor that indexes it (%s)"
                              % (fn.q, {k: sorted(v) for k, v in pairs.items()}))
    return {r: next(iter(v)) for r, v in pairs.items()}


def _feeding_range(body, defs, x):
    """The `Range { start, end }` aggregate of the slice an operand was collected from: followed back through copies,
    references and the receiver of each call (`collect(map(iter(index(_, range))))`) up to an `Index::index(_, Range)`."""
    cur = x
    for _ in range(24):
        if cur.get("k") not in ("copy", "move"):
            return None
        d = defs.get(cur["l"], [])
        if len(d) != 1:
            return None
        rv = d[0]
        k = rv["k"]
        if k == "agg":
            return rv if rv["ak"] == "adt" and rv["adt"] == "core::ops::range::Range" and len(rv["xs"]) == 2 else None
        if k in ("use", "cast"):
            cur = rv["x"]
        elif k == "ref":
            cur = {"k": "copy", "l": rv["p"]["l"], "p": []}
        elif k == "callres" and rv["xs"]:
            ix = (rv.get("f") or "").endswith("Index>::index") and len(rv["xs"]) == 2
            cur = rv["xs"][1] if ix else rv["xs"][0]
        else:
            return None
    return None


def rule_merge(F, rep, R):
    post = F.fn("<%s>::do_std_sort_merge_post_compare" % E)
    pre = F.fn("<%s>::do_std_sort_merge_pre_compare" % E)
    prep = F.fn("<%s>::do_std_sort_merge_prepare" % E)
    lay = _merge_layout(F, post)
    lay_pre = _merge_layout(F, pre)
    if lay_pre.s != lay.s:
        raise kwalk.WalkLimit("the merge steps carry their runs in different types (%s / %s)" % (lay_pre.s, lay.s))
    ua = lay.arg
    run_f = {str(i) for i in lay.runs}
    cur_f = {str(i) for i in lay.cursors}

    def fld(k):
        return k.rsplit(".", 1)[1]
    table = {}
    for o in ORD:
        outs = _walk(F, rep, post, ords=[o], extra_term=_cellset_term, on_stmt=_touch_marks())
        sets = set()
        touches = set()
        for oc in outs:
            sets |= {m[1] for m in oc[1] if m[0] == "cellset" and m[1].startswith("%d.^." % ua)}
            touches |= {m[1] for m in oc[1] if m[0] == "touch" and m[1].startswith("%d.^." % ua) and fld(m[1]) in run_f}
        table[o] = (frozenset(fld(k) for k in sets), frozenset(fld(k) for k in touches))
    # pre_compare: the run whose element is pushed first is the comparison's left operand
    up = lay_pre.arg
    outs = _walk(F, rep, pre, on_stmt=_touch_marks())
    first_runs = set()
    for oc in outs:
        seq = [m for m in oc[1] if (m[0] == "touch" and m[1].startswith("%d.^." % up)) or (m[0] == "push" and m[1] == "value_stack")]
        npush = sum(1 for m in seq if m[0] == "push")
        if npush != 2:
            continue
        runs = []
        for m in seq:
            if m[0] == "touch" and fld(m[1]) in run_f:
                runs.append(fld(m[1]))
            elif m[0] == "push":
                runs.append("|")
        # e.g. [r, r, "|", s, s, "|"] : elements of run r read before the first push, of run s between the two pushes
        cut = [i for i, x in enumerate(runs) if x == "|"]
        first = runs[:cut[0]]
        second = runs[cut[0] + 1:cut[1]]
        if first and second:
            first_runs.add((first[-1], second[-1]))
    ok_pre = len(first_runs) == 1
    if not ok_pre:
        rep.ob(R, "merge|compare-operands", False)
        rep.violation(R, "do_std_sort_merge_pre_compare|operands", "cannot identify which run supplies the left "
                      "operand of the merge comparison (%s)" % sorted(first_runs), pre.loc)
        return
    lrun, rrun = next(iter(first_runs))
    # the cursor of a run is the one its element reads are indexed with (in the step that reads the comparison's operands)
    cursor_of = _run_cursor_pairs(F, pre, lay_pre)
    lcur = str(cursor_of[int(lrun)])
    rcur = str(cursor_of[int(rrun)])
    rep.ob(R, "merge|compare-operands", True, {"left_operand_run_field": lrun, "right_operand_run_field": rrun,
                                              "left_cursor_field": lcur, "right_cursor_field": rcur})
    for o in ORD:
        sets, touches = table[o]
        take_left = o in ("Less", "Equal")
        exp_set = {lcur} if take_left else {rcur}
        exp_touch_has = lrun if take_left else rrun
        exp_touch_not = rrun if take_left else lrun
        ok = sets == exp_set and exp_touch_has in touches and exp_touch_not not in touches
        rep.ob(R, "merge|%s" % o, ok, {"ordering": o, "cursor_advanced_field": sorted(sets), "run_fields_read": sorted(touches),
                                       "expected": "left run" if take_left else "right run"})
        if not ok:
            rep.violation(R, "do_std_sort_merge_post_compare|%s" % o,
                          "merge step on ordering %s advances cursor field(s) %s and reads run field(s) %s; a stable "
                          "merge must take from the %s run" % (o, sorted(sets), sorted(touches), "left" if take_left else "right"),
                          post.loc)
    # prepare: the left operand's run is the earlier half [range.start, mid): the value stored in each run field of the
    # payload is traced back to the `Range` its slice was taken with
    P = prov.Prov(F, prep.body)
    mid_l = usize_args(prep.body)
    pdefs = _defs(prep.body)
    built = [s["rv"] for _, _, s in prep.body.assigns()
             if s["rv"]["k"] == "agg" and len(s["rv"]["xs"]) == lay.nfields and prep.body.ty(s["p"]["t"])["s"] == lay.s]
    if len(built) != 1 or not mid_l:
        raise kwalk.WalkLimit("%s: the runs handed to the merge are not built by one aggregate here" % prep.q)
    rng = {}
    for side, f in (("left", int(lrun)), ("right", int(rrun))):
        r = _feeding_range(prep.body, pdefs, built[0]["xs"][f])
        if r is None:
            raise kwalk.WalkLimit("%s: cannot trace the %s run back to the range its slice was taken with" % (prep.q, side))
        rng[side] = (P.origins_op(r["xs"][0]), P.origins_op(r["xs"][1]))
    m = ("arg", mid_l[0], ())
    ok_prep = m in rng["left"][1] and m in rng["right"][0]
    rep.ob(R, "merge|left-run-is-earlier-half", ok_prep,
           {"ranges": [(sorted(map(str, a)), sorted(map(str, b))) for a, b in (rng["left"], rng["right"])]})
    if not ok_prep:
        rep.violation(R, "do_std_sort_merge_prepare|halves", "the merge comparison's left operand run is not the "
                      "earlier half [start, mid) of the range", prep.loc)


def rule_partition(F, rep, R):
    fn = F.fn("<%s>::do_std_sort_quick_sort_2" % E)
    body = fn.body

    def hook_for(o):
        def hook(w, bb, t, env, args):
            dty = w.body.ty(t["dst"]["t"])
            if dty["k"] == "adt" and dty["d"] == em.OPTION and dty["a"]:
                inner = w.body.ty(dty["a"][0])
                # Option<(usize, Ordering)> from Enumerate<Drain<Ordering>>::next, or Option<Ordering>
                if "cmp::Ordering" in inner["s"]:
                    i = env.get("#next", 0)
                    env["#next"] = i + 1
                    dst = w.norm(env, t["dst"])
                    if i == 0:
                        if inner["k"] == "tuple":
                            # (index, ordering), (ordering, item), ...: the ordering sits wherever the tuple type has it
                            pos = [k for k, ti in enumerate(inner.get("ts") or []) if "cmp::Ordering" in w.body.ty(ti)["s"]]
                            env["%s@Some.0.%d" % (dst, pos[0] if len(pos) == 1 else 1)] = ("var", em.ORDERING, o)
                        else:
                            env["%s@Some.0" % dst] = ("var", em.ORDERING, o)
                        return ("var", em.OPTION, "Some")
                    return ("var", em.OPTION, "None")
            return None
        return hook

    def term(w, bb, t, env):
        if t["k"] == "call":
            n = callee_name(t) or ""
            if n == "<alloc::vec::Vec>::push":
                v = w.val(env, t["xs"][0])
                if isinstance(v, tuple) and v[0] == "ref" and v[1].isdigit():
                    return ("lpush", int(v[1]))
            if n in ("<alloc::vec::Vec as core::ops::deref::Deref>::deref", "<[T]>::iter", "<alloc::vec::Vec>::iter"):
                v = w.val(env, t["xs"][0])
                if isinstance(v, tuple) and v[0] == "ref" and v[1].isdigit():
                    return ("liter", int(v[1]))
        return None
    res = {}
    order = None
    for o in ORD:
        outs = _walk(F, rep, fn, extra_term=term, extra_hook=hook_for(o), dedupe=True)
        buckets = set()
        for oc in outs:
            seq = [m for m in oc[1] if m[0] in ("lpush", "liter")]
            pushed = [m[1] for m in seq if m[0] == "lpush"]
            its = []
            for m in seq:
                if m[0] == "liter" and m[1] not in its:
                    its.append(m[1])
            if pushed:
                buckets |= set(pushed)
            if len(its) >= 2:
                order = tuple(its[:2]) if order is None or order == tuple(its[:2]) else "ambiguous"
        res[o] = buckets
    if not order or order == "ambiguous":
        rep.ob(R, "partition|bucket-order", False)
        rep.violation(R, "do_std_sort_quick_sort_2|buckets", "cannot identify the before/after-pivot buckets", fn.loc)
        return
    before, after = order
    for o in ORD:
        exp = {before} if o == "Less" else {after}
        ok = res[o] == exp
        rep.ob(R, "partition|%s" % o, ok, {"ordering": o, "bucket_local": sorted(res[o]), "before_pivot_bucket": before, "after": after})
        if not ok:
            rep.violation(R, "do_std_sort_quick_sort_2|%s" % o,
                          "partition puts an element comparing %s to the pivot into bucket %s; stability needs %s "
                          "(before-pivot only on Less)" % (o, sorted(res[o]), sorted(exp)), fn.loc)


def rule_minmax(F, rep, R):
    for name, replace_on in (("min", "Greater"), ("max", "Less")):
        fn = F.fn("<%s>::do_std_%s_array_check_item" % (E, name))
        us = usize_args(fn.body)
        if len(us) != 2:
            raise kwalk.WalkLimit("%s: expected (cur_index, best_index)" % fn.q)
        cur, best = us
        P = prov.Prov(F, fn.body)
        for o in ORD:
            def term(w, bb, t, env):
                if t["k"] == "call":
                    n = callee_name(t) or ""
                    if n == "<alloc::vec::Vec>::remove":
                        org = P.origins_op(t["xs"][1], through_arith=True)
                        ks = sorted(x[1] for x in org if x[0] == "const")
                        return ("remove", tuple(ks))
                return None
            outs = _walk(F, rep, fn, ords=[o], env={str(cur): 5, str(best): 3}, arith=True, extra_term=term)
            bests = set()
            removes = set()
            for oc in outs:
                if em.is_err_return(oc):
                    continue
                for m in oc[1]:
                    if m[0] == "push" and m[1] == "state_stack" and isinstance(m[2], tuple) and m[2][0].startswith("Std"):
                        pay = dict(m[2][1]) if isinstance(m[2][1], tuple) else {}
                        bests.add(tuple(sorted(pay.items())))
                    if m[0] == "remove":
                        removes.add(m[1])
            replaced = o == replace_on
            exp_best = 5 if replaced else 3
            # continuation payload must carry (cur+1, best')
            ok_b = bool(bests) and all((6 in dict(b).values()) and (exp_best in dict(b).values()) and
                                       ((3 if replaced else 5) not in dict(b).values()) for b in bests)
            exp_rm = {(2,)} if replaced else {(1,)}
            ok_r = removes == exp_rm
            ok = ok_b and ok_r
            rep.ob(R, "%sArray|%s" % (name, o), ok, {"ordering": o, "continuation_payload": sorted(map(str, bests)),
                                                    "removed_key_offset_from_top": sorted(map(str, removes)),
                                                    "best_replaced_expected": replaced})
            if not ok:
                rep.violation(R, "do_std_%s_array_check_item|%s" % (name, o),
                              "%sArray on ordering %s: continuation carries %s, removes key at len-%s; the first %s "
                              "element must win (replace only on %s)" % (name, o, sorted(map(str, bests)), sorted(removes),
                                                                          "minimal" if name == "min" else "maximal", replace_on),
                              fn.loc)


SET_TABLE = {
    "inter": {"Less": (1, 0, 0), "Equal": (1, 1, 1), "Greater": (0, 1, 0)},
    "union": {"Less": (1, 0, 1), "Equal": (1, 1, 1), "Greater": (0, 1, 1)},
    "diff": {"Less": (1, 0, 1), "Equal": (1, 1, 0), "Greater": (0, 1, 0)},
}


def rule_sets(F, rep, R):
    for name, tab in SET_TABLE.items():
        fn = F.fn("<%s>::do_std_set_%s_aux" % (E, name))
        us = usize_args(fn.body)
        if len(us) != 2:
            raise kwalk.WalkLimit("%s: expected cursors (i, j)" % fn.q)
        ia, ja = us
        for o in ORD:
            def term(w, bb, t, env):
                if t["k"] == "call":
                    n = callee_name(t) or ""
                    if n == "<alloc::vec::Vec>::push":
                        ety = w.body.ty(t["xs"][1]["t"])["s"] if "t" in t["xs"][1] else ""
                        v = w.val(env, t["xs"][0])
                        if "ThunkData" in ety and not (isinstance(v, tuple) and v[0] == "ref" and v[1].startswith("1.*.")):
                            return ("emit",)
                return None
            outs = _walk(F, rep, fn, ords=[o], env={str(ia): 5, str(ja): 9}, arith=True, extra_term=term)
            seen = set()
            for oc in outs:
                if em.is_err_return(oc) or oc[0].startswith("diverge") or oc[0] == "unreachable":
                    continue            # error returns and panics (a failed debug_assert!) are not steps of the walk
                emits = sum(1 for m in oc[1] if m == ("emit",))
                cont = None
                for m in oc[1]:
                    if m[0] == "push" and m[1] == "state_stack" and isinstance(m[2], tuple) and m[2][0].startswith("StdSet"):
                        pay = dict(m[2][1]) if isinstance(m[2][1], tuple) else {}
                        ints = [v for v in pay.values() if isinstance(v, int)]
                        cont = tuple(sorted(ints))
                seen.add((emits, cont))
            di, dj, em_n = tab[o]
            exp_cont = tuple(sorted([5 + di, 9 + dj]))
            # paths: continue with (i', j') or finish (cont None); emission count must match on all
            ok = bool(seen) and all(e == em_n for e, _ in seen) and all(c in (None, exp_cont) for _, c in seen) \
                and any(c == exp_cont for _, c in seen)
            rep.ob(R, "set%s|%s" % (name, o), ok, {"ordering": o, "paths(emits, next cursors)": sorted(map(str, seen)),
                                                  "expected": "emit %d, cursors -> %s" % (em_n, exp_cont)})
            if not ok:
                rep.violation(R, "do_std_set_%s_aux|%s" % (name, o),
                              "std.set%s walk on ordering %s: (emitted, next cursors) = %s; the contract needs emit=%d and "
                              "cursors (i+%d, j+%d)" % (name.capitalize(), o, sorted(map(str, seen)), em_n, di, dj), fn.loc)


def rule_member(F, rep):
    R = rep.rule("C17.R2", "std.setMember's binary search halves the right way: on Equal the answer is true; on Less (the "
                 "element sorts before the probe) it continues in [start, mid-1] or answers false when mid == start; on Greater "
                 "it continues in [mid+1, end] or answers false when mid == end; the probe is start + (end-start)/2")
    chk = F.fn("<%s>::do_std_set_member_check" % E)
    us = usize_args(chk.body)
    if len(us) != 3:
        raise kwalk.WalkLimit("do_std_set_member_check: expected (start, end, mid)")
    names = chk.body.local_names()
    byname = {names.get(l): l for l in us}
    if not {"start", "end", "mid"} <= set(byname):
        # renamed parameters: fall back to their declaration order (start, end, mid)
        byname = {"start": us[0], "end": us[1], "mid": us[2]}
    cases = [(2, 9, 5), (5, 9, 5), (2, 5, 5), (5, 5, 5)]
    for o in ORD:
        for (st_, en, mid) in cases:
            outs = _walk(F, rep, chk, ords=[o], env={str(byname["start"]): st_, str(byname["end"]): en, str(byname["mid"]): mid}, arith=True)
            seen = set()
            for oc in outs:
                if em.is_err_return(oc) or oc[0] != "return":
                    continue
                res = None
                for m in oc[1]:
                    if m[0] == "push" and m[1] == "state_stack" and isinstance(m[2], tuple) and m[2][0] == "StdSetMemberSlice":
                        pay = dict(m[2][1]) if isinstance(m[2][1], tuple) else {}
                        res = ("slice", tuple(v for k, v in sorted(pay.items()) if isinstance(v, int)))
                    if m[0] == "push" and m[1] == "value_stack" and isinstance(m[2], tuple) and m[2][0] == "Bool":
                        pay = dict(m[2][1]) if isinstance(m[2][1], tuple) else {}
                        res = ("answer", pay.get(0))
                seen.add(res)
            if o == "Equal":
                exp = {("answer", 1)}
            elif o == "Less":
                exp = {("answer", 0)} if mid == st_ else {("slice", (st_, mid - 1))}
            else:
                exp = {("answer", 0)} if mid == en else {("slice", (mid + 1, en))}
            ok = seen == exp
            rep.ob(R, "setMember|%s|%d,%d,%d" % (o, st_, en, mid), ok, {"ordering": o, "start,end,mid": (st_, en, mid), "outcome": sorted(map(str, seen))})
            if not ok:
                rep.violation(R, "do_std_set_member_check|%s|%s" % (o, "edge" if mid in (st_, en) else "inner"),
                              "std.setMember with ordering %s at start=%d end=%d mid=%d: %s, binary search requires %s"
                              % (o, st_, en, mid, sorted(map(str, seen)), sorted(map(str, exp))), chk.loc)
    sl = F.fn("<%s>::do_std_set_member_slice" % E)
    us = usize_args(sl.body)
    names = sl.body.local_names()
    byname = {names.get(l): l for l in us}
    for (st_, en, want) in [(2, 9, 5), (3, 3, 3), (3, 4, 3), (0, 1, 0)]:
        outs = _walk(F, rep, sl, env={str(byname.get("start", us[0])): st_, str(byname.get("end", us[-1])): en}, arith=True)
        mids = set()
        for oc in outs:
            for m in oc[1]:
                if m[0] == "push" and m[1] == "state_stack" and isinstance(m[2], tuple) and m[2][0] == "StdSetMemberCheck":
                    pay = dict(m[2][1]) if isinstance(m[2][1], tuple) else {}
                    ints = tuple(v for k, v in sorted(pay.items()) if isinstance(v, int))
                    mids.add(ints)
        ok = mids == {(st_, en, want)}
        rep.ob(R, "setMember|probe|%d,%d" % (st_, en), ok, {"start,end": (st_, en), "(start,end,mid)": sorted(map(str, mids))})
        if not ok:
            rep.violation(R, "do_std_set_member_slice|probe", "probe for [%d, %d] is %s, expected mid=%d" % (st_, en, sorted(map(str, mids)), want), sl.loc)


def rule_pivot(F, rep):
    R = rep.rule("C17.R3", "the partition of std.sort is stable because its pivot is the first element of the slice: the step "
                 "that starts a partition (do_std_sort_quick_sort_1) does not move any element (no swap / set on the permutation "
                 "cells) and hands the slice's first index on as the pivot")
    fn = F.fn("<%s>::do_std_sort_quick_sort_1" % E)
    rep.fn(fn)
    moved = [(callee_name(t) or "", fn.body.span(t["sp"])) for _, t in fn.body.calls()
             if (callee_name(t) or "") in ("<core::cell::Cell>::swap", "<core::cell::Cell>::set", "<core::cell::Cell>::replace",
                                           "<[T]>::swap", "core::mem::swap")]
    ok = not moved
    rep.ob(R, "quick_sort_1|no-permutation", ok, {"moving_calls": [m[0] for m in moved]})
    for n, site in moved:
        rep.violation(R, "do_std_sort_quick_sort_1|moves-elements", "do_std_sort_quick_sort_1 calls %s before partitioning: with a "
                      "pivot other than the first element, elements equal to it change their relative order" % n, site)


# ---------------------------------------------------------------------------------------------------------------
# "computed from": a small def-use closure over one body.  Dependencies are identities of the program, never names:
#   ("f", owner type, field index, field type)   a field of a product type read through a reference (`(*r).f`, `&(*r).f`)
#   ("arg", local)                               a parameter

def _defs(body):
    defs = {}
    for blk in body.blocks:
        if blk["cleanup"]:
            continue
        for st in blk["s"]:
            if st["k"] == "assign" and not st["p"]["p"]:
                defs.setdefault(st["p"]["l"], []).append(st["rv"])
        t = blk["t"]
        if t["k"] == "call" and not t["dst"]["p"]:
            defs.setdefault(t["dst"]["l"], []).append({"k": "callres", "xs": t["xs"], "f": callee_name(t), "t": t})
    return defs


def _rv_places(rv):
    """places read by an rvalue"""
    for key in ("x", "a", "b"):
        x = rv.get(key)
        if isinstance(x, dict) and x.get("k") in ("copy", "move"):
            yield x
    if rv["k"] in ("ref", "rawptr", "discr") and isinstance(rv.get("p"), dict):
        yield rv["p"]
    for x in rv.get("xs") or ():
        if isinstance(x, dict) and x.get("k") in ("copy", "move"):
            yield x


def _stored_fields(place):
    """fields a place reads behind a dereference (projections of a local aggregate such as `_t.0` are not stored fields)"""
    out = set()
    deref = False
    for p in place["p"]:
        if p == "*":
            deref = True
        elif p["k"] == "f" and deref and "o" in p:
            out.add(("f", p["o"], p["i"], p["t"]))
    return out


def _deps_place(F, body, defs, place, seen=None):
    fs = _stored_fields(place)
    if fs:
        return fs
    return _deps_local(F, body, defs, place["l"], seen)


def _deps_local(F, body, defs, l, seen=None):
    """what a local is computed from (through arithmetic, copies, casts, references, aggregate operands, the scalar getters
    `.get()` / `.len()` / deref, and helper functions that do not exist on the reference tree); every definition of the
    local counts (may-depend)"""
    seen = seen if seen is not None else set()
    if l in seen:
        return set()
    seen.add(l)
    out = set()
    if 1 <= l <= body.argc:
        out.add(("arg", l))

    def op(x):
        if isinstance(x, dict) and x.get("k") in ("move", "copy"):
            return _deps_place(F, body, defs, x, seen)
        return set()
    for rv in defs.get(l, []):
        k = rv["k"]
        if k in ("use", "cast", "unop"):
            out |= op(rv.get("x") or rv.get("a"))
        elif k == "binop":
            out |= op(rv["a"]) | op(rv["b"])
        elif k in ("ref", "rawptr"):
            out |= _deps_place(F, body, defs, rv["p"], seen)
        elif k == "agg":
            for x in rv["xs"]:
                out |= op(x)
        elif k == "callres":
            # only scalar getters carry a dependency; an iterator item (`enumerate().next()`) is not "computed from" the cursor
            f = rv.get("f") or ""
            if f.endswith("Cell>::get") or f.endswith("::len") or f.endswith("Deref>::deref"):
                for x in rv["xs"]:
                    out |= op(x)
            else:
                fd = rv["t"]["f"] if "t" in rv else {}
                q = fd.get("r")
                g = F.fn_opt(q) if (q and fd.get("rlocal") and F.is_new_fn(q)) else None
                if g is not None and g.body is not None:
                    # a helper that is new on this tree: its result may depend on its arguments and on every field it reads
                    for x in rv["xs"]:
                        out |= op(x)
                    for blk in g.body.blocks:
                        if blk["cleanup"]:
                            continue
                        for st in blk["s"]:
                            if st["k"] == "assign":
                                for pl in _rv_places(st["rv"]):
                                    out |= _stored_fields(pl)
                        if blk["t"]["k"] == "call":
                            for x in blk["t"]["xs"]:
                                if x.get("k") in ("copy", "move"):
                                    out |= _stored_fields(x)
    return out


def _is_cell_field(body, d):
    if d[0] != "f":
        return False
    t = body.ty(d[3])
    return t["k"] == "adt" and t["d"] == "core::cell::Cell"


def _dep_label(body, defs, names, d):
    """display name of a dependency: the field's name, else the user variable bound to a reference to that field"""
    if d[0] == "arg":
        return names.get(d[1]) or "arg%d" % d[1]
    for blk in body.blocks:
        for st in blk["s"]:
            if st["k"] == "assign":
                for pl in list(_rv_places(st["rv"])) + [st["p"]]:
                    for p in pl["p"]:
                        if p != "*" and p["k"] == "f" and p.get("o") == d[1] and p["i"] == d[2] and p.get("n"):
                            return p["n"]
    for l, rvs in sorted(defs.items()):
        if l in names and len(rvs) == 1 and rvs[0]["k"] == "ref" and d in _stored_fields(rvs[0]["p"]):
            return names[l]
    return "%s.%d" % (body.ty(d[1])["s"], d[2])


def rule_flush(F, rep):
    from . import cfg
    R = rep.rule("C17.R4", "when a sort step copies the rest of a run (`run[cursor..]`) into the output, the output position is "
                 "computed from that run's cursor: the number of items already taken from the run decides where its rest goes, so "
                 "an index that does not depend on the cursor overwrites merged items")
    n = 0
    for fn in F.fn_list:
        if fn.body is None or "do_std_sort" not in fn.q or "::{closure" in fn.q:
            continue
        body = fn.body
        names = body.local_names()
        defs = _defs(body)
        # sites: RangeFrom { start } aggregates whose start is read from a cursor cell (`Cell<usize>` field behind a reference)
        sites = []
        for bi, blk in enumerate(body.blocks):
            if blk["cleanup"]:
                continue
            for st in blk["s"]:
                if st["k"] == "assign" and st["rv"]["k"] == "agg" and st["rv"].get("adt", "").endswith("ops::range::RangeFrom"):
                    x = st["rv"]["xs"][0]
                    if x.get("k") in ("move", "copy"):
                        cursors = {d for d in _deps_place(F, body, defs, x) if _is_cell_field(body, d)}
                        if cursors:
                            sites.append((bi, cursors))
        stops = [b for b, _ in sites]
        for bi, cursors in sites:
            region = cfg.reachable(body.succ_map(), [bi], blocked_nodes=[b for b in stops if b != bi])
            for b in sorted(region):
                t = body.blocks[b]["t"]
                if body.blocks[b]["cleanup"] or t["k"] != "call" or not (callee_name(t) or "").endswith("Cell>::set"):
                    continue
                # receiver: result of an Index::index call; its index argument
                recv = t["xs"][0]
                idx_deps = None
                l = recv.get("l")
                for _ in range(6):
                    d = defs.get(l, [])
                    if len(d) != 1:
                        break
                    rv = d[0]
                    if rv["k"] == "callres" and (rv.get("f") or "").endswith("Index>::index"):
                        ix = rv["xs"][1]
                        idx_deps = _deps_place(F, body, defs, ix) if ix.get("k") in ("move", "copy") else set()
                        break
                    if rv["k"] in ("use", "cast") and rv["x"].get("k") in ("move", "copy"):
                        l = rv["x"]["l"]
                        continue
                    if rv["k"] == "ref":
                        l = rv["p"]["l"]
                        continue
                    break
                if idx_deps is None:
                    continue
                n += 1
                missing = sorted(_dep_label(body, defs, names, d) for d in cursors - idx_deps)
                ok = not missing
                rep.ob(R, "%s|flush@bb%d" % (fn.q, b), ok,
                       {"fn": fn.q, "run_cursor": sorted(_dep_label(body, defs, names, d) for d in cursors),
                        "index_depends_on": sorted(_dep_label(body, defs, names, d) for d in idx_deps)})
                if not ok:
                    rep.violation(R, "%s|flush-index-ignores|%s" % (fn.q, ",".join(missing)),
                                  "%s copies the rest of a run starting at cursor %s, but the output index is computed from %s only: "
                                  "items already taken from that run are not accounted for and merged entries are overwritten"
                                  % (fn.q, "/".join(missing), sorted(_dep_label(body, defs, names, d) for d in idx_deps)), fn.loc)
    rep.floor(R, n, 2, "run-flush copy loops")


def run(F, rep, tier):
    R = rep.rule("C17.R1", "tie-break / advance decision tables of merge, partition, minArray, maxArray and the set "
                 "walks equal the ones the contracts require (stability, first-minimal/maximal, union/inter/diff)")
    und = len(rep.undecided)
    rep.attempt(rule_merge, F, rep, R)
    rep.attempt(rule_partition, F, rep, R)
    rep.attempt(rule_minmax, F, rep, R)
    rep.attempt(rule_sets, F, rep, R)
    if len(rep.undecided) == und:
        # a handler whose shape could not be decided is reported as UNDECIDED; its missing rows are not "the matcher saw nothing"
        rep.floor(R, rep.rules[R]["obligations"], 20, "table rows")
    rep.attempt(rule_member, F, rep)
    rep.attempt(rule_pivot, F, rep)
    rep.attempt(rule_flush, F, rep)
    from . import c08
    rep.attempt(c08.rule_r4, F, rep)      # the ordering primitive the sort/set walks pop their `Ordering` from: array state machines
    rep.attempt(c08.rule_r4b, F, rep)
    from . import c01
    rep.attempt(c01.rule_r7, F, rep)      # shared stacks are popped from the top only (nested sorts)
    rep.assume("permutation, orderedness and set algebra over values are not decided (value-level); the comparison "
               "itself is C08; spurious stack-overflow of the key loops is C10")
    return EXPLANATION
